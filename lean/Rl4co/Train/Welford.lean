/-
Model of `rl4co/models/rl/common/utils.py:RewardScaler` — the batched Welford update exactly as the code
writes it, and `__call__` with its four modes.  No Mathlib; generic in the scalar type.

    def update(self, batch):
        batch = batch.reshape(-1)
        self.count += len(batch)
        delta = batch - self.mean                      # newvalues - oldMean
        self.mean += (delta / self.count).sum()
        delta2 = batch - self.mean                     # newvalues - newMean
        self.M2 += (delta * delta2).sum()
-/
namespace Rl4co.Train

namespace Welford
variable {K : Type} [Add K] [Sub K] [Mul K] [Div K] [Zero K] [One K] [NatCast K]

structure St (K : Type) where
  count : Nat
  mean : K
  M2 : K

/-- `RewardScaler.__init__`: count = 0, mean = 0, M2 = 0 -/
def init : St K := ⟨0, 0, 0⟩

/-- `RewardScaler.update`, statement by statement -/
def update (st : St K) (batch : List K) : St K :=
  let count := st.count + batch.length
  let delta := batch.map (fun x => x - st.mean)
  let mean := st.mean + List.sum (delta.map (fun d => d / (count : K)))
  let delta2 := batch.map (fun x => x - mean)
  let M2 := st.M2 + List.sum (List.zipWith (fun a b => a * b) delta delta2)
  ⟨count, mean, M2⟩

/-- state after a whole history of observed batches -/
def run (st : St K) (batches : List (List K)) : St K := batches.foldl update st

/-- the four behaviours of `RewardScaler.__call__` -/
inductive Mode (K : Type) where
  | off                 -- `scale is None`: identity, statistics untouched
  | divInt (c : K)      -- `isinstance(scale, int)`: `scores / scale`, statistics untouched
  | norm                -- `(scores - mean) / (std + eps)`
  | scale               -- `scores / (std + eps)`

/-- `M2 / (count - 1)` — the sample variance the code takes the square root of -/
def variance (st : St K) : K := st.M2 / ((st.count : K) - 1)

/-- `std + torch.finfo(dtype).eps`; `sq` is the square-root function (uninterpreted here) -/
def factor (sq : K → K) (eps : K) (st : St K) : K := sq (variance st) + eps

/-- `RewardScaler.__call__`: returns the new state and the transformed scores -/
def call (sq : K → K) (eps : K) (mode : Mode K) (st : St K) (scores : List K) : St K × List K :=
  match mode with
  | Mode.off => (st, scores)
  | Mode.divInt c => (st, scores.map (fun x => x / c))
  | Mode.norm =>
    let st' := update st scores
    (st', scores.map (fun x => (x - st'.mean) / factor sq eps st'))
  | Mode.scale =>
    let st' := update st scores
    (st', scores.map (fun x => x / factor sq eps st'))

end Welford
end Rl4co.Train
