/-
Model of the loss block of `rl4co/models/rl/ppo/n_step_ppo.py:n_step_PPO.shared_step` (improvement models DACT / N2S /
NeuOpt): the rollout memory, the n-step returns, the clipped surrogate and the (clipped) value loss.  No Mathlib.

    for i in range(n_step):
        memory.tds.append(td.clone()); out = policy(td, …); bl.append(critic(…))
        memory.actions.append(out["actions"].clone()); memory.logprobs.append(out["log_likelihood"].clone())
        env.step(td)                                  # steps `td` IN PLACE
        memory.rewards.append(td["reward"].clone().view(-1, 1))
    for k in range(ppo_epochs):
        ll, bl = memory.logprobs, bl   if k == 0 else   re-evaluation of memory.actions[i] on memory.tds[i].clone()
        R = critic(policy(td, only_return_embed)…).detach()
        for r in reversed(memory.rewards): R = R * gamma + r; Reward.append(R.clone())
        Reward = stack(Reward[::-1]);  ratio = exp(ll - old_ll.detach());  adv = Reward - bl.detach()
        surrogate_loss = -min(ratio * adv, clamp(ratio, 1 - eps, 1 + eps) * adv).mean()
        value_loss = ((bl - Reward)**2).mean()                      if old_value is None (then old_value = bl.detach())
                   = max((bl - Reward)**2, (clamp(bl - old_value, -eps, eps) + old_value - Reward)**2).mean()   otherwise
        loss = surrogate_loss + vf_lambda * value_loss
-/
import Rl4co.Train.Loss
namespace Rl4co.Train.NStep
variable {K : Type} [Add K] [Sub K] [Mul K] [Div K] [Neg K] [Zero K] [One K] [NatCast K]

/-- the returns as the code computes them: walking the rewards backwards from the bootstrap value `V`,
`R ← R·γ + r`, collected and reversed: `[R_0, …, R_{n-1}]` -/
def returnsRev (gamma : K) : K → List K → List K
  | _, [] => []
  | R, r :: rs => let R' := R * gamma + r; R' :: returnsRev gamma R' rs

def returns (gamma V : K) (rewards : List K) : List K := (returnsRev gamma V rewards.reverse).reverse

section loss
variable [LT K] [DecidableLT K]

/-- `torch.max(a, b)` elementwise (tie: gradient split evenly) -/
def maxDv (a b : Dual K) : Dual K :=
  if b.v < a.v then a else if a.v < b.v then b else ⟨a.v, (a.d + b.d) / ((2 : Nat) : K)⟩

structure Cfg (K : Type) where
  clipLo : K      -- 1 - clip_range
  clipHi : K      -- 1 + clip_range
  clipR : K       -- clip_range (value clipping)
  vf : K

structure Out (K : Type) where
  loss : Dual K
  surrogate : Dual K
  valueLoss : Dual K

/-- one sample of the value loss -/
def valueElem (c : K) (old : Option K) (bl : Dual K) (ret : K) : Dual K :=
  let e1 := (bl - Dual.const ret) * (bl - Dual.const ret)
  match old with
  | none => e1
  | some o =>
    let vc := clampD (-c) c (bl - Dual.const o) + Dual.const o
    maxDv e1 ((vc - Dual.const ret) * (vc - Dual.const ret))

/-- the loss of one inner epoch on the flattened (`t`-major) block of `n` samples: `ll`, `bl` the (re-)evaluated
log-likelihoods and critic values, `oldLl` the stored rollout log-probabilities, `oldValue` the first epoch's critic
values (none in the first epoch), `ret` the n-step returns; `w` is `exp` -/
def lossBlock (cfg : Cfg K) (w : K → K) (n : Nat) (ll bl : Nat → Dual K) (oldLl : Nat → K) (oldValue : Option (Nat → K))
    (ret : Nat → K) : Out K :=
  let surr := sumTo n (fun i =>
    let r := Dual.expw w (ll i - Dual.const (oldLl i))
    let A := ret i - (bl i).v
    minD (Dual.smul A r) (Dual.smul A (clampD cfg.clipLo cfg.clipHi r)))
  let vl := sumTo n (fun i => valueElem cfg.clipR (oldValue.map (fun o => o i)) (bl i) (ret i))
  let surrogate := - Dual.divc surr (n : K)
  let valueLoss := Dual.divc vl (n : K)
  ⟨surrogate + Dual.smul cfg.vf valueLoss, surrogate, valueLoss⟩

end loss

/-! ### the rollout memory -/

/-- the memory after a rollout block through states `s_0, …, s_{n-1}` (the state each action was sampled in) ending in
`final`: with `clone = true` (`memory.tds.append(td.clone())`) it holds those states; without the clone every entry
aliases the live TensorDict, which the environment steps in place — all entries show the FINAL state -/
def rolloutMem {S : Type} (clone : Bool) (states : List S) (final : S) : List S :=
  if clone then states else states.map (fun _ => final)

end Rl4co.Train.NStep
