/-
The training models "as coded": the same functions as `Welford.lean`, `Baselines.lean`, `Loss.lean`, but with every
decision-critical token of the Python source (operand order, sign, operator, comparison, tuple order, which quantity is
detached …) taken from `Rl4co.Generated.Params`, which `harness/extract.py` regenerates from the AST of the current
sources on every run (`harness/probes/train.py`).  The driver executes THESE definitions, so the model follows a
one-token source edit; the proof obligations `…C_eq` in `Props/C16/TrainCoded.lean` and `Props/C20/TrainCoded.lean`
state that, for the extracted tokens, they coincide with the reference-form definitions the theorems are about — and
stop compiling when a token changes.  Tag 0 / `true` / `.lt` is the shape at the pinned commit.  No Mathlib.
-/
import Rl4co.Generated.Params
import Rl4co.Train.Loss
import Rl4co.Train.RolloutBl
import Rl4co.Train.NStep
namespace Rl4co.Train
open Rl4co

variable {K : Type} [Add K] [Sub K] [Mul K] [Div K] [Neg K] [Zero K] [One K] [NatCast K]

/-! ### RewardScaler -/
namespace Welford

/-- `RewardScaler.update` as coded; `lead` is `len(batch)` of the tensor as it is passed in (its first dimension),
`batch` its entries in row-major order. -/
def updateC (lead : Nat) (st : St K) (batch : List K) : St K :=
  let count := st.count + (if Params.trainWelfordCountFlat then batch.length else lead)
  let delta := batch.map (fun x => x - st.mean)
  let mean := match Params.trainWelfordMeanTag with
    | 1 => st.mean + List.sum delta / (batch.length : K)
    | _ => st.mean + List.sum (delta.map (fun d => d / (count : K)))
  let delta2 := batch.map (fun x => x - (if Params.trainWelfordDelta2Tag = 0 then mean else st.mean))
  let prod := match Params.trainWelfordM2Tag with
    | 1 => List.zipWith (fun a b => a * b) delta delta
    | 2 => List.zipWith (fun a b => a * b) delta2 delta2
    | _ => List.zipWith (fun a b => a * b) delta delta2
  ⟨count, mean, st.M2 + List.sum prod⟩

/-- the quantity under the square root, as coded: `M2 / (count - 1)` -/
def varianceC (st : St K) : K :=
  st.M2 / (if Params.trainVarDenomTag = 0 then (st.count : K) - 1 else (st.count : K))

def factorC (sq : K → K) (eps : K) (st : St K) : K := sq (varianceC st) + eps

/-- `RewardScaler.__call__` as coded -/
def callC (sq : K → K) (eps : K) (mode : Mode K) (lead : Nat) (st : St K) (scores : List K) : St K × List K :=
  match mode with
  | Mode.off => (st, scores)
  | Mode.divInt c => (st, scores.map (fun x => x / c))
  | Mode.norm =>
    let st' := updateC lead st scores
    (st', scores.map (fun x => (if Params.trainNormTag = 0 then x - st'.mean else x) / factorC sq eps st'))
  | Mode.scale =>
    let st' := updateC lead st scores
    (st', scores.map (fun x => x / factorC sq eps st'))

end Welford

/-! ### baselines -/

/-- `SharedBaseline.eval` as coded (`keepdims` taken from the source) -/
def sharedEvalC (reward : Ten (Dual K)) : Ten (Dual K) × Dual K :=
  if Params.trainSharedKeepdims then sharedEval reward
  else ((Ten.meanLastKeep reward).squeezeLast, 0)

namespace Ema
variable [DecidableEq K]

/-- is this the first evaluation? (`if self.v is None` — or, tag 1, `if not self.v`) -/
def freshC (v : Option K) : Bool :=
  match v with
  | none => true
  | some x => if Params.trainEmaInitTag = 0 then false else decide (x = 0)

/-- the recurrence as coded -/
def combC (beta v m : K) : K :=
  match Params.trainEmaTag with
  | 1 => (1 - beta) * v + beta * m
  | 2 => v + (1 - beta) * m
  | 3 => beta * v + m
  | _ => beta * v + (1 - beta) * m

def stepC (beta : K) (v : Option K) (m : K) : K :=
  if freshC v then m else combC beta (v.getD 0) m

/-- `ExponentialBaseline.eval` on dual numbers, as coded -/
def evalC (beta : K) (v : Option K) (reward : Ten (Dual K)) : Ten (Dual K) × Dual K × K :=
  let m := Ten.meanAll reward
  let v' : Dual K :=
    if freshC v then m
    else
      let v0 := Dual.const (v.getD 0)
      match Params.trainEmaTag with
      | 1 => Dual.smul (1 - beta) v0 + Dual.smul beta m
      | 2 => v0 + Dual.smul (1 - beta) m
      | 3 => Dual.smul beta v0 + m
      | _ => Dual.smul beta v0 + Dual.smul (1 - beta) m
  (Ten.scalar (Dual.detach v'), 0, v'.v)
end Ema

namespace Critic
/-- `CriticBaseline.eval` as coded: squeeze, which of value / target is detached -/
def evalC (out : Ten (Dual K)) (c : Ten (Dual K)) : Option (Ten (Dual K) × Dual K) :=
  let v := if Params.trainCriticSqueeze then Ten.squeezeLast out else out
  let target := if Params.trainCriticTag = 2 then c else c.map Dual.detach
  (mse v target).map (fun l => (if Params.trainCriticTag = 1 then v else v.map Dual.detach, l))
end Critic

namespace Warmup
variable [DecidableEq K]

/-- `WarmupBaseline.__init__(baseline, n_epochs, warmup_exp_beta)` as coded: the horizon that is stored and the decay the
warm-up moving average really gets (`defaultBeta` = `ExponentialBaseline`'s own default, used if the argument is dropped) -/
def configC (nArg : Nat) (betaArg defaultBeta : K) : Nat × K :=
  (if Params.trainWarmupNStored then nArg else 1,
   if Params.trainWarmupBetaArg && Params.trainEmaBetaStored then betaArg else defaultBeta)

/-- `WarmupBaseline.epoch_callback` as coded: comparison operator and the weight expression from the source -/
def epochCallbackC (st : St K) (epoch : Nat) : St K :=
  if Params.trainWarmupCmp.evalNat epoch st.nEpochs then
    { st with alpha := match Params.trainWarmupAlphaTag with
        | 1 => (((epoch + 1) / st.nEpochs : Nat) : K)
        | 2 => (epoch : K) / (st.nEpochs : K)
        | _ => ((epoch + 1 : Nat) : K) / (st.nEpochs : K) }
  else st

/-- `WarmupBaseline.eval` as coded -/
def evalC (beta : K) (st : St K) (inner : Ten (Dual K) × Dual K) (reward : Ten (Dual K)) :
    Option (Ten (Dual K) × Dual K × St K) :=
  match branch st with
  | Branch.inner => some (inner.1, inner.2, st)
  | Branch.warm =>
    let (v, l, e) := Ema.evalC beta st.ema reward
    some (v, l, { st with ema := some e })
  | Branch.both =>
    let (vwb, lwb, e) := Ema.evalC beta st.ema reward
    let a := st.alpha
    let (wa, wb) := if Params.trainWarmupMixTag = 0 then (a, 1 - a) else (1 - a, a)
    match Ten.bop (fun x y => x + y) (inner.1.map (Dual.smul wa)) (vwb.map (Dual.smul wb)) with
    | some v =>
      let lb := if Params.trainWarmupLossMixTag = 0 then Dual.smul a inner.2 else inner.2
      some (v, lb + Dual.smul (1 - a) lwb, { st with ema := some e })
    | none => none
end Warmup

/-! ### REINFORCE -/

/-- `REINFORCE.calculate_loss` as coded -/
def calcLossC (sc : ScaleOp K) (reward blVal ll : Ten (Dual K)) (blLoss : Dual K) : Option (LossOut K) :=
  let advf : Dual K → Dual K → Dual K := match Params.trainAdvTag with
    | 1 => fun r b => b - r
    | 2 => fun r b => r + b
    | _ => fun r b => r - b
  match Ten.bop advf reward blVal with
  | none => none
  | some adv0 =>
    let adv := adv0.map sc.apply
    match Ten.bop (fun a l => a * l) adv ll with
    | none => none
    | some prod =>
      let rl : Dual K := match Params.trainLossTag with
        | 1 => Ten.meanAll prod
        | 2 => - Ten.sumAll prod
        | _ => - Ten.meanAll prod
      let loss : Dual K := match Params.trainTotalTag with
        | 1 => rl - blLoss
        | 2 => rl
        | _ => rl + blLoss
      some ⟨loss, rl, adv⟩

/-! ### PPO -/
section ppo
variable [LT K] [DecidableLT K]

def maxD (a b : Dual K) : Dual K :=
  if b.v < a.v then a else if a.v < b.v then b else ⟨a.v, (a.d + b.d) / ((2 : Nat) : K)⟩

/-- `torch.clamp(ratio, …)` as coded (two-sided, or only one bound) -/
def clampC (lo hi : K) (x : Dual K) : Dual K :=
  match Params.trainPpoClampTag with
  | 1 => if hi < x.v then Dual.const hi else if x.v < hi then x else Dual.const x.v
  | 2 => if x.v < lo then Dual.const lo else if lo < x.v then x else Dual.const x.v
  | _ => clampD lo hi x

/-- the value-loss element as coded: Huber (0) or squared error (1) -/
def valueElemC (z : Dual K) : Dual K :=
  match Params.trainPpoValueTag with
  | 1 => z * z
  | _ => huberD z

/-- the loss block of `PPO.shared_step` as coded -/
def ppoLossC (cfg : PpoCfg K) (w : K → K) (ll : Ten (Dual K)) (oldLogp reward : Ten K)
    (valuePred entropy : Ten (Dual K)) : Option (PpoOut K) :=
  let prev : Ten K := reward.viewCol
  match Ten.bop (fun a b => a - Dual.const b) (Ten.sumLast ll) oldLogp with
  | none => none
  | some diff =>
    let ratio := (diff.map (Dual.expw w)).viewCol
    let advf : K → K → K := match Params.trainPpoAdvTag with
      | 2 => fun r v => v - r
      | _ => fun r v => r - v
    match Ten.bop advf prev (valuePred.map (fun x => x.v)) with
    | none => none
    | some adv0 =>
      let adv : Ten K := adv0.map (ppoNormFn cfg.normalize adv0)
      let clamped := ratio.map (clampC cfg.clipLo cfg.clipHi)
      let mn : Option (Ten (Dual K)) := match Params.trainPpoSurrTag with
        | 1 => match Ten.bop minD ratio clamped with
               | some m => Ten.bop (fun r a => Dual.smul a r) m adv
               | none => none
        | 2 => match Ten.bop (fun r a => Dual.smul a r) ratio adv, Ten.bop (fun r a => Dual.smul a r) clamped adv with
               | some t1, some t2 => Ten.bop maxD t1 t2
               | _, _ => none
        | _ => match Ten.bop (fun r a => Dual.smul a r) ratio adv, Ten.bop (fun r a => Dual.smul a r) clamped adv with
               | some t1, some t2 => Ten.bop minD t1 t2
               | _, _ => none
      match mn, Ten.bop (fun v r => valueElemC (v - Dual.const r)) valuePred prev with
      | some mn, some hub =>
        let surrogate : Dual K := if Params.trainPpoSurrTag = 3 then Ten.meanAll mn else - Ten.meanAll mn
        let valueLoss := Ten.meanAll hub
        let ent := Ten.meanAll entropy
        let base := surrogate + Dual.smul cfg.vfLambda valueLoss
        some ⟨if Params.trainPpoEntropyMinus then base - Dual.smul cfg.entLambda ent else base + Dual.smul cfg.entLambda ent,
              surrogate, valueLoss, ent, ratio, adv⟩
      | _, _ => none
end ppo

/-! ### regrouping -/

/-- POMO's regrouping for general factors, as coded: `unbatchify(x, (n_aug, n_start))` gives `[B, n_aug, n_start]`
(fields `ns := n_aug`, `na := n_start` of the rank-3 record are just "dim 1" and "dim 2"). -/
def pomoRegroup3C {α : Type} (nAug nStart n : Nat) (x : Nat → α) : Ten3 α :=
  if Params.trainPomoTupleAugStart then ⟨n / nStart / nAug, nAug, nStart, unbatch2 nAug nStart n x⟩
  else ⟨n / nAug / nStart, nStart, nAug, unbatch2 nStart nAug n x⟩

/-- SymNCO's regrouping as coded: `unbatchify(x, (n_start, n_aug))` -/
def symncoRegroupC {α : Type} (nStart nAug n : Nat) (x : Nat → α) : Ten3 α :=
  if Params.trainSymncoTupleStartAug then symncoRegroup nStart nAug n x
  else
    let s := if nStart = 0 then 1 else nStart
    let a := if nAug = 0 then 1 else nAug
    ⟨n / s / a, a, s, unbatch2 a s n x⟩

/-- one symmetricity term as coded: `advantage = reward - reward.mean(dim, keepdim=True)`, `loss = -advantage * ll`,
`return loss.mean()`; `tag = 100·adv + 10·sign + reduction` (0 = the shape at the pinned commit) -/
def symTermC (tag : Nat) (dim1 : Bool) (R L : Ten3 (Dual K)) : Dual K :=
  let base : Dual K := if dim1 then lossDim1 R L else lossDimLast R L
  match tag with
  | 0 => base
  | 10 => -base                                                     -- the minus sign dropped
  | 200 => -base                                                    -- mean − reward
  | 1 => Dual.smul ((R.nb * R.ns * R.na : Nat) : K) base           -- `.sum()` instead of `.mean()`
  | _ => base

/-- the training branch of `SymNCO.shared_step` as coded: regrouping tuple, default axes of the two loss functions,
their three statements, the guards `n_start > 1` / `n_aug > 1`, and the total -/
def symncoLossC (nStart nAug n : Nat) (alpha beta : K) (reward ll : Nat → Dual K) (inv : Dual K) : SymOut K :=
  let R := symncoRegroupC nStart nAug n reward
  let L := symncoRegroupC nStart nAug n ll
  let ps : Dual K := if Params.trainSymGuardPs.evalNat nStart 1
    then symTermC Params.trainSymPsBodyTag (decide (Params.trainSymPsDim = 1)) R L else 0
  let ss : Dual K := if Params.trainSymGuardSs.evalNat nAug 1
    then symTermC Params.trainSymSsBodyTag (!Params.trainSymSsDimLast) R L else 0
  let total : Dual K := match Params.trainSymTotalTag with
    | 1 => ps + Dual.smul beta ss - Dual.smul alpha inv
    | 2 => ps + Dual.smul beta ss
    | _ => ps + Dual.smul beta ss + Dual.smul alpha inv
  ⟨total, ps, ss⟩

/-- `invariance_loss`: the two rows of the projected embeddings `[A·B, …]` whose cosine similarity is the `(b, i)` term:
`rearrange(proj, "(b a) ... -> b a ...")` reads row `b·A + i` as "(instance b, augmentation i)" -/
def invRowsC (A B b i : Nat) : Nat × Nat :=
  if Params.trainSymInvBatchOuter then (b * A + 0, b * A + i) else (0 * B + b, i * B + b)

/-! ### A2C optimizer configuration -/
namespace A2C
/-- `A2C.configure_optimizers`: the parameter groups `(is it the policy?, learning rate)` in order -/
def groupsC (actorLr : K) (criticLr : Option K) : List (Bool × K) :=
  let c := match criticLr with
    | some c => c
    | none => if Params.trainA2cCriticKwDefault then actorLr else 0
  if Params.trainA2cGroups then [(true, actorLr), (false, c)] else [(true, c), (false, actorLr)]
end A2C

/-! ### n-step PPO (improvement models) -/
namespace NStep

/-- the rollout memory as coded (is the state cloned when it is stored?) -/
def rolloutMemC {S : Type} (states : List S) (final : S) : List S :=
  rolloutMem Params.trainNstepMemoryClone states final

/-- the return recursion as coded -/
def returnsRevC (gamma : K) : K → List K → List K
  | _, [] => []
  | R, r :: rs =>
    let R' := match Params.trainNstepReturnTag with
      | 1 => R + gamma * r
      | 2 => R + r
      | _ => R * gamma + r
    R' :: returnsRevC gamma R' rs

def returnsC (gamma V : K) (rewards : List K) : List K := (returnsRevC gamma V rewards.reverse).reverse
end NStep

/-! ### greedy-rollout baseline -/
namespace RolloutBl
variable {Inst : Type} [LT K] [DecidableLT K] [DecidableEq K]

/-- a comparison operator of the source on scalars -/
def cmpK (c : Cmp) (x y : K) : Bool :=
  match c with
  | .lt => decide (x < y) | .gt => decide (y < x) | .le => !decide (y < x) | .ge => !decide (x < y)
  | .eq => decide (x = y) | .ne => !decide (x = y)

/-- the decision of `epoch_callback` as coded; `pval2` is the TWO-sided p-value `ttest_rel` returns -/
def acceptsC (pval2 : List K → List K → K) (alpha : K) (st : St Inst K) (candVals : List K) : Bool :=
  let p := pval2 candVals st.blVals
  let pOne := if Params.trainRolloutPHalf then p / ((2 : Nat) : K) else p
  cmpK Params.trainRolloutBetterCmp (lmean candVals - st.mean) 0 && cmpK Params.trainRolloutPCmp pOne alpha

/-- `epoch_callback` as coded (which policy is rolled out as the candidate included) -/
def epochCallbackC (pval2 : List K → List K → K) (alpha : K) (bs : Nat) (st : St Inst K)
    (cand : List Inst → List K) (fresh : List Inst) : St Inst K :=
  let candVals := Ops.rollout (if Params.trainRolloutCandidatePolicy then cand else st.policy) bs st.dataset
  if acceptsC pval2 alpha st candVals then updatePolicy bs cand fresh else st
end RolloutBl

end Rl4co.Train
