/-
Tours, rolls and routes over a distance matrix `D : Nat → Nat → Int` (ticks).  No Mathlib.

`rollLen D xs` is the model of `get_tour_length(gather_by_index(locs, xs))` and of the
`gather / torch.roll(-1) / sum` idiom: Σ_k D xs[k] xs[(k+1) mod len].
`pathLen D xs` is the open path length Σ_k D xs[k] xs[k+1].
`routes as` splits an action list at depot visits (action 0) into maximal depot-free segments.
-/
namespace Rl4co

/-- `torch.roll(xs, -1)`: first element moves to the end. -/
def roll1 {α : Type} : List α → List α
  | [] => []
  | x :: xs => xs ++ [x]

/-- Open path length along consecutive pairs. -/
def pathLen (D : Nat → Nat → Int) : List Nat → Int
  | [] => 0
  | [_] => 0
  | x :: y :: r => D x y + pathLen D (y :: r)

/-- The code's idiom: pairwise distance between `xs` and `roll(xs, -1)`, summed. -/
def rollLen (D : Nat → Nat → Int) (xs : List Nat) : Int :=
  (List.zipWith (fun a b => D a b) xs (roll1 xs)).sum

/-- Closed tour length: path plus the edge from the last element back to the first. -/
def closedLen (D : Nat → Nat → Int) : List Nat → Int
  | [] => 0
  | x :: xs => pathLen D (x :: xs ++ [x])

theorem pathLen_cons_cons (D : Nat → Nat → Int) (x y : Nat) (r : List Nat) :
    pathLen D (x :: y :: r) = D x y + pathLen D (y :: r) := rfl

theorem pathLen_append_singleton (D : Nat → Nat → Int) (x : Nat) (xs : List Nat) (z : Nat) :
    pathLen D ((x :: xs) ++ [z]) = pathLen D (x :: xs) + D ((x :: xs).getLast (by simp)) z := by
  induction xs generalizing x with
  | nil => simp [pathLen]
  | cons y ys ih =>
    have := ih y
    simp only [List.cons_append] at this ⊢
    rw [pathLen_cons_cons, pathLen_cons_cons, this]
    simp [List.getLast_cons]
    omega

theorem zipWith_roll_aux (D : Nat → Nat → Int) (x : Nat) (xs : List Nat) (z : Nat) :
    (List.zipWith (fun a b => D a b) (x :: xs) (xs ++ [z])).sum = pathLen D (x :: xs ++ [z]) := by
  induction xs generalizing x with
  | nil => simp [pathLen]
  | cons y ys ih =>
    simp only [List.cons_append, List.zipWith_cons_cons, List.sum_cons]
    rw [ih y, pathLen_cons_cons]
    simp

/-- The roll idiom computes the closed tour length. -/
theorem rollLen_eq_closedLen (D : Nat → Nat → Int) (xs : List Nat) :
    rollLen D xs = closedLen D xs := by
  cases xs with
  | nil => simp [rollLen, closedLen, roll1]
  | cons x xs => simp only [rollLen, roll1, closedLen]; exact zipWith_roll_aux D x xs x

/-- Split at depot visits: `routes [1,2,0,3,0,0,4] = [[1,2],[3],[],[4]]`. -/
def routes : List Nat → List (List Nat)
  | [] => [[]]
  | a :: as =>
    if a = 0 then [] :: routes as
    else match routes as with
      | [] => [[a]]
      | r :: rs => (a :: r) :: rs

theorem routes_ne_nil (as : List Nat) : routes as ≠ [] := by
  cases as with
  | nil => simp [routes]
  | cons a as =>
    simp only [routes]
    split
    · simp
    · split <;> simp

/-- Length of one route driven out of and back into the depot; empty routes cost nothing. -/
def routeLen (D : Nat → Nat → Int) (r : List Nat) : Int :=
  if r = [] then 0 else pathLen D (0 :: r ++ [0])

/-- Independent objective of depot-based routing: sum of closed route lengths. -/
def routesLen (D : Nat → Nat → Int) (as : List Nat) : Int :=
  ((routes as).map (routeLen D)).sum

theorem routes_cons_exists (as : List Nat) : ∃ r rs, routes as = r :: rs := by
  cases hr : routes as with
  | nil => exact absurd hr (routes_ne_nil as)
  | cons r rs => exact ⟨r, rs, rfl⟩

/-- Path from `x` through `as` to the depot = path through the first route + the remaining routes. -/
theorem pathLen_routes (D : Nat → Nat → Int) (h00 : D 0 0 = 0) (as : List Nat) :
    ∀ x r rs, routes as = r :: rs →
      pathLen D (x :: as ++ [0]) = pathLen D (x :: r ++ [0]) + (rs.map (routeLen D)).sum := by
  induction as with
  | nil =>
    intro x r rs h
    simp only [routes, List.cons.injEq] at h
    obtain ⟨h1, h2⟩ := h; subst h1 h2
    simp
  | cons a as ih =>
    intro x r rs h
    obtain ⟨r1, rs1, h1⟩ := routes_cons_exists as
    by_cases h0 : a = 0
    · subst h0
      simp only [routes, if_true, List.cons.injEq] at h
      obtain ⟨h2, h3⟩ := h; subst h2 h3
      have := ih 0 r1 rs1 h1
      simp only [List.cons_append, pathLen_cons_cons, List.nil_append] at this ⊢
      rw [this, h1]
      simp only [List.map_cons, List.sum_cons, routeLen]
      by_cases hr : r1 = []
      · subst hr; simp [pathLen, h00]
      · simp only [hr, if_false, List.cons_append]
        simp [pathLen]
    · simp only [routes, h0, if_false, h1, List.cons.injEq] at h
      obtain ⟨h2, h3⟩ := h; subst h2 h3
      have := ih a r1 rs1 h1
      simp only [List.cons_append, pathLen_cons_cons] at this ⊢
      rw [this]; omega

theorem closed_eq_routesLen (D : Nat → Nat → Int) (h00 : D 0 0 = 0) (as : List Nat) :
    pathLen D (0 :: as ++ [0]) = routesLen D as := by
  obtain ⟨r, rs, h⟩ := routes_cons_exists as
  rw [pathLen_routes D h00 as 0 r rs h, routesLen, h]
  simp only [List.map_cons, List.sum_cons, routeLen]
  by_cases hr : r = []
  · subst hr; simp [pathLen, h00]
  · simp [hr]


end Rl4co
