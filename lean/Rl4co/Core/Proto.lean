/-
Line protocol helpers for the model driver (`Driver/Main.lean`).  One request per line:
  <model>.<op> <int> ... | <int> ... | ...
Sections are separated by a lone `|`; all numbers are integers (ticks).  The reply is one line of
space-separated `key=value` fields.  No Mathlib.
-/
import Rl4co.Core.Basic
namespace Rl4co.Proto

def splitSections (toks : List String) : List (List String) :=
  let rec go (acc : List String) (out : List (List String)) : List String → List (List String)
    | [] => (acc.reverse :: out).reverse
    | t :: ts => if t == "|" then go [] (acc.reverse :: out) ts else go (t :: acc) out ts
  go [] [] toks

def ints (toks : List String) : Option (List Int) := toks.mapM String.toInt?
def nats (toks : List String) : Option (List Nat) := toks.mapM String.toNat?

/-- all sections parsed as integer lists -/
def parseSections (toks : List String) : Option (List (List Int)) :=
  (splitSections toks).mapM ints

def toNats (xs : List Int) : List Nat := xs.map Int.toNat

/-- list → total function with default 0 -/
def fn1 (xs : List Int) : Nat → Int := fun j => xs.getD j 0
/-- 1-based list → function: `fn1From1 xs j = xs[j-1]` for j ≥ 1, 0 at 0 -/
def fn1From1 (xs : List Int) : Nat → Int := fun j => if j = 0 then 0 else xs.getD (j - 1) 0
/-- row-major `m × m` matrix -/
def fn2 (m : Nat) (xs : List Int) : Nat → Nat → Int := fun a b => xs.getD (a * m + b) 0
def fnB (xs : List Int) : Nat → Bool := fun j => xs.getD j 0 != 0

def bit (b : Bool) : String := if b then "1" else "0"
def bits (bs : List Bool) : String := String.join (bs.map bit)
def maskBits (n : Nat) (m : Nat → Bool) : String := bits ((List.range n).map m)
def intsStr (xs : List Int) : String := ",".intercalate (xs.map toString)
def natsStr (xs : List Nat) : String := ",".intercalate (xs.map toString)

/-- Trace of masks and done flags along an action list (state after 0..T actions), together with
whether every action was admitted by the mask of the state it was taken in. -/
def episodeTrace {I S : Type} (e : Env I S) (i : I) (as : List Nat) : String :=
  let rec go (s : S) (ms ds : List String) : List Nat → List String × List String
    | [] => ((maskBits (e.nAct i) (e.mask i s) :: ms).reverse, (bit (e.done i s) :: ds).reverse)
    | a :: as => go (e.step i s a) (maskBits (e.nAct i) (e.mask i s) :: ms) (bit (e.done i s) :: ds) as
  let (ms, ds) := go (e.reset i) [] [] as
  s!"masks={",".intercalate ms} done={String.join ds} adm={bit (admitted e i (e.reset i) as)}"

end Rl4co.Proto

namespace Rl4co.Proto

abbrev Handlers := List (String × (List String → Option String))

def answer (hs : Handlers) (line : String) : String :=
  match (line.splitOn " ").filter (· ≠ "") with
  | [] => "bad-op empty"
  | op :: args =>
    match hs.lookup op with
    | none => s!"bad-op {op}"
    | some h => match h args with
      | none => s!"bad-args {op}"
      | some r => r

partial def loop (hs : Handlers) (hin hout : IO.FS.Stream) : IO Unit := do
  let line ← hin.getLine
  if line.isEmpty then return ()
  let line := line.trimAscii.toString
  if line == "flush" then
    hout.putStrLn "flushed"; hout.flush
  else
    hout.putStrLn (answer hs line)
  loop hs hin hout

/-- Line-protocol main loop: one request per line on stdin, one reply line on stdout;
the request `flush` flushes the output buffer and answers `flushed`. -/
def runDriver (hs : Handlers) : IO Unit := do
  let hin ← IO.getStdin
  let hout ← IO.getStdout
  loop hs hin hout
  hout.flush

end Rl4co.Proto
