/-
Comparison operators as data, so that the operator the source code uses in a mask / checker /
termination test can be *extracted from the Python AST* (harness/extract.py) and plugged into
the model (`Rl4co/Generated/Params.lean`).  No Mathlib.
-/
namespace Rl4co

inductive Cmp where
  | lt | le | gt | ge | eq | ne
  deriving DecidableEq, Repr

def Cmp.eval : Cmp → Int → Int → Bool
  | .lt, x, y => decide (x < y)
  | .le, x, y => decide (x ≤ y)
  | .gt, x, y => decide (x > y)
  | .ge, x, y => decide (x ≥ y)
  | .eq, x, y => decide (x = y)
  | .ne, x, y => decide (x ≠ y)

def Cmp.evalNat : Cmp → Nat → Nat → Bool
  | .lt, x, y => decide (x < y)
  | .le, x, y => decide (x ≤ y)
  | .gt, x, y => decide (x > y)
  | .ge, x, y => decide (x ≥ y)
  | .eq, x, y => decide (x = y)
  | .ne, x, y => decide (x ≠ y)

end Rl4co
