/-
Core definitions shared by every environment model.  No Mathlib.

* `upd`      pointwise update of a function (models `scatter` of one entry)
* `Env`      a per-instance state machine  reset / mask / step / done
* `Run`      mask-confined run relation, `exec` its executable counterpart
* `inv_of_run`  the generic "invariant over history" induction principle
-/
namespace Rl4co

/-- `scatter(-1, a, v)` of a single entry into a row, rows being functions `Nat → α`. -/
def upd {α : Type} (f : Nat → α) (a : Nat) (v : α) : Nat → α :=
  fun j => if j = a then v else f j

@[simp] theorem upd_same {α : Type} (f : Nat → α) (a : Nat) (v : α) : upd f a v a = v := by
  simp [upd]

@[simp] theorem upd_other {α : Type} (f : Nat → α) (a j : Nat) (v : α) (h : j ≠ a) :
    upd f a v j = f j := by
  simp [upd, h]

theorem upd_apply {α : Type} (f : Nat → α) (a j : Nat) (v : α) :
    upd f a v j = if j = a then v else f j := rfl

/-- Per-instance environment: `I` instance data, `S` state.  `mask i s a = true` means the
code's `action_mask[a]` is `True` (action advertised as feasible). -/
structure Env (I S : Type) where
  reset : I → S
  nAct  : I → Nat
  mask  : I → S → Nat → Bool
  step  : I → S → Nat → S
  done  : I → S → Bool

variable {I S : Type}

/-- Mask-confined runs: every action is in range and advertised by the mask of the state it is
taken in. -/
inductive Run (e : Env I S) (i : I) : S → List Nat → S → Prop
  | nil (s : S) : Run e i s [] s
  | cons {s s' : S} {a : Nat} {as : List Nat} :
      a < e.nAct i → e.mask i s a = true → Run e i (e.step i s a) as s' →
      Run e i s (a :: as) s'

/-- Executable: state after a list of actions (no mask test). -/
def exec (e : Env I S) (i : I) (s : S) (as : List Nat) : S := as.foldl (e.step i) s

/-- Executable: are all actions admitted by the mask along the way? -/
def admitted (e : Env I S) (i : I) : S → List Nat → Bool
  | _, [] => true
  | s, a :: as => decide (a < e.nAct i) && e.mask i s a && admitted e i (e.step i s a) as

theorem run_iff_admitted (e : Env I S) (i : I) (s s' : S) (as : List Nat) :
    Run e i s as s' ↔ (admitted e i s as = true ∧ exec e i s as = s') := by
  induction as generalizing s with
  | nil =>
    constructor
    · intro h; cases h; simp [admitted, exec]
    · intro h; simp [exec] at h; obtain ⟨_, h⟩ := h; subst h; exact Run.nil _
  | cons a as ih =>
    constructor
    · intro h
      cases h with
      | cons h1 h2 h3 =>
        have := (ih _).1 h3
        simp [admitted, exec, h1, h2, this.1]
        exact this.2
    · intro h
      simp [admitted, exec] at h
      exact Run.cons h.1.1.1 h.1.1.2 ((ih _).2 ⟨h.1.2, h.2⟩)

theorem Run.snoc {e : Env I S} {i : I} {s s' : S} {as : List Nat} {a : Nat}
    (h : Run e i s as s') (ha : a < e.nAct i) (hm : e.mask i s' a = true) :
    Run e i s (as ++ [a]) (e.step i s' a) := by
  induction h with
  | nil s => exact Run.cons ha hm (Run.nil _)
  | cons h1 h2 _ ih => exact Run.cons h1 h2 (ih hm)

theorem Run.append {e : Env I S} {i : I} {s s' s'' : S} {as bs : List Nat}
    (h : Run e i s as s') (h' : Run e i s' bs s'') : Run e i s (as ++ bs) s'' := by
  induction h with
  | nil s => simpa using h'
  | cons h1 h2 _ ih => exact Run.cons h1 h2 (ih h')

/-- Reachable states (through mask-confined runs from reset). -/
def Reach (e : Env I S) (i : I) (s : S) : Prop := ∃ as, Run e i (e.reset i) as s

/-- Generic invariant principle over the *history* of actions: if `Inv` holds of the reset state
with empty history and is preserved by every mask-admitted step (history extended at the end),
it holds of the final state of every mask-confined run together with the full action list. -/
theorem inv_of_run_from {e : Env I S} {i : I} {Inv : S → List Nat → Prop}
    (hstep : ∀ s h a, Inv s h → a < e.nAct i → e.mask i s a = true →
      Inv (e.step i s a) (h ++ [a]))
    {s s' : S} {as : List Nat} (h : Run e i s as s') :
    ∀ hist, Inv s hist → Inv s' (hist ++ as) := by
  induction h with
  | nil s => intro hist h0; simpa using h0
  | cons h1 h2 _ ih =>
    intro hist h0
    have := ih (hist ++ [_]) (hstep _ _ _ h0 h1 h2)
    simpa using this

theorem inv_of_run {e : Env I S} {i : I} {Inv : S → List Nat → Prop}
    (h0 : Inv (e.reset i) [])
    (hstep : ∀ s h a, Inv s h → a < e.nAct i → e.mask i s a = true →
      Inv (e.step i s a) (h ++ [a]))
    {s : S} {as : List Nat} (h : Run e i (e.reset i) as s) : Inv s as := by
  simpa using inv_of_run_from hstep h [] h0

/-- State-only invariant over reachable states. -/
theorem inv_of_reach {e : Env I S} {i : I} {Inv : S → Prop}
    (h0 : Inv (e.reset i))
    (hstep : ∀ s a, Inv s → a < e.nAct i → e.mask i s a = true → Inv (e.step i s a))
    {s : S} (h : Reach e i s) : Inv s := by
  obtain ⟨as, hr⟩ := h
  exact inv_of_run (Inv := fun s _ => Inv s) h0 (fun s _ a hi ha hm => hstep s a hi ha hm) hr

/-- `count of indices j < n with p j`, used for visited / available counters. -/
def cnt (n : Nat) (p : Nat → Bool) : Nat := ((List.range n).filter p).length

theorem cnt_le (n : Nat) (p : Nat → Bool) : cnt n p ≤ n := by
  unfold cnt
  calc ((List.range n).filter p).length ≤ (List.range n).length := List.length_filter_le _ _
    _ = n := List.length_range

theorem cnt_succ (n : Nat) (p : Nat → Bool) :
    cnt (n + 1) p = cnt n p + (if p n then 1 else 0) := by
  unfold cnt
  rw [List.range_succ, List.filter_append]
  by_cases h : p n <;> simp [h]

theorem cnt_congr {n : Nat} {p q : Nat → Bool} (h : ∀ j, j < n → p j = q j) :
    cnt n p = cnt n q := by
  induction n with
  | zero => simp [cnt]
  | succ n ih =>
    rw [cnt_succ, cnt_succ, ih (fun j hj => h j (Nat.lt_succ_of_lt hj)), h n (Nat.lt_succ_self n)]

theorem cnt_eq_zero {n : Nat} {p : Nat → Bool} : cnt n p = 0 ↔ ∀ j, j < n → p j = false := by
  induction n with
  | zero => simp [cnt]
  | succ n ih =>
    rw [cnt_succ]
    constructor
    · intro h j hj
      have h1 : cnt n p = 0 := by omega
      have h2 : p n = false := by
        by_cases hp : p n = true
        · simp [hp] at h
        · simpa using hp
      rcases Nat.lt_succ_iff_lt_or_eq.mp hj with hlt | heq
      · exact ih.mp h1 j hlt
      · subst heq; exact h2
    · intro h
      have h1 := ih.mpr (fun j hj => h j (Nat.lt_succ_of_lt hj))
      have h2 := h n (Nat.lt_succ_self n)
      simp [h1, h2]

theorem cnt_pos {n : Nat} {p : Nat → Bool} : 0 < cnt n p ↔ ∃ j, j < n ∧ p j = true := by
  constructor
  · intro h
    apply Classical.byContradiction
    intro hne
    have : cnt n p = 0 := cnt_eq_zero.mpr (fun j hj => by
      by_cases hp : p j = true
      · exact absurd ⟨j, hj, hp⟩ hne
      · simpa using hp)
    omega
  · intro ⟨j, hj, hp⟩
    apply Nat.pos_of_ne_zero
    intro h0
    have := cnt_eq_zero.mp h0 j hj
    simp [hp] at this

/-- Turning one `true` entry (index `a < n`) to `false` decreases the count by exactly one. -/
theorem cnt_upd_false {n : Nat} {p : Nat → Bool} {a : Nat} (ha : a < n) (hp : p a = true) :
    cnt n (upd p a false) + 1 = cnt n p := by
  induction n with
  | zero => omega
  | succ n ih =>
    rw [cnt_succ, cnt_succ]
    rcases Nat.lt_succ_iff_lt_or_eq.mp ha with hlt | heq
    · have := ih hlt
      have hne : n ≠ a := by omega
      simp [upd_other _ _ _ _ hne]
      omega
    · subst heq
      have : cnt a (upd p a false) = cnt a p :=
        cnt_congr (fun j hj => upd_other _ _ _ _ (by omega))
      simp [this, hp]

/-- Turning one `false` entry to `true` increases the count by exactly one. -/
theorem cnt_upd_true {n : Nat} {p : Nat → Bool} {a : Nat} (ha : a < n) (hp : p a = false) :
    cnt n (upd p a true) = cnt n p + 1 := by
  induction n with
  | zero => omega
  | succ n ih =>
    rw [cnt_succ, cnt_succ]
    rcases Nat.lt_succ_iff_lt_or_eq.mp ha with hlt | heq
    · have := ih hlt
      have hne : n ≠ a := by omega
      simp [upd_other _ _ _ _ hne]
      omega
    · subst heq
      have : cnt a (upd p a true) = cnt a p :=
        cnt_congr (fun j hj => upd_other _ _ _ _ (by omega))
      simp [this, hp]

/-- Setting an already-`true` entry to `true` changes nothing. -/
theorem cnt_upd_true_same {n : Nat} {p : Nat → Bool} {a : Nat} (hp : p a = true) :
    cnt n (upd p a true) = cnt n p :=
  cnt_congr (fun j _ => by by_cases h : j = a <;> simp [upd, h, hp])

theorem cnt_eq_n {n : Nat} {p : Nat → Bool} : cnt n p = n ↔ ∀ j, j < n → p j = true := by
  induction n with
  | zero => simp [cnt]
  | succ n ih =>
    rw [cnt_succ]
    have hle := cnt_le n p
    constructor
    · intro h j hj
      by_cases hp : p n = true
      · simp [hp] at h
        rcases Nat.lt_succ_iff_lt_or_eq.mp hj with hlt | heq
        · exact ih.mp h j hlt
        · subst heq; exact hp
      · simp [hp] at h; omega
    · intro h
      have h1 := ih.mpr (fun j hj => h j (Nat.lt_succ_of_lt hj))
      have h2 := h n (Nat.lt_succ_self n)
      simp [h1, h2]

end Rl4co

namespace Rl4co
variable {I S : Type}

/-- Mask-confined runs in which every state a step is taken from is *not done*
(the decoding loop stops stepping once all rows are done). -/
inductive RunND (e : Env I S) (i : I) : S → List Nat → S → Prop
  | nil (s : S) : RunND e i s [] s
  | cons {s s' : S} {a : Nat} {as : List Nat} :
      e.done i s = false → a < e.nAct i → e.mask i s a = true →
      RunND e i (e.step i s a) as s' → RunND e i s (a :: as) s'

theorem RunND.run {e : Env I S} {i : I} {s s' : S} {as : List Nat} (h : RunND e i s as s') :
    Run e i s as s' := by
  induction h with
  | nil s => exact Run.nil s
  | cons _ h1 h2 _ ih => exact Run.cons h1 h2 ih

/-- Step bound from a strictly decreasing measure (under a step-preserved invariant). -/
theorem steps_le_of_measure {e : Env I S} {i : I} (μ : S → Nat) (Inv : S → Prop)
    (hInv : ∀ s a, Inv s → a < e.nAct i → e.mask i s a = true → Inv (e.step i s a))
    (hdec : ∀ s a, Inv s → e.done i s = false → a < e.nAct i → e.mask i s a = true →
      μ (e.step i s a) < μ s)
    {s s' : S} {as : List Nat} (h : RunND e i s as s') (h0 : Inv s) : as.length + μ s' ≤ μ s := by
  induction h with
  | nil s => simp
  | cons hd ha hm _ ih =>
    have := ih (hInv _ _ h0 ha hm)
    have := hdec _ _ h0 hd ha hm
    simp only [List.length_cons]
    omega

end Rl4co
