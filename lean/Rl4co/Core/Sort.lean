/-
The "sort and compare with arange" idiom used by the routing checkers:
  sorted_pi = actions.sort(1)[0];  sorted_pi[:, -n:] == arange(1, n+1)  and  sorted_pi[:, :-n] == 0
`torch.sort` returns the sorted *values*, so stability is irrelevant and any sorting function models
it; we use core's `List.mergeSort`.  No Mathlib.
-/
namespace Rl4co

def sortNat (as : List Nat) : List Nat := as.mergeSort (fun a b => decide (a ≤ b))

/-- all zeros in front, then exactly `1..n` -/
def sortedTest (n : Nat) (as : List Nat) : Bool :=
  let sorted := sortNat as
  let k := as.length - n
  decide (n ≤ as.length) && (sorted.drop k == List.range' 1 n) && (sorted.take k).all (· == 0)

/-- TSP-style: exactly `0..n-1` -/
def sortedIsRange (n : Nat) (as : List Nat) : Bool := sortNat as == List.range n

end Rl4co
