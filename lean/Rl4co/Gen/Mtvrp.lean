/-
Generator model (C18): MTVRP (`mtvrp/generator.py`): vehicle capacity, linehaul/backhaul demands, time
windows, distance limit, `subsample_problems` with the `VARIANT_GENERATION_PRESETS` table and the
`_default_*` feature removals.  No Mathlib; rationals are core `Rat`.
-/
import Rl4co.Gen.Basic
import Rl4co.Generated.Params
namespace Rl4co.Gen.Mtvrp

open Rl4co.Gen

def fracToRat (f : Frac) : Rat := (f.1 : Rat) / (f.2 : Rat)

/-- `get_vehicle_capacity(num_loc)`: `30 + (1000//5 + (n−1000)//33.3 | n//5 | 0)` -/
def vehicleCapacity (n : Nat) : Nat :=
  if n > 1000 then 30 + (1000 / 5 + (10 * (n - 1000)) / 333)
  else if n > 20 then 30 + n / 5
  else 30

/-- `generate_demands`: integer demands `Uniform(min−1, max−1).int() + 1`, then exactly one of
(linehaul, backhaul) survives: `is_linehaul = rand > backhaul_ratio`. Returns `(linehaul, backhaul)`. -/
def demands (minD maxD minB maxB : Int) (ratio : Frac) (pl pb pr q : Nat) : Int × Int :=
  let l := affInt (minD - 1) (maxD - 1) 1 pl q
  let b := affInt (minB - 1) (maxB - 1) 1 pb q
  let isLine : Bool := decide ((pr : Int) * ratio.2 > ratio.1 * q)     -- pr/q > ratio
  (if isLine then l else 0, if isLine then 0 else b)

/-- `_default_backhaul(remove)`: `linehaul += backhaul; backhaul = 0` -/
def defaultBackhaul (remove : Bool) (lb : Int × Int) : Int × Int :=
  if remove then (lb.1 + lb.2, 0) else lb

/-! ### time windows (`generate_time_windows`), per customer, exact rational arithmetic -/

structure TwIn where
  a : Rat
  b : Rat
  c : Rat
  T : Rat        -- max_time
  d : Rat        -- d_0i
  v : Rat        -- speed
  us : Rat       -- draws in [0,1)
  ul : Rat
  ut : Rat

def service (i : TwIn) : Rat := i.a + (i.b - i.a) * i.us
def twLength (i : TwIn) : Rat := i.b + (i.c - i.b) * i.ul
def hMax (i : TwIn) : Rat := (i.T - service i - twLength i) / i.d * i.v - 1
def twStart (i : TwIn) : Rat := (1 + (hMax i - 1) * i.ut) * i.d / i.v
def twEnd (i : TwIn) : Rat := twStart i + twLength i

/-- `generate_distance_limit`: `assert (dist_to_depot * 2 < distance_limit).all()` -/
def distanceLimitOk (limit : Rat) (ds : List Rat) : Bool := ds.all (fun d => decide (d * 2 < limit))

/-! ### `subsample_problems` -/

/-- feature order of `keep_mask` columns as the code reads them: 0 = O, 1 = TW, 2 = L, 3 = B -/
structure Keep where
  o : Bool
  tw : Bool
  l : Bool
  b : Bool
  deriving DecidableEq, Repr

def Keep.ofList (ks : List Bool) : Keep :=
  { o := ks.getD 0 false, tw := ks.getD 1 false, l := ks.getD 2 false, b := ks.getD 3 false }

def specialPresets : List String := ["all", "cvrp", "single_feat", "single_feat_otw"]

/-- positional probabilities `list(self.variant_probs.values())` -/
def probsOf (row : List (String × Frac)) : List Frac := row.map (·.2)

/-- named preset (not in `specialPresets`): `indices = nonzero(variant_probs); keep_mask[:, indices] = True`
over 4 columns -/
def keepNamed (row : List (String × Frac)) : Keep :=
  Keep.ofList ((List.range 4).map (fun k => decide (((probsOf row).getD k (0, 1)).1 ≠ 0)))

/-- `use_combinations` branch (preset "all"): `keep_mask = rand(B,4) >= variant_probs` -/
def keepCombination (row : List (String × Frac)) (ps : List Nat) (q : Nat) : Keep :=
  Keep.ofList ((List.range 4).map (fun k =>
    let pr := (probsOf row).getD k (0, 1)
    decide ((ps.getD k 0 : Int) * pr.2 ≥ pr.1 * q)))

/-- Categorical branch ("all" without combinations, "cvrp", "single_feat", "single_feat_otw"):
weights `probs ++ [cvrp_prob]`, a sampled index `idx`, one-hot over `len` columns; for
`single_feat_otw` column 4 switches on O and TW. -/
def catWeights (row : List (String × Frac)) : List Frac := probsOf row ++ [((1 : Int), 2)]
def catSupport (row : List (String × Frac)) : List Nat :=
  (List.range (catWeights row).length).filter (fun k => decide (((catWeights row).getD k (0, 1)).1 > 0))
def keepCategorical (preset : String) (idx : Nat) : Keep :=
  let onehot := (List.range 6).map (fun k => decide (k = idx))
  if preset = "single_feat_otw" then
    let otw := onehot.getD 4 false
    { o := onehot.getD 0 false || otw, tw := onehot.getD 1 false || otw, l := onehot.getD 2 false, b := onehot.getD 3 false }
  else Keep.ofList onehot

/-- the variant name the table uses for a feature set: `[o]vrp[b][l][tw]` (`cvrp` when empty) -/
def variantName (k : Keep) : String :=
  if !k.o && !k.tw && !k.l && !k.b then "cvrp"
  else (if k.o then "o" else "") ++ "vrp" ++ (if k.b then "b" else "") ++ (if k.l then "l" else "")
        ++ (if k.tw then "tw" else "")

/-- per-instance feature view after the `_default_*` calls.  `none` = `inf`. -/
structure Features where
  openRoute : Bool
  twFinite : Bool
  limitFinite : Bool
  backhaulAllowed : Bool
  deriving DecidableEq, Repr

/-- `_default_open / _default_time_window / _default_distance_limit / _default_backhaul` with
`remove = ~keep_mask[:, k]`, starting from the all-features instance (`open_route = True`, finite windows
and limit, backhauls present) -/
def applyKeep (k : Keep) : Features :=
  { openRoute := k.o, twFinite := k.tw, limitFinite := k.l, backhaulAllowed := k.b }

end Rl4co.Gen.Mtvrp
