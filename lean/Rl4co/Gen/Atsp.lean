/-
Generator model (C18): ATSP cost matrices, `atsp/generator.py:ATSPGenerator._generate` (and the numpy twin
`data/generate_data.py:generate_atsp_data`).  No Mathlib.

  dms = sample · (max_dist − min_dist) + min_dist ;  dms[i,i] = 0
  for i in range(n): dms = minimum(dms, dms[:, [i]] + dms[[i], :])

The matrix is a total function `Nat → Nat → Int` (entries in ticks).  One loop iteration is a simultaneous
update of all entries from the *old* matrix.
-/
import Rl4co.Gen.Basic
namespace Rl4co.Gen.Atsp

abbrev Mat := Nat → Nat → Int

/-- `dms[..., arange(n), arange(n)] = 0` -/
def zeroDiag (D : Mat) : Mat := fun a b => if a = b then 0 else D a b

/-- `torch.minimum(dms, dms[:, [i]] + dms[[i], :])` -/
def relax (D : Mat) (i : Nat) : Mat := fun a b => min (D a b) (D a i + D i b)

/-- `for i in range(k)` -/
def closure (D : Mat) : Nat → Mat
  | 0 => D
  | k + 1 => relax (closure D k) k

/-- the generator: raw entries (already scaled to `[min_dist, max_dist)`) → output -/
def gen (raw : Mat) (n : Nat) (tmat : Bool) : Mat :=
  if tmat then closure (zeroDiag raw) n else zeroDiag raw

/-- executable list version for the driver: row-major `n × n` -/
def genList (n : Nat) (xs : List Int) (tmat : Bool) : List Int :=
  let D := gen (fun a b => xs.getD (a * n + b) 0) n tmat
  (List.range n).flatMap (fun a => (List.range n).map (fun b => D a b))

/-- memoising variant (the function-based `closure` recomputes exponentially): iterate on lists -/
def relaxList (n : Nat) (xs : List Int) (i : Nat) : List Int :=
  (List.range n).flatMap (fun a => (List.range n).map (fun b =>
    min (xs.getD (a * n + b) 0) (xs.getD (a * n + i) 0 + xs.getD (i * n + b) 0)))

def genListFast (n : Nat) (xs : List Int) (tmat : Bool) : List Int :=
  let z := (List.range n).flatMap (fun a => (List.range n).map (fun b => if a = b then 0 else xs.getD (a * n + b) 0))
  if tmat then (List.range n).foldl (relaxList n) z else z

/-- triangle inequality on the first `n` indices -/
def triangleOk (n : Nat) (xs : List Int) : Bool :=
  (List.range n).all fun a => (List.range n).all fun b => (List.range n).all fun c =>
    decide (xs.getD (a * n + c) 0 ≤ xs.getD (a * n + b) 0 + xs.getD (b * n + c) 0)

end Rl4co.Gen.Atsp
