/-
Generator models (C18): FJSP and JSSP (`scheduling/fjsp/generator.py`, `scheduling/jssp/generator.py`).
No Mathlib.  Integer draws (`torch.randint`) and the shuffling permutations (`argsort` of a `rand`) are
inputs; the model is the index construction, the eligibility rows and the processing-time formula.
-/
import Rl4co.Gen.Basic
import Rl4co.Generated.Params
namespace Rl4co.Gen.Sched

open Rl4co.Gen

/-- `end_op_per_job = n_ope_per_job.cumsum(1) − 1` (as `Int`: a job with 0 operations before any other
operation gives −1) -/
def endOps (nOps : List Nat) : List Int := (cumsum nOps).map (fun (c : Nat) => (c : Int) - 1)

/-- `start_op_per_job = cat(0, end_op_per_job[:-1] + 1)` -/
def startOps (nOps : List Nat) : List Int := (0 : Int) :: ((endOps nOps).dropLast.map (· + 1))

/-- `pad_mask = arange(n_ops_max) >= n_ops_batch` -/
def padMask (nOpsMax : Nat) (nOps : List Nat) : List Bool :=
  (List.range nOpsMax).map (fun k => decide (k ≥ nOps.sum))

/-- FJSP eligibility row of one operation: `(arange(1, M+1) <= n_eligible).gather(idx)`:
entry `m` of the shuffled row is `1` iff `idx[m] + 1 ≤ nElig` -/
def eligRow (M : Nat) (nElig : Nat) (idx : List Nat) : List Bool :=
  (List.range M).map (fun m => decide (idx.getD m 0 + 1 ≤ nElig))

/-- `round()` of `mean · num / den` (half to even never arises for 0.8/1.2 on integers):
nearest integer = `⌊(2·mean·num + den) / (2·den)⌋` -/
def roundFrac (mean : Int) (num den : Nat) : Int := (2 * mean * num + den) / (2 * den : Int)

/-- FJSP `same_mean_per_op`: `low = max(min_pt, round(0.8·mean))`, `high = min(max_pt, round(1.2·mean)) + 1`,
`proc = raw % (high − low) + low` (python/torch `%` of a non-negative `raw`).
The spread `0.2 = sn/sd` is extracted from the source (`Params.genFjspSpread`): factors `(sd − sn)/sd` and `(sd + sn)/sd`. -/
def spreadNum : Nat := Params.genFjspSpread.1.toNat
def spreadDen : Nat := Params.genFjspSpread.2
def fjspLow (minPt mean : Int) : Int := max minPt (roundFrac mean (spreadDen - spreadNum) spreadDen)
def fjspHigh (maxPt mean : Int) : Int := min maxPt (roundFrac mean (spreadDen + spreadNum) spreadDen) + 1
def fjspProc (minPt maxPt mean : Int) (raw : Nat) : Int :=
  (raw : Int) % (fjspHigh maxPt mean - fjspLow minPt mean) + fjspLow minPt mean

/-- one FJSP operation column: processing time on machine `m` (`proc_times * ma_ops_edges`) -/
def fjspColumn (M : Nat) (minPt maxPt : Int) (nElig : Nat) (idx : List Nat) (mean : Int) (raws : List Nat) : List Int :=
  (List.range M).map (fun m =>
    if (eligRow M nElig idx).getD m false then fjspProc minPt maxPt mean (raws.getD m 0) else 0)

/-- FJSP without `same_mean_per_op`: `randint(min_pt, max_pt + 1)` times the eligibility -/
def fjspColumnPlain (M : Nat) (nElig : Nat) (idx : List Nat) (times : List Int) : List Int :=
  (List.range M).map (fun m => if (eligRow M nElig idx).getD m false then times.getD m 0 else 0)

/-- JSSP: `one_hot(ops_machine_ids)` times `randint(min_pt, max_pt + 1)` -/
def jsspColumn (M : Nat) (machine : Nat) (times : List Int) : List Int :=
  (List.range M).map (fun m => if m = machine then times.getD m 0 else 0)

/-- number of machines with positive time: `(proc_times > 0).sum(1)` -/
def numEligible (col : List Int) : Nat := (col.filter (fun t => decide (t > 0))).length

/-- well-formedness an FJSP/JSSP environment needs of an instance column-wise: every real (non-padded)
operation can run on at least one machine with positive time -/
def ColumnsOk (cols : List (List Int)) (pad : List Bool) : Bool :=
  (List.range cols.length).all (fun k => pad.getD k true || decide (numEligible (cols.getD k []) ≥ 1))

end Rl4co.Gen.Sched
