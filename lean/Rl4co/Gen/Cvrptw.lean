/-
Generator model (C18): CVRPTW time windows, `cvrptw/generator.py:CVRPTWGenerator._generate` steps 1–8,
per customer.  No Mathlib.

Units: one time unit = `S` ticks (`S > 0`).  `d` = distance depot→customer in ticks (the coordinate→distance
arithmetic is glue), `T` = `max_time` in ticks, `dur` = service duration in ticks (the code uses zeros),
draws `u₁ = p₁/q`, `u₂ = p₂/q`.  Window bounds are whole time units (`.int()`), returned as `Int`.
-/
import Rl4co.Gen.Basic
import Rl4co.Generated.Params
namespace Rl4co.Gen.Cvrptw

open Rl4co.Gen

structure In where
  S : Nat        -- ticks per time unit
  T : Int        -- max_time (ticks)
  d : Int        -- dist depot→node (ticks)
  dur : Int      -- durations (ticks); zeros in the code
  p1 : Nat
  p2 : Nat
  q : Nat

/-- step 2: `upper_bound = max_time − dist − durations` (ticks) -/
def upper (i : In) : Int := i.T - i.d - i.dur

/-- step 4: `(dist + (upper_bound − dist) · ts).int()` in whole units -/
def scaled (i : In) (p : Nat) : Int :=
  truncDiv (i.d * i.q + (upper i - i.d) * p) (i.S * i.q)

/-- `dist.int()`, `floor(upper_bound).int()`, `ceil(min + dur).int()` in whole units -/
def distInt (i : In) : Int := truncDiv i.d i.S
def upperFloor (i : In) : Int := (upper i) / (i.S : Int)
def ceilUnits (x : Int) (S : Nat) : Int := -((-x) / (S : Int))

/-- steps 4–7 for a customer column: `(min_time, max_time)` in whole units -/
def window (i : In) : Int × Int :=
  let a := scaled i i.p1
  let b := scaled i i.p2
  -- 5. order
  let mn := min a b
  let mx := max a b
  -- 7. repair equal bounds
  -- the two integer offsets (`− 1`, `+ 1`) are extracted from the source: `Params.genCvrptwRepair`
  if mn = mx then
    let mn' := max (distInt i) (mn + Params.genCvrptwRepair.1)
    if mn' = mx then
      let mx' := min (upperFloor i) (max (ceilUnits (mn' * i.S + i.dur) i.S) (mx + Params.genCvrptwRepair.2))
      (mn', mx')
    else (mn', mx)
  else (mn, mx)

/-- step 6: depot column -/
def depotWindow (T : Int) (S : Nat) : Int × Int := (0, truncDiv T S)

/-- the generator's final `assert torch.all(min_times < max_times)` for this customer -/
def assertOk (i : In) : Bool := decide ((window i).1 < (window i).2)

/-- what C18 asks of a window (whole units `lo hi`): ordered, reachable from the depot (arriving straight
from the depot is not after the end), and leaving time to return (`hi + dur + dist ≤ max_time`) -/
def WindowOk (i : In) (w : Int × Int) : Prop :=
  0 ≤ w.1 ∧ w.1 < w.2 ∧ i.d ≤ w.2 * i.S ∧ w.2 * i.S + i.dur + i.d ≤ i.T

instance (i : In) (w : Int × Int) : Decidable (WindowOk i w) := by unfold WindowOk; infer_instance

end Rl4co.Gen.Cvrptw
