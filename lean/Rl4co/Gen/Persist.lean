/-
Persistence models (C19).  No Mathlib.

  * FJSP text files: `scheduling/fjsp/parser.py` `write_one` / `read` / `parse_job_line` on token lists
    (a file is a list of lines, a line a list of naturals; `file2lines` tokenisation, the third metadata
    token (a decimal "flexibility", read back through `int(float(·))` and then ignored) and the file system
    are glue)
  * JSSP text files: `scheduling/jssp/parser.py` `read` / `parse_job_line`; rl4co ships no JSSP writer, the
    writer here is the format the parser's docstring describes (pairs `<machine> <time>`, machines 1-based)
  * `CVRPEnv.load_data` / `MTVRPEnv.load_data(scale=True)`: demand normalisation
  * `RL4COEnvBase.__getstate__/__setstate__` as record update
-/
import Rl4co.Gen.Basic
import Rl4co.Generated.Params
namespace Rl4co.Gen.Persist

open Rl4co.Gen

/-- a scheduling instance as the writer sees it: `proc m op` = processing time of operation `op` on machine
`m` (0 = not eligible), operations numbered job after job -/
structure Inst where
  numMas : Nat
  nOps : List Nat
  proc : Nat → Nat → Nat

def Inst.total (i : Inst) : Nat := i.nOps.sum

/-! ### FJSP writer (`write_one`) -/

/-- `eligible_ma = proc_times[:, op].nonzero()`, then `[len] ++ [ma+1, dur]*` -/
def eligible (M : Nat) (proc : Nat → Nat → Nat) (op : Nat) : List Nat :=
  (List.range M).filter (fun m => decide (proc m op > 0))

def encodeOp (M : Nat) (proc : Nat → Nat → Nat) (op : Nat) : List Nat :=
  (eligible M proc op).length :: (eligible M proc op).flatMap (fun m => [m + 1, proc m op])

/-- one job line: number of operations, then the operations `start, start+1, …` -/
def encodeJob (M : Nat) (proc : Nat → Nat → Nat) (start n : Nat) : List Nat :=
  n :: (List.range n).flatMap (fun k => encodeOp M proc (start + k))

def encodeJobs (M : Nat) (proc : Nat → Nat → Nat) : Nat → List Nat → List (List Nat)
  | _, [] => []
  | start, n :: ns => encodeJob M proc start n :: encodeJobs M proc (start + n) ns

/-- the whole file; `flex` is the integer part of the flexibility token -/
def fjspWrite (i : Inst) (flex : Nat) : List (List Nat) :=
  [i.nOps.length, i.numMas, flex] :: encodeJobs i.numMas i.proc 0 i.nOps

/-! ### FJSP reader (`parse_job_line`, `read`) -/

/-- `zip(line[idx+1 : idx+1+2k : 2], line[idx+2 : idx+2+2k : 2])` and the rest of the line -/
def takePairs : Nat → List Nat → List (Nat × Nat) × List Nat
  | 0, ts => ([], ts)
  | k + 1, m :: d :: ts => let r := takePairs k ts; ((m, d) :: r.1, r.2)
  | _ + 1, _ => ([], [])

/-- `for _ in range(num_operations)`; `none` = `IndexError` on `line[idx]` -/
def parseOps : Nat → List Nat → Option (List (List (Nat × Nat)))
  | 0, _ => some []
  | _ + 1, [] => none
  | k + 1, c :: ts =>
    let r := takePairs c ts
    (parseOps k r.2).map (fun rest => r.1 :: rest)

def parseJobLine : List Nat → Option (List (List (Nat × Nat)))
  | [] => none
  | n :: ts => parseOps n ts

/-- `proc_times[ma - 1, op_cnt] = dur`: row index with Python's negative-index wrap for `ma = 0`;
`none` = `IndexError` -/
def rowOf (M ma : Nat) : Option Nat :=
  if ma = 0 then (if M = 0 then none else some (M - 1))
  else if ma ≤ M then some (ma - 1) else none

def upd2 (f : Nat → Nat → Nat) (m op v : Nat) : Nat → Nat → Nat :=
  fun m' op' => if m' = m ∧ op' = op then v else f m' op'

/-- the assignments of one operation -/
def storeOp (M : Nat) (op : Nat) : List (Nat × Nat) → (Nat → Nat → Nat) → Option (Nat → Nat → Nat)
  | [], f => some f
  | (ma, dur) :: ps, f =>
    match rowOf M ma with
    | none => none
    | some r => storeOp M op ps (upd2 f r op dur)

/-- all operations in file order, `op_cnt` counting up -/
def storeOps (M : Nat) : Nat → List (List (Nat × Nat)) → (Nat → Nat → Nat) → Option (Nat → Nat → Nat)
  | _, [], f => some f
  | cnt, o :: os, f =>
    match storeOp M cnt o f with
    | none => none
    | some f' => storeOps M (cnt + 1) os f'

structure ReadOut where
  numJobs : Nat
  numMas : Nat
  nOps : List Nat
  proc : Nat → Nat → Nat

/-- `read(loc)` on the token lines (padding beyond `total` is zeros by construction) -/
def fjspRead (lines : List (List Nat)) : Option ReadOut :=
  match lines with
  | [] => none
  | hdr :: jobLines =>
    match hdr with
    | nj :: nm :: _ =>
      if jobLines.isEmpty then none else     -- `int(n_ope_per_job.max())` of an empty tensor raises
      match jobLines.mapM parseJobLine with
      | none => none
      | some jobs =>
        match storeOps nm 0 jobs.flatten (fun _ _ => 0) with
        | none => none
        | some proc => some { numJobs := nj, numMas := nm, nOps := jobs.map List.length, proc := proc }
    | _ => none

/-! ### JSSP format -/

/-- JSSP instance view: every operation has exactly one machine `ma op` with time `dur op` -/
structure JInst where
  numMas : Nat
  nOps : List Nat
  ma : Nat → Nat
  dur : Nat → Nat

def jEncodeJob (i : JInst) (start n : Nat) : List Nat :=
  (List.range n).flatMap (fun k => [i.ma (start + k) + 1, i.dur (start + k)])

def jEncodeJobs (i : JInst) : Nat → List Nat → List (List Nat)
  | _, [] => []
  | start, n :: ns => jEncodeJob i start n :: jEncodeJobs i (start + n) ns

def jsspWrite (i : JInst) : List (List Nat) :=
  [i.nOps.length, i.numMas] :: jEncodeJobs i 0 i.nOps

/-- `while i < len(line): machine = line[i]; duration = line[i+1]`; `none` = `IndexError` (odd length) -/
def jParseJobLine : List Nat → Option (List (Nat × Nat))
  | [] => some []
  | [_] => none
  | m :: d :: ts => (jParseJobLine ts).map (fun r => (m, d) :: r)

def jsspRead (lines : List (List Nat)) : Option ReadOut :=
  match lines with
  | [] => none
  | hdr :: jobLines =>
    match hdr with
    | nj :: nm :: _ =>
      if jobLines.isEmpty then none else
      match jobLines.mapM jParseJobLine with
      | none => none
      | some jobs =>
        match storeOps nm 0 (jobs.flatten.map (fun p => [p])) (fun _ _ => 0) with
        | none => none
        | some proc => some { numJobs := nj, numMas := nm, nOps := jobs.map List.length, proc := proc }
    | _ => none

/-- the dense matrix of a JSSP instance -/
def JInst.proc (i : JInst) : Nat → Nat → Nat := fun m op => if m = i.ma op then i.dur op else 0

/-! ### `load_data` normalisation -/

/-- `CVRPEnv.load_data`: `demand / capacity[:, None]` per row, as fractions over `cap` -/
def loadDemand (demand : List Int) (cap : Frac) : List Frac :=
  demand.map (fun d => (d * cap.2, cap.1.toNat))

/-- the value a CVRP row has after `generator → save → CVRPEnv.load_data`: the generator already divided by
the capacity, the loader divides again -/
def loadAfterGenerator (demandInt : Int) (cap : Frac) : Rat :=
  ((demandInt : Rat) / ((cap.1 : Rat) / (cap.2 : Rat))) / ((cap.1 : Rat) / (cap.2 : Rat))

def generatorDemand (demandInt : Int) (cap : Frac) : Rat := (demandInt : Rat) / ((cap.1 : Rat) / (cap.2 : Rat))

/-! ### `__getstate__` / `__setstate__` -/

/-- the environment object: its attribute dictionary apart from `rng`, and the generator state -/
structure EnvObj (V R : Type) where
  dict : List (String × V)
  rng : R

/-- pickled state: `state = self.__dict__.copy(); state["rng"] = state["rng"].get_state()` -/
structure Pickled (V R : Type) where
  dict : List (String × V)
  rngState : R

def getstate {V R : Type} (e : EnvObj V R) : Pickled V R := { dict := e.dict, rngState := e.rng }

/-- `self.__dict__.update(state); self.rng = torch.manual_seed(0); self.rng.set_state(state["rng"])`
on a fresh object (`__dict__` empty, as `pickle`/`deepcopy` create it): `update` on an empty dict is the
dict itself; the freshly seeded generator's state is overwritten by `set_state`. -/
def setstate {V R : Type} (seed0 : R) (setState : R → R → R) (s : Pickled V R) : EnvObj V R :=
  { dict := s.dict, rng := setState seed0 s.rngState }


/-! ### dataset files with one capacity per row (`generate_vrp_data` chunks concatenated, `CVRPEnv.load_data`) -/

/-- `td_load["demand"] / td_load["capacity"][:, None]` on a whole file: every row is divided by its own capacity.
`perRow = false` is the batch-global shortcut `capacity[0]` (a recognised wrong form, see `Params.genLoadDataPerRow`). -/
def loadRowsWith (perRow : Bool) (rows : List (List Int × Frac)) : List (List Frac) :=
  rows.map (fun r => loadDemand r.1 (if perRow then r.2 else (rows.headD r).2))

/-- the loader as coded: the divisor form is extracted from the source -/
def loadRows (rows : List (List Int × Frac)) : List (List Frac) := loadRowsWith Params.genLoadDataPerRow rows


/-! ### the dataset writer `generate_vrp_data(dataset_size, vrp_size, capacities=None)` as a function of its arguments
(`data/generate_data.py`): the capacity it writes, and what a *sequence* of calls in one process sees -/

abbrev CapTable := List (Nat × Frac)

/-- `for k, v in capacities.items(): if k in CAPACITIES: CAPACITIES[k] = v` -/
def updTable (tbl : CapTable) (ov : CapTable) : CapTable := tbl.map (fun e => (e.1, (ov.lookup e.1).getD e.2))

/-- one call: the capacity written (`CAPACITIES[vrp_size]` after the override loop; `none` = `KeyError` for a size that is not
a table key) and the table the *next* call will see — the same table when the updated table is a local of the call
(`localTbl`), the updated one when it is shared state -/
def vrpCall (localTbl : Bool) (tbl : CapTable) (ov : CapTable) (n : Nat) : Option Frac × CapTable :=
  let t' := updTable tbl ov
  (t'.lookup n, if localTbl then tbl else t')

/-- a history of calls `(capacities override, vrp_size)` in one process -/
def vrpCallsWith (localTbl : Bool) : CapTable → List (CapTable × Nat) → List (Option Frac)
  | _, [] => []
  | tbl, (ov, n) :: cs => let r := vrpCall localTbl tbl ov n; r.1 :: vrpCallsWith localTbl r.2 cs

/-- the writer as coded: whether the table is local is extracted from the source -/
def vrpCalls (calls : List (CapTable × Nat)) : List (Option Frac) :=
  vrpCallsWith Params.genDataVrpTableLocal Params.genDataVrpCapacities calls


/-! ### warm start from a checkpoint: the key mapping of `PolyNet(base_model_checkpoint_path=…)` on key strings -/

/-- `k.replace(pat, "", 1)`: remove the FIRST occurrence of `pat` -/
def stripFirst (pat : List Char) : List Char → List Char
  | [] => []
  | c :: cs => if pat.isPrefixOf (c :: cs) then (c :: cs).drop pat.length else c :: stripFirst pat cs

/-- `k.split(pat, 1)[-1]`: everything after the first occurrence of `pat` (the whole key when there is none) — the recognised
wrong form: it also discards whatever precedes the occurrence -/
def afterFirst (pat : List Char) (k : List Char) : List Char :=
  let rec go : List Char → Option (List Char)
    | [] => none
    | c :: cs => if pat.isPrefixOf (c :: cs) then some ((c :: cs).drop pat.length) else go cs
  (go k).getD k

def policyPat : List Char := "policy.".toList

/-- the mapping as coded (`replaceFirst` is extracted from the source) -/
def mapKeyWith (replaceFirst : Bool) (k : String) : String :=
  String.ofList (if replaceFirst then stripFirst policyPat k.toList else afterFirst policyPat k.toList)

def mapKey (k : String) : String := mapKeyWith Params.genPolynetKeyMapReplaceFirst k

/-- `{map(k): v for k, v in state_dict.items()}` followed by `load_state_dict(strict=False)`: for a policy key, the
checkpoint key whose tensor ends up there (the LAST one in checkpoint order that maps onto it) -/
def sourceOf (ckptKeys : List String) (target : String) : Option String :=
  (ckptKeys.filter (fun k => mapKey k == target)).getLast?

/-! ### the npz container at the level of a key → array map with dtype / shape tags
(`save_tensordict_to_npz`, `load_npz_to_tensordict`).  Array contents are abstract (`α`); what numpy is trusted to do is
stated once, as a `Codec`. -/

structure Arr (α : Type) where
  dtype : String
  shape : List Nat
  data : List α

/-- a `TensorDict`: ordered entries and the batch size (`batch_size=[B]`) -/
structure TDict (α : Type) where
  entries : List (String × Arr α)
  batch : Nat

/-- TRUSTED: `np.savez(**{k: v.numpy()})` followed by `np.load` gives, for every stored name, an array with the same
dtype, shape and contents, and `dict(np.load(f))` lists the names in the order they were written -/
structure Codec (α F : Type) where
  enc : Arr α → F
  dec : F → Arr α
  dec_enc : ∀ a, dec (enc a) = a

/-- `x_dict = {k: v.numpy() for k, v in tensordict.items()}; np.savez(filename, **x_dict)` -/
def npzSave {α F : Type} (c : Codec α F) (td : TDict α) : List (String × F) :=
  td.entries.map (fun e => (e.1, c.enc e.2))

/-- `x_dict = dict(np.load(f)); batch_size = x_dict[first key].shape[0]; TensorDict(x_dict, batch_size=batch_size)`:
`none` = the `IndexError` of an empty file / a 0-dimensional first array, or TensorDict's refusal of an entry whose
leading dimension is not the batch size -/
def npzLoad {α F : Type} (c : Codec α F) (file : List (String × F)) : Option (TDict α) :=
  match file with
  | [] => none
  | (_, f0) :: _ =>
    match (c.dec f0).shape with
    | [] => none
    | b :: _ =>
      let entries := file.map (fun e => (e.1, c.dec e.2))
      if entries.all (fun e => e.2.shape.head? == some b) then some { entries := entries, batch := b } else none

/-- shape-level view used by the driver: batch size the loader derives from a list of shapes (first key's leading dimension) -/
def npzBatch (shapes : List (List Nat)) : Option Nat :=
  match shapes with
  | [] => none
  | [] :: _ => none
  | (b :: _) :: _ => if shapes.all (fun sh => sh.head? == some b) then some b else none

/-! ### `__getstate__` / `__setstate__`, parametric in the statements found in the source -/

/-- `copies`: `state = self.__dict__.copy()` — the whole attribute dictionary is the state -/
def getstateP {V R : Type} (copies : Bool) (e : EnvObj V R) : Pickled V R :=
  { dict := if copies then e.dict else [], rngState := e.rng }

/-- `updates`: `self.__dict__.update(state)`; `restores`: `self.rng.set_state(state["rng"])` -/
def setstateP {V R : Type} (updates restores : Bool) (seed0 : R) (setState : R → R → R) (s : Pickled V R) : EnvObj V R :=
  { dict := if updates then s.dict else [], rng := if restores then setState seed0 s.rngState else seed0 }

end Rl4co.Gen.Persist
