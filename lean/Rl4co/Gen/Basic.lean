/-
Generator models (C18), shared pieces.  No Mathlib.

A generator is modelled as the *deterministic post-processing* of its raw random draws.  A raw uniform
draw `u ∈ [0,1)` is a pair of naturals `p q` with `u = p / q` (the harness uses dyadic `q`); integer
draws (`torch.randint`) and permutations (`argsort` of a `rand`) are inputs as they are.  Quantities are
`Int` (ticks of the caller's choosing); a value "over q" means the true value times `q`.

  * `affNum`      `low + u·(high − low)`   (torch.distributions.Uniform.sample, Tensor.uniform_)
  * `truncDiv`    `.int()`  (truncation toward zero)
  * `tblLookup`   `TABLE.get(n)` followed by the nearest-key fallback
                  `min(TABLE.keys(), key=lambda x: abs(x - n))` (first minimiser in table order)
-/
namespace Rl4co.Gen

/-- exact fraction `num / den` (`den > 0`), the way table entries and defaults are extracted -/
abbrev Frac := Int × Nat

/-- `.int()` / `astype(int)`: truncation toward zero of `num / den` -/
def truncDiv (num : Int) (den : Nat) : Int := Int.tdiv num den

/-- numerator over `q` of `lo + u·(hi − lo)` with `u = p / q`  (rl4co/envs/common/utils.py:get_sampler →
`Uniform(low, high).sample` = `low + rand·(high − low)`; `Tensor.uniform_(lo, hi)`) -/
def affNum (lo hi : Int) (p q : Nat) : Int := lo * q + (p : Int) * (hi - lo)

/-- `(sampler.sample().int() + add)` with `sampler = Uniform(lo, hi)`: an integer -/
def affInt (lo hi : Int) (add : Int) (p q : Nat) : Int := truncDiv (affNum lo hi p q) q + add

def absDiff (a b : Nat) : Nat := if a ≤ b then b - a else a - b

/-- `min(keys, key=lambda x: abs(x - n))`: Python's `min` keeps the *first* minimiser -/
def nearest {α : Type} (n : Nat) : List (Nat × α) → Option (Nat × α)
  | [] => none
  | e :: es =>
    match nearest n es with
    | none => some e
    | some b => if absDiff e.1 n ≤ absDiff b.1 n then some e else some b

/-- `TABLE.get(n, None)`, else the value at the nearest key
(cvrp/generator.py, op/generator.py, pctsp/generator.py `__init__`) -/
def tblLookup {α : Type} (tbl : List (Nat × α)) (n : Nat) : Option α :=
  match tbl.lookup n with
  | some v => some v
  | none => (nearest n tbl).map (·.2)

/-- `a/b ≤ c/d` on fractions with positive denominators -/
def Frac.le (x y : Frac) : Bool := decide (x.1 * y.2 ≤ y.1 * x.2)
def Frac.lt (x y : Frac) : Bool := decide (x.1 * y.2 < y.1 * x.2)
def Frac.isInt (x : Frac) : Bool := x.2 == 1

/-- row-major list access with default 0 -/
def at2 (m : Nat) (xs : List Int) (a b : Nat) : Int := xs.getD (a * m + b) 0

/-- prefix sums `cumsum` of a list of naturals -/
def cumsum : List Nat → List Nat
  | [] => []
  | x :: xs => x :: (cumsum xs).map (· + x)

end Rl4co.Gen
