/-
Generator models (C18): routing generators without time windows, and the graph / scheduling generators
whose post-processing is a range map.  No Mathlib.  Each definition names the Python it mirrors.
-/
import Rl4co.Gen.Basic
import Rl4co.Generated.Params
namespace Rl4co.Gen

/-! ### coordinates (every routing generator: `self.loc_sampler.sample(...)`) -/

/-- coordinate over `q`: `min_loc + u·(max_loc − min_loc)` -/
def coordNum (minLoc maxLoc : Int) (p q : Nat) : Int := affNum minLoc maxLoc p q

/-- `get_sampler(.., "center", low, high)` = `Uniform((high + low)/2, (high + low)/2)`: twice the constant value -/
def centerTwice (lo hi : Int) : Int := if Params.genCenterIsMid then hi + lo else hi - lo   -- the form is extracted from the source

/-! ### CVRP (cvrp/generator.py) -/

/-- `demand = (Uniform(min_demand − 1, max_demand − 1).sample().int() + 1)`; the three offsets are extracted
(`Params.genCvrpDemandShape`) -/
def cvrpDemand (minD maxD : Int) (p q : Nat) : Int :=
  let s := Params.genCvrpDemandShape
  affInt (minD + s.1) (maxD + s.2.1) s.2.2 p q

/-- `capacity` argument if given, else `CAPACITIES.get(num_loc)`, else nearest key -/
def cvrpCapacity (override : Option Frac) (numLoc : Nat) : Option Frac :=
  match override with
  | some c => some c
  | none => tblLookup Params.genCvrpCapacities numLoc

/-- the emitted `demand / capacity ≤ 1`, as `demand · den ≤ num` -/
def demandFits (demand : Int) (cap : Frac) : Bool := decide (demand * cap.2 ≤ cap.1)

/-! ### OP (op/generator.py) -/

inductive PrizeType | const | unif | dist
  deriving DecidableEq, Repr

/-- OP prize in hundredths (the code divides by 100).
`const`: `torch.ones`; `unif`: `(1 + randint(0, 100)) / 100`, `x` the integer draw;
`dist`: `(1 + (d / dmax · 99).int()) / 100`, `x = d` and `dmax` in the same unit. -/
def opPrize100 (t : PrizeType) (x dmax : Int) : Int :=
  match t with
  | .const => 100
  | .unif => 1 + x
  | .dist => 1 + Int.tdiv (x * 99) dmax

def opMaxLength (override : Option Frac) (numLoc : Nat) : Option Frac :=
  match override with
  | some c => some c
  | none => tblLookup Params.genOpMaxLengths numLoc

/-! ### PCTSP (pctsp/generator.py) -/

/-- `max_penalty = MAX_LENGTHS[n] (or nearest / kwarg) · penalty_factor / num_loc` as a fraction -/
def pctspMaxPenalty (override : Option Frac) (numLoc : Nat) (pf : Frac) : Option Frac :=
  let base := match override with
    | some c => some c
    | none => tblLookup Params.genPctspMaxLengths numLoc
  base.map (fun b => (b.1 * pf.1, b.2 * pf.2 * numLoc))

/-- penalty over `q·den`: `u · max_penalty` -/
def pctspPenaltyNum (mp : Frac) (p : Nat) : Int := (p : Int) * mp.1
/-- deterministic prize over `q·n`: `u · 4 / n` -/
def pctspDetPrizeNum (p : Nat) : Int := 4 * (p : Int)
/-- stochastic prize over `q₂·q·n`: `(u₂ · 2) · det` -/
def pctspStochPrizeNum (p2 p : Nat) : Int := 2 * (p2 : Int) * pctspDetPrizeNum p

/-! ### PDP / MDCPDP: even number of locations, pickup `i` ↔ delivery `i + n/2` -/

/-- `if num_loc % 2 != 0: self.num_loc += 1` -/
def pdpNumLoc (n : Nat) : Nat := if n % 2 != 0 then n + 1 else n

/-- delivery paired with pickup `i` (customers numbered `1..n`, pickups `1..n/2`) -/
def pdpDelivery (n i : Nat) : Nat := i + n / 2

/-! ### integer draws with a range: `torch.randint(lo, hi_exclusive)` is an input `r`; generators differ in
whether they pass `max + 1` (inclusive upper bound) or `max` (exclusive) -/

/-- mTSP `torch.randint(min_num_agents, max_num_agents + 1)`; MDCPDP capacity likewise;
FJSP `n_ope_per_job`, `n_eligible_per_ops`; JSSP times -/
def randintInclusiveOk (lo hi r : Int) : Bool := decide (lo ≤ r ∧ r ≤ hi)
/-- FFSP `torch.randint(low=min_time, high=max_time)`; FJSP `proc_time_means` -/
def randintExclusiveOk (lo hi r : Int) : Bool := decide (lo ≤ r ∧ r < hi)

/-! ### SVRP (svrp/generator.py): technicians sorted ascending, `skills = max(techs) · u` -/

/-- tech level over `q`: `min_skill + u·(max_skill − min_skill)` -/
def svrpTechNum (minS maxS : Int) (p q : Nat) : Int := affNum minS maxS p q

def listMax : List Int → Int
  | [] => 0
  | [x] => x
  | x :: xs => max x (listMax xs)

/-- customer skill over `q·q₂`: `max(techs) · u₂` -/
def svrpSkillNum (techMaxNum : Int) (p2 : Nat) : Int := techMaxNum * p2

/-! ### MCP (graph/mcp/generator.py) -/

/-- `clamp(floor(Uniform(min, max+1).sample()), min, max)` -/
def mcpClampFloor (mn mx : Int) (p q : Nat) : Int :=
  let x := (affNum mn (mx + 1) p q) / (q : Int)   -- floor (Int `/` rounds down for a positive divisor)
  max mn (min x mx)

/-- `remove_repeat` on one row: sort, zero every element equal to its sorted predecessor, put the results
back at the original positions.  With a stable sort this keeps, among equal values, the first
occurrence; positions of equal values are interchangeable as far as the *multiset per row* is
concerned, which is what the environment reads. We return the row with later duplicates zeroed. -/
def removeRepeat : List Nat → List Nat
  | [] => []
  | x :: xs => x :: (removeRepeat xs).map (fun y => if y = x then 0 else y)

/-- one membership row of MCP `_generate`.
`items`: the `randint(1, num_items+1)` row of length `m = set_sizes.max()` (batch-global maximum of the clamped
sizes); `size`: this set's clamped size.  `cutoffs_masks = arange(m) < size` has the same width as the row:
entries at positions `≥ size` are zeroed (0 = no item), then repeated items are removed. -/
def mcpRow (items : List Nat) (size : Nat) : List Nat :=
  removeRepeat ((List.range items.length).map (fun k => if k < size then items.getD k 0 else 0))

end Rl4co.Gen
