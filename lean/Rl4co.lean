-- Root of the `Rl4co` library: imports every model, spec, proof and property module.
import Rl4co.Core.Basic
