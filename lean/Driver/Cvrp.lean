-- native model driver for the CVRP family (ops `cvrp.*`); no Mathlib anywhere below this import
import Rl4co.Driver.Cvrp
def main : IO Unit := Rl4co.Proto.runDriver Rl4co.Driver.Cvrp.handlers
