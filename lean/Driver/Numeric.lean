-- native driver for the definitions regenerated from the Python source (ops `numeric.*`); no Mathlib anywhere below this import
import Rl4co.Driver.Numeric
def main : IO Unit := Rl4co.Proto.runDriver Rl4co.Driver.Numeric.handlers
