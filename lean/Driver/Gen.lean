-- native model driver for the generator / persistence family (ops `gen.*`); no Mathlib below this import
import Rl4co.Driver.Gen
def main : IO Unit := Rl4co.Proto.runDriver Rl4co.Driver.Gen.handlers
