-- native model driver for the Dpp family (ops `dpp.*`); no Mathlib anywhere below this import
import Rl4co.Driver.Dpp
def main : IO Unit := Rl4co.Proto.runDriver Rl4co.Driver.Dpp.handlers
