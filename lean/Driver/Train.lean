-- native model driver for the training family (ops `train.*`); no Mathlib anywhere below this import
import Rl4co.Driver.Train
def main : IO Unit := Rl4co.Proto.runDriver Rl4co.Driver.Train.handlers
