-- native model driver for the orienteering family (ops `op.*`); no Mathlib anywhere below this import
import Rl4co.Driver.Op
def main : IO Unit := Rl4co.Proto.runDriver Rl4co.Driver.Op.handlers1
