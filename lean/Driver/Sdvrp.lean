-- native model driver for the Sdvrp family; no Mathlib anywhere below this import
import Rl4co.Driver.Sdvrp
def main : IO Unit := Rl4co.Proto.runDriver Rl4co.Driver.Sdvrp.handlers
