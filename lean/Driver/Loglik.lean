-- native model driver for the decoding / log-likelihood / beam-search family (ops `loglik.*`); no Mathlib below
import Rl4co.Driver.Loglik
def main : IO Unit := Rl4co.Proto.runDriver Rl4co.Driver.Loglik.handlers
