-- native model driver for the FFSP family (ops `ffsp.*`); no Mathlib anywhere below this import
import Rl4co.Driver.Ffsp
def main : IO Unit := Rl4co.Proto.runDriver Rl4co.Driver.Ffsp.handlers
