-- native model driver for the `aug` family (ops `aug.*`); no Mathlib anywhere below this import
import Rl4co.Driver.Aug
def main : IO Unit := Rl4co.Proto.runDriver Rl4co.Driver.Aug.handlers
