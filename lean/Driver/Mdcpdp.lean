-- native model driver for MDCPDP (ops `mdcpdp.*`); no Mathlib anywhere below this import
import Rl4co.Driver.Mdcpdp
def main : IO Unit := Rl4co.Proto.runDriver Rl4co.Driver.Mdcpdp.handlers
