-- native model driver for the Svrp family; no Mathlib anywhere below this import
import Rl4co.Driver.Svrp
def main : IO Unit := Rl4co.Proto.runDriver Rl4co.Driver.Svrp.handlers
