-- native model driver for the Flp family (ops `flp.*`); no Mathlib anywhere below this import
import Rl4co.Driver.Flp
def main : IO Unit := Rl4co.Proto.runDriver Rl4co.Driver.Flp.handlers
