-- native model driver for mTSP (ops `mtsp.*`); no Mathlib anywhere below this import
import Rl4co.Driver.Mtsp
def main : IO Unit := Rl4co.Proto.runDriver Rl4co.Driver.Mtsp.handlers
