-- native model driver for the decoding family (ops `logits.*`); no Mathlib anywhere below this import
import Rl4co.Driver.Logits
def main : IO Unit := Rl4co.Proto.runDriver Rl4co.Driver.Logits.handlers
