-- native model driver for the improvement environments (ops `improve.*`); no Mathlib anywhere below this import
import Rl4co.Driver.Improve
def main : IO Unit := Rl4co.Proto.runDriver Rl4co.Driver.Improve.handlers
