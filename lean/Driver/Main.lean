/-
Line-protocol driver: reads one request per line on stdin, answers one line on stdout.
Imports only model / spec / driver modules (no Mathlib), so it links as a native executable.
To add a family: `import Rl4co.Driver.X` and append `Rl4co.Driver.X.handlers` below.
-/
import Rl4co.Driver.Cvrp

def allHandlers : List (String × (List String → Option String)) :=
  Rl4co.Driver.Cvrp.handlers

def answer (line : String) : String :=
  match (line.splitOn " ").filter (· ≠ "") with
  | [] => "bad-op empty"
  | op :: args =>
    match allHandlers.lookup op with
    | none => s!"bad-op {op}"
    | some h => match h args with
      | none => s!"bad-args {op}"
      | some r => r

partial def loop (hin hout : IO.FS.Stream) : IO Unit := do
  let line ← hin.getLine
  if line.isEmpty then return ()
  let line := line.trimAscii.toString
  if line == "flush" then
    hout.putStrLn "flushed"; hout.flush
  else
    hout.putStrLn (answer line)
  loop hin hout

def main : IO Unit := do
  let hin ← IO.getStdin
  let hout ← IO.getStdout
  loop hin hout
  hout.flush
