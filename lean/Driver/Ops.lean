-- native model driver for the replication/regrouping utilities and datasets (ops `ops.*`); no Mathlib below
import Rl4co.Driver.Ops
def main : IO Unit := Rl4co.Proto.runDriver Rl4co.Driver.Ops.handlers
