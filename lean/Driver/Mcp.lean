-- native model driver for the Mcp family (ops `mcp.*`); no Mathlib anywhere below this import
import Rl4co.Driver.Mcp
def main : IO Unit := Rl4co.Proto.runDriver Rl4co.Driver.Mcp.handlers
