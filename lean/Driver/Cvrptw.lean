-- native model driver for the Cvrptw family; no Mathlib anywhere below this import
import Rl4co.Driver.Cvrptw
def main : IO Unit := Rl4co.Proto.runDriver Rl4co.Driver.Cvrptw.handlers
