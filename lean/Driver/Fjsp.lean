-- native model driver for the job-shop family (ops `fjsp.*`, FJSPEnv and JSSPEnv); no Mathlib below this import
import Rl4co.Driver.Fjsp
def main : IO Unit := Rl4co.Proto.runDriver Rl4co.Driver.Fjsp.handlers
