-- native model driver for the equal-length family TSP / ATSP / PDP / SMTWTP (ops `tspfam.*`)
import Rl4co.Driver.Tspfam
def main : IO Unit := Rl4co.Proto.runDriver Rl4co.Driver.Tspfam.handlers
