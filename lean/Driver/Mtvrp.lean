-- native model driver for the MTVRP family (ops `mtvrp.*`); no Mathlib anywhere below this import
import Rl4co.Driver.Mtvrp
def main : IO Unit := Rl4co.Proto.runDriver Rl4co.Driver.Mtvrp.handlers
