-- native model driver for PCTSP / SPCTSP (ops `pctsp.*`); no Mathlib anywhere below this import
import Rl4co.Driver.Pctsp
def main : IO Unit := Rl4co.Proto.runDriver Rl4co.Driver.Pctsp.handlers
