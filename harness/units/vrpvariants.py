"""CVRP-variant units (C01–C06): real `CVRPTWEnv` / `SDVRPEnv` / `SVRPEnv` vs the Lean models
`Rl4co.Cvrptw` / `Rl4co.Sdvrp` / `Rl4co.Svrp` vs the independent specs `Rl4co.Spec.{Cvrptw,Sdvrp,Svrp}`."""
from __future__ import annotations

import itertools
import os
from typing import List

import envcorr
import geom
import rl
import vrpvariants_corr as vc
from common import LEAN_DIR, Theorem, Unit, register
from leanio import parse_fields
from rl import TensorDict, torch


def _has(path: str) -> bool:
    return os.path.exists(os.path.join(LEAN_DIR, path))


def _flat(D):
    return [v for row in D for v in row]


def _join(xs):
    return " ".join(map(str, xs))


class VariantAdapter(envcorr.Adapter):
    """common defaults of the three adapters"""
    pads = [0, 0, 1, 3]          # extra post-finish padding steps tried by C02 / C04 / C06
    c05_op = "episode"

    def n_of(self, inst):
        return inst["n"]

    def sizes(self, tier):
        # small sizes dominate; a share of the cases is large (n = 30, 51)
        return [1, 2, 3, 5, 8, 8, 13, 30, 51] if tier == "quick" else [1, 2, 3, 5, 8, 13, 20, 30, 51]

    @staticmethod
    def boxed(rng, pts, scale_ok=True):
        """a share of the instances lives in a scaled and/or shifted box (still exact on the 2^-10 grid): the
        distances are multiplied by k / unchanged, the coordinates leave the unit square"""
        r = rng.random()
        if r < 0.15 and scale_ok:
            k = rng.choice([2, 4])  # dx^2 + dy^2 stays below 2^24: float32 norms remain exact
            return [(x * k, y * k) for (x, y) in pts], f"x{k}"
        if r < 0.30:
            sx, sy = rng.choice([(1000 * geom.GRID, 1000 * geom.GRID), (-3 * geom.GRID, 5 * geom.GRID), (100 * geom.GRID, 0)])
            return [(x + sx, y + sy) for (x, y) in pts], f"shift({sx // geom.GRID},{sy // geom.GRID})"
        return pts, "unit"

    def c05_ok(self, f):
        return True

    def c05_extra(self, ctx, env, inst, feas, best_obj):
        return None

    def c05_cause(self, inst, c, t, f):
        return ""

    def c05_opt_cause(self, inst, best, f):
        return ""

    def special_cases(self, rng, inst, sol):
        return []

    def check_line(self, inst, lab, sol):
        return self.line("check", inst, list(sol))

    def classify(self, kind, inst, lab, sol, f):
        return ""

    def reward_exception_cause(self, insts, actions, e):
        return ""

    def batch_checker_cause(self, ctx, rows, batch_accepts):
        return ""

    def checker_case_hook(self, ctx, inst, lab, sol, f):
        """extra per-case consistency tests between Lean-side verdicts"""
        return None

    def batched_reward_model(self, ctx, insts, actions):
        """rewards (ticks) predicted by a model of the BATCHED reward computation, if the family has one"""
        return None

    def boundary_events(self, inst, actions):
        """labels of the constraint-equality events an episode went through (harness-side replay, only for the
        input-distribution report)"""
        return []


def _cvrp_routes_handbuilt(rng, n):
    perm = list(range(1, n + 1))
    rng.shuffle(perm)
    single = []
    for c in perm:
        single += [c, 0]
    return perm, single


# =================================================================================================
# CVRPTW
# =================================================================================================
class CvrptwAdapter(VariantAdapter):
    """Exact-stream CVRPTW instances.  Coordinates are geom grid points (2^-10 grid of the unit square)
    multiplied by `S`; all times are integers in *grid steps* (one step = S/1024):
      S = 128   "eighths": coordinates up to 128, times/distances multiples of 1/8  (fractional arrivals)
      S = 1024  "integral": integer coordinates, integer times (what the checker's `.int()` assumes)
      S = 1     "scaled": everything inside [0, 1] as with the generator's `scale=True`
    One grid step is S·1024 ticks; 1.0 is 2^20 ticks."""
    name = "cvrptw"

    def make_env(self, Q=1.0, **kw):
        from rl4co.envs.routing.cvrptw.env import CVRPTWEnv

        return CVRPTWEnv(generator_params=dict(num_loc=5, vehicle_capacity=Q), check_solution=False)

    def variants(self):
        # the (normalised) vehicle capacity is an env-level option read by `_reset`
        return [{}, {}, {"Q": 0.5}, {"Q": 2.0}]

    def kinds(self):
        return ["random", "boundary", "boundary", "scaled", "integral", "integral-large"]

    def gen_instance(self, rng, n, kind="random", Q=1.0):
        C = rng.choice([4, 8, 16, 32])
        if rng.random() < 0.4:
            pool = [C // 2, C // 4, C // 4, C // 2, C, C - 1, 1, C // 2 + 1, C // 2 - 1]
            dem = [max(1, rng.choice(pool)) for _ in range(n)]
        else:
            dem = [rng.randint(1, min(9, C)) for _ in range(n)]
        S = {"scaled": 1, "integral": 1024, "integral-large": 4096}.get(kind, 128)
        pts, box = geom.gen_points(rng, n + 1), "unit"
        if kind not in ("scaled", "integral-large"):
            pts, box = self.boxed(rng, pts)
        D = geom.dist_matrix(pts)
        span = max(1, max(D[0]))
        H = max(2, sum(D[0]))  # rough tour scale
        dur, twS, twE = [0], [0], [0]
        for j in range(1, n + 1):
            dj = rng.choice([0, 0, 1, 2, 8, span // 4])
            if kind == "boundary":
                slack = rng.choice([0, 0, 1, span, H])
            else:
                slack = rng.randint(0, 2 * H)
            e = max(1, D[0][j] + slack)           # reachable from the depot, possibly with equality
            r = rng.random()
            if r < 0.3:
                s = 0
            elif r < 0.5:
                s = e - 1                          # one-step window
            else:
                s = rng.randint(0, e - 1)
            dur.append(dj); twS.append(s); twE.append(e)
        e0 = max([1] + [twE[j] + dur[j] + D[j][0] for j in range(1, n + 1)]) + rng.choice([0, 0, 0, 5, H])
        twE[0] = e0
        # the depot's own window start / service duration are data too (never used by a correct env)
        if rng.random() < 0.3 and e0 >= 12:
            dur[0] = rng.choice([1, 8])
            twS[0] = rng.choice([0, 1, 2])       # twS[0] + dur[0] <= e0: the checker's static assertion holds
        return {"kind": kind, "n": n, "C": C, "Q": Q, "demand": dem, "pts": pts, "box": box, "S": S, "dur": dur,
                "twS": twS, "twE": twE}

    def to_td(self, insts):
        B = len(insts)

        def co(i, p):
            return [p[0] * i["S"] / geom.GRID, p[1] * i["S"] / geom.GRID]

        def tm(i, v):
            return v * i["S"] / geom.GRID

        locs = torch.tensor([[co(i, p) for p in i["pts"][1:]] for i in insts], dtype=torch.float32)
        depot = torch.tensor([co(i, i["pts"][0]) for i in insts], dtype=torch.float32)
        demand = torch.tensor([[d * i.get("Q", 1.0) / i["C"] for d in i["demand"]] for i in insts], dtype=torch.float32)
        durations = torch.tensor([[tm(i, v) for v in i["dur"]] for i in insts], dtype=torch.float32)
        tw = torch.tensor([[[tm(i, a), tm(i, b)] for a, b in zip(i["twS"], i["twE"])] for i in insts], dtype=torch.float32)
        return TensorDict({"locs": locs, "depot": depot, "demand": demand, "durations": durations,
                           "time_windows": tw}, batch_size=[B])

    def line(self, op, inst, actions):
        n, C, S, Q = inst["n"], inst["C"], inst["S"], inst.get("Q", 1.0)
        g = S * 1024  # ticks per grid step
        cap = int(Q * rl.SCALE)  # Q is a power of two: exact
        dem = [d * (cap // C) for d in inst["demand"]]
        D = [[d * g for d in row] for row in geom.dist_matrix(inst["pts"])]
        e0 = inst.get("e0_ticks", inst["twE"][0] * g)  # depot deadline of batch row 0, in ticks
        return (f"cvrptw.{op} {n} {cap} {rl.tol_ticks(Q)} {rl.SCALE} {e0} | " + _join(dem) + " | "
                + _join(v * g for v in inst["twS"]) + " | " + _join(v * g for v in inst["twE"]) + " | "
                + _join(v * g for v in inst["dur"]) + " | " + _join(_flat(D)) + " | " + _join(actions))

    def step_bound(self, inst):
        return 2 * inst["n"] + 1

    def handbuilt(self, rng, inst):
        n = inst["n"]
        perm, single = _cvrp_routes_handbuilt(rng, n)
        out = [("each-own-route-no-final-depot", single[:-1]),
               ("each-own-route-trailing-depots", single + [0, 0]),
               ("leading-depot", [0] + single),
               ("one-route-never-returns", perm)]
        return out

    # clock of a solution in grid steps (harness-side, only used to *build* boundary cases)
    def _arrivals(self, inst, sol):
        D = geom.dist_matrix(inst["pts"])
        t, cur, out = 0, 0, []
        for a in sol:
            arr = t + D[cur][a]
            out.append(arr)
            t = 0 if a == 0 else max(arr, inst["twS"][a]) + inst["dur"][a]
            cur = a
        return out

    def boundary_events(self, inst, actions):
        D = geom.dist_matrix(inst["pts"])
        ev, t, cur, load = [], 0, 0, 0
        for a in actions:
            arr = t + D[cur][a]
            if arr == inst["twE"][a]:
                ev.append("arrival=window-end" if a else "return=depot-window-end")
            if a:
                if arr < inst["twS"][a]:
                    ev.append("waits-for-window-start")
                load += inst["demand"][a - 1]
                if load == inst["C"]:
                    ev.append("load=capacity")
                t = max(arr, inst["twS"][a]) + inst["dur"][a]
            else:
                t, load = 0, 0
            cur = a
        return ev

    def special_cases(self, rng, inst, sol):
        """windows re-cut around the arrival times of a mask-generated (feasible) solution: deadline met
        with equality, missed by one grid step, by less than / exactly / more than 1.0"""
        out = []
        arr = self._arrivals(inst, sol)
        ks = [k for k, a in enumerate(sol) if a != 0 and arr[k] >= 2]
        if not ks:
            return out
        unit = max(1, geom.GRID // inst["S"])  # grid steps per 1.0
        for lab, delta in [("tw-end-equals-arrival", 0), ("tw-late-by-one-step", 1), ("tw-late-by-1.0", unit),
                           ("tw-late-by-2.0", 2 * unit)]:
            k = rng.choice(ks)
            a = sol[k]
            e = arr[k] - delta
            if e < 1:
                continue
            i2 = dict(inst)
            i2["twE"] = list(inst["twE"]); i2["twS"] = list(inst["twS"])
            i2["twE"][a] = e
            i2["twS"][a] = min(inst["twS"][a], e - 1)
            i2["kind"] = inst["kind"] + "/" + lab
            out.append((lab, i2, list(sol)))
        return out

    def classify(self, kind, inst, lab, sol, f):
        # known defect = the `.int()` truncation and nothing else: visits and loads are fine (base=1), the
        # modelled checker accepts only because of the truncation (the same checker with an exact clock,
        # `checkx`, rejects), and the data are not integral (on integral data truncation is the identity,
        # `check_sound_partial`)
        if (kind == "accepts-infeasible" and inst["S"] != 1024 and f.get("base") == "1"
                and f.get("check") == "1" and f.get("checkx") == "0"):
            return "int-clock"
        return ""

    def checker_case_hook(self, ctx, inst, lab, sol, f):
        # theorem `checkG_repaired_iff`: on an instance passing its own static assertions the checker WITHOUT `.int()`
        # and WITHOUT the row-0 read decides the Spec (up to the load tolerance); evaluated here on every case
        if f.get("static") == "1" and f.get("near", "0") == "0" and "checkrep" in f:
            ctx.count("cvrptw.repaired-checker-vs-spec")
            if (f["checkrep"] == "1") != (f.get("feas") == "1"):
                ctx.disagreement("cvrptw: repaired checker model (no .int(), no row-0 read) differs from the Spec oracle",
                                 {"inst": inst, "label": lab, "actions": list(sol), "checkrep": f["checkrep"], "feas": f.get("feas")})

    def batch_checker_cause(self, ctx, rows, batch_accepts):
        # known defect: every row's static assertion is tested against the depot deadline of batch row 0.  It
        # explains a batch verdict iff the modelled checker, given row 0's deadline for every row, reproduces it
        e0 = rows[0][0]["twE"][0] * rows[0][0]["S"] * 1024
        fs = [parse_fields(x) for x in vc.ask(ctx, [self.line("check", dict(i, e0_ticks=e0), a) for (i, _, a, _) in rows])]
        model_batch = all(f.get("check") == "1" for f in fs)
        own = all((f.get("checkown") == "1") == v for f, (_, _, _, v) in zip(fs, rows))
        if model_batch == batch_accepts and own and len({i["twE"][0] * i["S"] for (i, _, _, _) in rows}) > 1:
            return "row0-depot-deadline"
        return ""

    def enumerate_solutions(self, inst):
        n = inst["n"]
        for perm in itertools.permutations(range(1, n + 1)):
            for cuts in itertools.product([0, 1], repeat=n - 1):
                sol = []
                for k, c in enumerate(perm):
                    sol.append(c)
                    if k < n - 1 and cuts[k]:
                        sol.append(0)
                if not any(cuts):
                    sol.append(0)
                yield sol


# =================================================================================================
# SDVRP
# =================================================================================================
class SolW(list):
    """an action list carrying an explicit split witness `qs` (amounts in units of 1/C)"""
    qs: List[int] = None


class SdvrpAdapter(VariantAdapter):
    name = "sdvrp"
    c05_op = "episode"

    def make_env(self, Q=1.0, **kw):
        from rl4co.envs.routing.sdvrp.env import SDVRPEnv

        return SDVRPEnv(generator_params=dict(num_loc=5, vehicle_capacity=Q), check_solution=False)

    def variants(self):
        # the (normalised) vehicle capacity is an env-level option read by `_reset`
        return [{}, {}, {"Q": 0.5}, {"Q": 2.0}]

    def kinds(self):
        return ["random", "boundary", "big"]

    def gen_instance(self, rng, n, kind="random", Q=1.0):
        C = rng.choice([4, 8, 16])
        if kind == "boundary":
            pool = [C // 2, C // 4, C // 4, C // 2, C, C - 1, 1, C // 2 + 1, C // 2 - 1]
            dem = [max(1, rng.choice(pool)) for _ in range(n)]
        elif kind == "big":
            dem = [rng.choice([C, C + 1, 2 * C, C + C // 2, C // 2, 1, 2 * C + 1]) for _ in range(n)]
        else:
            dem = [rng.randint(1, min(9, C)) for _ in range(n)]
        pts, box = self.boxed(rng, geom.gen_points(rng, n + 1))
        return {"kind": kind, "n": n, "C": C, "Q": Q, "demand": dem, "pts": pts, "box": box}

    def to_td(self, insts):
        B = len(insts)
        locs = torch.tensor([geom.to_unit(i["pts"][1:]) for i in insts], dtype=torch.float32)
        depot = torch.tensor([geom.to_unit(i["pts"][:1])[0] for i in insts], dtype=torch.float32)
        demand = torch.tensor([[d * i.get("Q", 1.0) / i["C"] for d in i["demand"]] for i in insts], dtype=torch.float32)
        return TensorDict({"locs": locs, "depot": depot, "demand": demand}, batch_size=[B])

    def _unit_ticks(self, inst):
        """ticks of one demand unit (1/C of the capacity Q; Q a power of two, so exact)"""
        return int(inst.get("Q", 1.0) * rl.SCALE) // inst["C"]

    def _head(self, op, inst, actions):
        n = inst["n"]
        u = self._unit_ticks(inst)
        dem = [d * u for d in inst["demand"]]
        return (f"sdvrp.{op} {n} {u * inst['C']} | " + _join(dem) + " | " + _join(_flat(geom.D_ticks(inst["pts"])))
                + " | " + _join(actions))

    def line(self, op, inst, actions):
        return self._head(op, inst, actions)

    def check_line(self, inst, lab, sol):
        if getattr(sol, "qs", None) is not None:
            return self._head("witness", inst, list(sol)) + " | " + _join(q * self._unit_ticks(inst) for q in sol.qs)
        return self._head("check", inst, list(sol))

    def step_bound(self, inst):
        return 2 * (inst["n"] + sum(inst["demand"]) // inst["C"]) + 1

    def boundary_events(self, inst, actions):
        C, rem, used, ev = inst["C"], list(inst["demand"]), 0, []
        for a in actions:
            if a == 0:
                used = 0
                continue
            q = min(rem[a - 1], C - used)
            if rem[a - 1] == C - used and q > 0:
                ev.append("remaining-capacity=remaining-demand")
            elif q < rem[a - 1]:
                ev.append("split:vehicle-filled-customer-not-completed")
            if rem[a - 1] > C:
                ev.append("demand>capacity")
            rem[a - 1] -= q
            used += q
        return ev

    def reward_exception_cause(self, insts, actions, e):
        # CVRPEnv._get_reward: gather_by_index(locs, actions) squeezes a length-1 step dimension
        if all(len(a) == 1 for a in actions) and "number of dimensions" in str(e):
            return "single-step-episode"
        return ""

    def _greedy_routes(self, inst, order):
        """harness-side construction of a feasible visit sequence: customers in `order`, each served
        completely before the next, returning to the depot whenever the vehicle is full"""
        C = inst["C"]
        sol, used = [], 0
        for j in order:
            r = inst["demand"][j - 1]
            while r > 0:
                if used == C:
                    sol.append(0); used = 0
                q = min(r, C - used)
                sol.append(j); r -= q; used += q
        return sol

    def handbuilt(self, rng, inst):
        n = inst["n"]
        order = list(range(1, n + 1))
        rng.shuffle(order)
        g = self._greedy_routes(inst, order)
        out = [("greedy-never-returns-at-end", g), ("greedy-final-depot", g + [0]),
               ("greedy-trailing-depots", g + [0, 0, 0]), ("leading-depot", [0] + g + [0])]
        # every customer in its own route(s)
        own = []
        for j in order:
            own += self._greedy_routes(inst, [j]) + [0]
        out.append(("each-own-routes", own))
        # an empty route in the middle (two consecutive depot visits while demand remains)
        if len(own) > 2 and 0 in own[:-1]:
            k = own.index(0)
            out.append(("double-depot-mid-tour", own[: k + 1] + [0] + own[k + 1:]))
        # a zero-delivery revisit of a customer that is already served
        out.append(("revisit-served-customer", g + [order[0], 0]))
        # infeasible: the vehicle never returns although the total demand exceeds its capacity — (a) every depot
        # return of the greedy tour replaced by a zero-delivery visit of an already served customer, (b) cyclic
        # passes over the customers in which every zero-delivery step (vehicle exactly full) stands where a
        # return would be needed; a checker that resets the load on any zero-delivery step accepts both
        C, dem = inst["C"], inst["demand"]
        if sum(dem) > C and n >= 2:
            served, rem, swapped = [], list(dem), []
            used = 0
            for a in g:
                if a == 0:
                    used = 0
                    if served:
                        swapped.append(rng.choice(served))
                    continue
                q = min(rem[a - 1], C - used)
                rem[a - 1] -= q; used += q
                if rem[a - 1] == 0 and a not in served:
                    served.append(a)
                swapped.append(a)
            if swapped != g:
                out.append(("returns-replaced-by-served-customer", swapped + [0]))
            rem, used, seq = list(dem), 0, []
            for step in range(6 * n * max(1, -(-sum(dem) // C))):
                if not any(rem):
                    break
                j = order[step % n]
                q = min(rem[j - 1], C - used)
                if q > 0:
                    rem[j - 1] -= q; used += q
                else:
                    used = 0
                seq.append(j)
            if not any(rem):
                out.append(("overfull-never-returns", seq + [0]))
        return out

    def special_cases(self, rng, inst, sol):
        """a visit sequence that is feasible only with a NON-greedy split: customers A (demand C) and B
        (demand C/2): [A, B, 0, A] with amounts C/2, C/2, -, C/2; the explicit witness is checked by Lean"""
        n, C = inst["n"], inst["C"]
        if n < 2:
            return []
        a, b = rng.sample(range(1, n + 1), 2)
        i2 = dict(inst)
        i2["demand"] = list(inst["demand"])
        i2["demand"][a - 1] = C
        i2["demand"][b - 1] = C // 2
        i2["kind"] = inst["kind"] + "/nongreedy"
        seq, qs = [a, b, 0, a, 0], [C // 2, C // 2, 0, C // 2, 0]
        for j in range(1, n + 1):
            if j in (a, b):
                continue
            r = i2["demand"][j - 1]
            while r > 0:
                q = min(r, C)
                seq += [j, 0]; qs += [q, 0]; r -= q
        s = SolW(seq)
        s.qs = qs
        return [("nongreedy-split-with-witness", i2, s)]

    def classify(self, kind, inst, lab, sol, f):
        sol = list(sol)
        if kind != "rejects-feasible" or f.get("check") != "0":
            return ""
        # each known rule explains a rejection only if undoing exactly that trigger makes the modelled checker
        # accept: `checkz` = verdict with a depot visit appended, `checkd` = with repeated depot visits collapsed
        if f.get("greedy") == "1" and 0 not in sol and f.get("checkz") == "1":
            return "no-depot-visit"
        if (f.get("greedy") == "1" and 0 in sol and f.get("checkd") == "1"
                and any(sol[k] == 0 and sol[k + 1] == 0 for k in range(len(sol) - 1))):
            return "double-depot"
        if f.get("greedy") == "0" and lab == "nongreedy-split-with-witness":
            return "nongreedy-split"
        return ""

    def c05_ok(self, f):
        return f.get("canon") == "1"

    # ---- optimum over ALL valid splits (harness-side oracle, not verified in Lean) ------------------
    @staticmethod
    def _split_exists(n, C, dem, seq):
        """transportation feasibility (Gale / Hall condition): a valid split of `seq` exists iff every customer
        with demand is visited and, for every set S of customers, demand(S) <= C * #routes touching S"""
        routes, cur = [], set()
        for a in seq:
            if a == 0:
                routes.append(cur); cur = set()
            else:
                cur.add(a)
        routes.append(cur)
        routes = [r for r in routes if r]
        custs = [j for j in range(1, n + 1) if dem[j - 1] > 0]
        seen = set().union(*routes) if routes else set()
        if any(j not in seen for j in custs):
            return False
        for k in range(1, len(custs) + 1):
            for S in itertools.combinations(custs, k):
                if sum(dem[j - 1] for j in S) > C * sum(1 for r in routes if r & set(S)):
                    return False
        return True

    def c05_extra(self, ctx, env, inst, feas, best_obj):
        """sampled check of the scope note of `Rl4co.Sdvrp.run_of_feasible`: on tiny instances the best objective
        over ALL visit sequences admitting SOME valid split (not only the greedy one) is compared with the best
        greedy-canonical one (= what the mask reaches)."""
        n, C, dem = inst["n"], inst["C"], inst["demand"]
        if n > 3 or best_obj is None or getattr(self, "_truncated", False):
            ctx.count("sdvrp.all-splits-optimum-skipped")
            return
        D = geom.D_ticks(inst["pts"])
        L = min(self.step_bound(inst), 7 if n == 3 else 8)
        best, arg = None, None
        for l in range(1, L + 1):
            for sq in itertools.product(range(0, n + 1), repeat=l):
                if sq[0] == 0 or sq[-1] == 0 or any(sq[k] == 0 and sq[k + 1] == 0 for k in range(l - 1)):
                    continue
                o, cur = 0, 0
                for a in sq:
                    o += D[cur][a]; cur = a
                o += D[cur][0]
                if (best is None or o < best) and self._split_exists(n, C, dem, sq):
                    best, arg = o, list(sq)
        ctx.count("sdvrp.all-splits-optimum-compared")
        if best is not None and best < best_obj:
            vc.viol(ctx, "sdvrp:optimum-hidden:nongreedy-split",
                    "a visit sequence with a valid (non-greedy) split is strictly shorter than every greedy-canonical one",
                    {"inst": inst, "sequence": arg, "objective_ticks": best, "best_greedy_canonical_ticks": best_obj})

    def enumerate_solutions(self, inst):
        """all canonical greedy solutions (harness-side simulation as candidate generator; Lean's Spec and
        canonicity test are the judge): every visit hands over a positive amount, no depot→depot move,
        stop when everything is served (with and without a final depot visit)"""
        n, C = inst["n"], inst["C"]
        out = []
        LIM = 4000

        def rec(seq, rem, used, cur):
            if len(out) >= LIM:
                return
            if all(r == 0 for r in rem):
                out.append(list(seq))
                out.append(list(seq) + [0])
                return
            if cur != 0:
                rec(seq + [0], rem, 0, 0)
            if used < C:
                for j in range(1, n + 1):
                    if rem[j - 1] > 0:
                        q = min(rem[j - 1], C - used)
                        rem2 = list(rem); rem2[j - 1] -= q
                        rec(seq + [j], rem2, used + q, j)

        rec([], list(inst["demand"]), 0, 0)
        self._truncated = len(out) >= LIM
        return out


# =================================================================================================
# SVRP
# =================================================================================================
# cost vectors (numerators, common denominator): other lengths and values than the default [1, 2, 3]
SVRP_COSTS = [((1, 2, 3), 1), ((1, 2, 3), 1), ((1, 3), 1), ((3, 2, 1), 1), ((2, 1, 3, 5), 1), ((1, 1, 2, 3, 5), 1),
              ((0, 4, 4), 1), ((100, 1, 50), 1), ((2, 8, 6), 4), ((7, 7), 1), ((1, 2, 3, 4, 5, 6), 1)]


class SvrpAdapter(VariantAdapter):
    """All rows of a batch share the number of technicians (a tensor dimension) and the cost vector (an env
    attribute, `generator_params=dict(tech_costs=…)`); both are an environment-level *variant* chosen per batch
    (`variants()` / `envcorr.pick_env`): cost vectors of 2–6 technicians, non-monotone, with zeros, large
    values and non-integer (dyadic) values."""
    name = "svrp"
    pads = [0]  # see vrpvariants_corr: extra padding past the last technician makes the real env raise

    def make_env(self, costs=(1, 2, 3), cden=1, **kw):
        from rl4co.envs.routing.svrp.env import SVRPEnv

        tc = [c / cden for c in costs] if cden != 1 else list(costs)
        return SVRPEnv(generator_params=dict(num_loc=5, tech_costs=tc), check_solution=False)

    def variants(self):
        return [{"costs": c, "cden": d} for (c, d) in SVRP_COSTS]

    def kinds(self):
        return ["random", "boundary", "boundary", "unsorted"]

    def gen_instance(self, rng, n, kind="random", costs=(1, 2, 3), cden=1):
        T = len(costs)
        q = sorted(rng.randint(4, 40) for _ in range(T))  # technician levels in quarters, ascending
        if kind == "unsorted" and T > 2:
            head = q[:-1]
            rng.shuffle(head)
            q = head + q[-1:]
        top = q[-1]
        sk = []
        for _ in range(n):
            r = rng.random()
            if kind == "boundary" and r < 0.7:
                sk.append(rng.choice(q))              # required skill exactly = a technician's level
            elif r < 0.85:
                sk.append(rng.randint(0, top))
            else:
                sk.append(top)                        # only the last technician qualifies
        if rng.random() < 0.2:                        # larger magnitudes of levels / skills
            q, sk = [v * 64 for v in q], [v * 64 for v in sk]
        pts, box = self.boxed(rng, geom.gen_points(rng, n + 1))
        return {"kind": kind, "n": n, "T": T, "techs": q, "skills": sk, "costs": list(costs), "cden": cden,
                "pts": pts, "box": box}

    def real_reward_ticks(self, env, td, actions):
        r = env._get_reward(td, actions)
        return [rl.ticks(v * self._cden) for v in r.flatten().tolist()]

    def batched_reward_model(self, ctx, insts, actions):
        """the Lean model of the Python loop that builds the cost table for the whole batch (`Svrp.costsBatch`,
        with the two flush statements as extracted from the source); distances from the exact geometry"""
        L = len(actions[0])
        rep = ctx.driver.ask(f"svrp.costsbatch {insts[0]['T']} {L} | " + _join(insts[0]["costs"]) + " | "
                             + " | ".join(_join(a) for a in actions))
        tab = parse_fields(rep).get("table")
        if tab is None:
            ctx.disagreement("svrp: driver error (costsbatch)", {"reply": rep})
            return None
        out = []
        for inst, acts, row in zip(insts, actions, tab.split(";")):
            cost = [int(x) for x in row.split(",")]
            D = geom.D_ticks(inst["pts"])
            xs = [0] + list(acts)
            out.append(-sum(D[xs[p]][xs[(p + 1) % len(xs)]] * cost[p] for p in range(len(xs))))
        return out

    def to_td(self, insts):
        B = len(insts)
        self._cden = insts[0].get("cden", 1)  # the model's rewards are in units of 1/cden
        locs = torch.tensor([geom.to_unit(i["pts"][1:]) for i in insts], dtype=torch.float32)
        depot = torch.tensor([geom.to_unit(i["pts"][:1])[0] for i in insts], dtype=torch.float32)
        techs = torch.tensor([[[v / 4] for v in i["techs"]] for i in insts], dtype=torch.float32)
        skills = torch.tensor([[[v / 4] for v in i["skills"]] for i in insts], dtype=torch.float32)
        return TensorDict({"locs": locs, "depot": depot, "techs": techs, "skills": skills}, batch_size=[B])

    def line(self, op, inst, actions):
        q = rl.SCALE // 4
        return (f"svrp.{op} {inst['n']} {inst['T']} | " + _join(v * q for v in inst["techs"]) + " | "
                + _join(v * q for v in inst["skills"]) + " | " + _join(inst["costs"]) + " | "
                + _join(_flat(geom.D_ticks(inst["pts"]))) + " | " + _join(actions))

    def step_bound(self, inst):
        return inst["n"] + max(inst["T"] - 1, 1)

    def boundary_events(self, inst, actions):
        ev, k, at_depot = [], 0, True
        for a in actions:
            if a == 0:
                if at_depot:
                    ev.append("technician-skipped")
                k += 1
                at_depot = True
                continue
            at_depot = False
            if k < inst["T"]:
                if inst["skills"][a - 1] == inst["techs"][k]:
                    ev.append("skill=technician-level")
                if k == inst["T"] - 1:
                    ev.append("served-by-last-technician")
        return ev

    def _by_technician(self, inst, order):
        """customers in `order`, each assigned to the first technician (≥ the current one) able to serve it"""
        sol, k = [], 0
        for j in order:
            while inst["skills"][j - 1] > inst["techs"][k] and k < inst["T"] - 1:
                sol.append(0); k += 1
            sol.append(j)
        return sol

    def handbuilt(self, rng, inst):
        n, T = inst["n"], inst["T"]
        order = sorted(range(1, n + 1), key=lambda j: (inst["skills"][j - 1], rng.random()))
        asc = self._by_technician(inst, order)
        out = [("by-technician-no-final-depot", asc), ("by-technician-final-depot", asc + [0])]
        z = asc.count(0)
        if z + 1 <= T - 1:
            out.append(("by-technician-trailing-depots-within-T", asc + [0] * (T - 1 - z)))
        out.append(("more-depot-visits-than-technicians", asc + [0] * (T + 1 - z)))
        # everything by the last technician: T-1 empty routes first
        perm = list(range(1, n + 1))
        rng.shuffle(perm)
        out.append(("all-by-last-technician", [0] * (T - 1) + perm))
        # trailing segment driven by an under-skilled technician (no depot visit closes it)
        hard = max(range(1, n + 1), key=lambda j: inst["skills"][j - 1])
        rest = [j for j in perm if j != hard]
        out.append(("hard-customer-in-open-last-segment", rest + [hard]))
        out.append(("hard-customer-in-closed-first-segment", rest + [hard, 0]))
        if rest:
            out.append(("hard-customer-after-first-return", rest + [0, hard]))
        return out

    def classify(self, kind, inst, lab, sol, f):
        sol = list(sol)
        # only the OPEN last route is infeasible (everything closed by a depot visit is fine) and it is non-empty
        if (kind == "accepts-infeasible" and f.get("closed") == "1" and f.get("check") == "1"
                and sol and sol[-1] != 0):
            return "open-last-segment"
        # the index error of `techs[batch, tech]` at a depot visit number > T
        if (kind == "rejects-feasible" and sol.count(0) > inst["T"] and f.get("_exc") == "IndexError"
                and f.get("check") == "0"):
            return "more-depot-visits-than-technicians"
        return ""

    @staticmethod
    def _has_empty_route(c):
        return bool(c) and (c[0] == 0 or any(c[k] == 0 and c[k + 1] == 0 for k in range(len(c) - 1)))

    def c05_cause(self, inst, c, t, f):
        # known pruning: a depot→depot move of a technician who COULD serve a remaining customer, i.e. the
        # candidate is not canonical in the sense of `Rl4co.Svrp.Canonical` (decided by Lean: `canon`), and the
        # model's mask refuses it as well; a blocked canonical candidate is a fresh violation
        if c[t] == 0 and (t == 0 or c[t - 1] == 0) and f.get("canon") == "0" and f.get("adm") == "0":
            return "skipped-technician"
        return ""

    def c05_opt_cause(self, inst, best, f):
        if best is not None and f is not None and self._has_empty_route(best) and f.get("canon") == "0":
            return "skipped-technician"
        return ""

    def enumerate_solutions(self, inst):
        """canonical candidates: customer permutations cut into routes, optionally preceded by skipped
        technicians (leading depot visits), with / without a final depot visit"""
        n, T = inst["n"], inst["T"]
        seen = set()
        for perm in itertools.permutations(range(1, n + 1)):
            for cuts in itertools.product(range(0, T), repeat=n - 1):
                for lead in range(0, T):
                    sol = [0] * lead
                    for k, c in enumerate(perm):
                        sol.append(c)
                        if k < n - 1:
                            sol += [0] * cuts[k]
                    for tail in ([], [0]):
                        if tail and 0 in sol:
                            continue  # the episode is finished at the last customer once the depot was visited
                        s = tuple(sol + tail)
                        if 0 in s and s not in seen:
                            seen.add(s)
                            yield list(s)


# =================================================================================================
# registration
# =================================================================================================
TW, SD, SV = CvrptwAdapter(), SdvrpAdapter(), SvrpAdapter()
NOTE = {
    "cvrptw": ("CVRPTWEnv modelled per instance over integer ticks on top of the CVRP model (Rl4co/Env/Cvrptw.lean); "
               "coordinates→distance arithmetic and float32 rounding are outside the model (exact-stream instances: "
               "integral point sets scaled by a power of two, dyadic times)"),
    "sdvrp": ("SDVRPEnv modelled per instance over integer ticks (Rl4co/Env/Sdvrp.lean); Spec = existence of a valid "
              "split, oracle = greedy replay (proved to be a valid witness) or an explicit witness checked by Lean"),
    "svrp": ("SVRPEnv modelled per instance over integer ticks (Rl4co/Env/Svrp.lean); the real env raises when "
             "`current_tech` reaches the number of technicians, the model reports that event (`ovf`) instead"),
}
NOTHM = "no theorem yet: correspondence + spec oracle only"

def _T(mod, *items):
    return (mod, [Theorem(n, st, note) for (n, st, note) in items])


P = "proved"
THEOREMS = {
    # ---------------------------------------------------------------- CVRPTW
    ("C01", "cvrptw"): _T(["Rl4co.Props.C01.Cvrptw", "Rl4co.Props.C01.VrpVariantsSpec", "Rl4co.Props.C02.VrpVariantsExists"],
        ("Rl4co.Cvrptw.feasible_exists", P, "Spec sanity: every WF instance has a Spec-feasible solution (via a finished episode)"),
        ("Rl4co.Spec.Cvrptw.feasible_mono", P, "Spec sanity: relaxing deadlines preserves feasibility"),
        ("Rl4co.Spec.Cvrptw.infeasible_of_unreachable", P, "Spec sanity: deadlines bind — one customer whose deadline precedes the direct arrival: nothing is feasible"),
        ("Rl4co.Cvrptw.feasible_of_run", P, "cap ≥ 0, RetOK (from every customer the depot is reached in time after the latest "
         "admissible service start) ⇒ every finished mask-confined episode is Spec-feasible (visits, loads, windows, returns)"),
        ("Rl4co.Cvrptw.step_time", P, "the model's clock update has the shape max(t+d, start)+dur for a ≠ 0 — holds because of the "
         "extracted source shape (Params.cvrptwStepDurAfterMax, cvrptwStepDepotCmp)"),
        ("Rl4co.Cvrptw.run_base", P, "a CVRPTW run projects to a run of the embedded CVRP model (class inheritance as a theorem)")),
    ("C02", "cvrptw"): _T(["Rl4co.Props.C02.Cvrptw", "Rl4co.Props.C02.CvrptwGen", "Rl4co.Props.C02.CvrptwSolomon",
                           "Rl4co.Props.C02.VrpVariantsExists"],
        ("Rl4co.Cvrptw.exists_complete_run", P, "every WF instance has a finished mask-confined episode (model-level 'solvable')"),
        ("Rl4co.Cvrptw.never_done_of_oversized", P, "a customer whose demand exceeds the reset state's capacity is never offered: no run finishes"),
        ("Rl4co.Cvrptw.solomon_default_never_done", P, "extract_from_solomon (model `ofSolomon`) on an env whose generator capacity is below a raw demand: no episode finishes"),
        ("Rl4co.Cvrptw.ofSolomon_wf", P, "with the generator carrying the instance's capacity a Solomon-conform instance is WF (C01/C02 apply, positive service times)"),
        ("Rl4co.Cvrptw.gen_wf_cvrptw", P, "windows built by the generator model (Gen.Cvrptw.window under Cond, C18 cvrptw_window) ⇒ WF"),
        ("Rl4co.Cvrptw.gen_mask_nonempty", P, "… hence every reachable state of a generated instance offers an action"),
        ("Rl4co.Cvrptw.gen_feasible_of_run", P, "… and finished mask-confined episodes on generated instances are feasible"),
        ("Rl4co.Cvrptw.mask_nonempty", P, "WF (reachable from depot ∧ RetOK) ⇒ every reachable state, finished or not, offers an action"),
        ("Rl4co.Cvrptw.done_stable", P, "done is absorbing"),
        ("Rl4co.Cvrptw.steps_le", P, "demands ≤ capacity ⇒ an unfinished mask-confined run has at most 2n+1 steps"),
        ("Rl4co.Cvrptw.dead_end_example", P, "the precondition asserted by the code (window START + dist + duration ≤ depot end) "
         "does not exclude dead ends: solvable instance, admitted prefix [1,2], empty mask")),
    ("C03", "cvrptw"): _T("Rl4co.Props.C03.Cvrptw",
        ("Rl4co.Cvrptw.reward_eq_objective", P, "reward = −(sum of closed route lengths) for every action list when D 0 0 = 0")),
    ("C04", "cvrptw"): _T("Rl4co.Props.C04.Cvrptw",
        ("Rl4co.Cvrptw.pad_noop", P, "a depot padding step after done changes neither done, mask nor reward (D 0 0 = 0, depot end ≥ 0)")),
    ("C05", "cvrptw"): _T(["Rl4co.Props.C05.Cvrptw", "Rl4co.Props.C05.CvrptwOpt"],
        ("Rl4co.Cvrptw.opt_reachable", P, "EVERY feasible solution (canonical or not) has a finished mask-confined episode of the same objective"),
        ("Rl4co.Cvrptw.best_through_mask_eq_optimum", P, "∃/∀ form: some finished episode attains −objective(opt), none exceeds it"),
        ("Rl4co.Cvrptw.run_of_feasible", P, "every canonical Spec-feasible solution (windows with ≤) is a finished mask-confined run")),
    ("C06", "cvrptw"): _T(["Rl4co.Props.C06.Cvrptw", "Rl4co.Props.C06.CvrptwRepaired"],
        ("Rl4co.Cvrptw.check_eq_checkG", P, "the modelled checker = checkG at the two switch values extracted from the source"),
        ("Rl4co.Cvrptw.checkG_sound_repaired", P, "repaired clause: WITHOUT .int() acceptance ⇒ feasible (loads up to tol, windows exactly), all data"),
        ("Rl4co.Cvrptw.checkG_complete_repaired", P, "repaired clause: WITHOUT the row-0 read feasible ⇒ accepted, whatever the batch's first row"),
        ("Rl4co.Cvrptw.checkG_repaired_iff", P, "both repaired, tolerance 0: the checker decides the Spec exactly"),
        ("Rl4co.Cvrptw.check_complete", P, "static assertions hold ∧ Spec-feasible ⇒ checker accepts (the truncated clock never runs ahead)"),
        ("Rl4co.Cvrptw.check_sound_counterexample", P, "¬ check_sound_statement: arrival 13/8 at a deadline 12/8 is accepted (`.int()`)"),
        ("Rl4co.Cvrptw.checkStatic_boundary", P, "the static assertion admits equality and rejects one tick less (Params.cvrptwCheckStaticCmp)"),
        ("Rl4co.Cvrptw.check_row0_dependence", P, "the verdict on a feasible solution depends on the depot deadline of batch row 0"),
        ("Rl4co.Cvrptw.check_sound_partial", "partial", "on integral data (unit ∣ distances, window starts, durations) ∧ RetOK: accepted ⇒ "
         "feasible up to the load tolerance, windows exactly")),
    # ---------------------------------------------------------------- SDVRP
    ("C01", "sdvrp"): _T(["Rl4co.Props.C01.Sdvrp", "Rl4co.Props.C01.VrpVariantsSpec", "Rl4co.Props.C02.VrpVariantsExists"],
        ("Rl4co.Sdvrp.feasible_exists", P, "Spec sanity: cap > 0, demands ≥ 0 ⇒ a Spec-feasible solution exists"),
        ("Rl4co.Spec.Sdvrp.demand_nonneg_of_feasible", P, "Spec sanity: a feasible split exists only for non-negative demands"),
        ("Rl4co.Spec.Sdvrp.visited_of_feasible", P, "Spec sanity: a customer with positive demand must be visited"),
        ("Rl4co.Sdvrp.feasible_of_run", P, "cap ≥ 0, demands ≥ 0 (also > cap) ⇒ every finished mask-confined episode has a valid split"),
        ("Rl4co.Sdvrp.delivered_eq", P, "delivered = min(remaining, cap − used) — holds because of the extracted source shape "
         "(Params.sdvrpStepDeliverIsMin, sdvrpStepFreeIsCapMinusUsed)"),
        ("Rl4co.Sdvrp.step_used", P, "load update (used + delivered)·[a ≠ 0] (Params.sdvrpStepDepotCmp)"),
        ("Rl4co.Sdvrp.greedyFeasible_of_run", P, "… namely the greedy split the environment performs"),
        ("Rl4co.Spec.Sdvrp.feasible_of_greedy", P, "the executable oracle (greedy replay valid) implies the existential Spec")),
    ("C02", "sdvrp"): _T(["Rl4co.Props.C02.Sdvrp", "Rl4co.Props.C02.VrpVariantsExists"],
        ("Rl4co.Sdvrp.exists_complete_run", P, "cap > 0, demands ≥ 0 ⇒ a finished mask-confined episode exists"),
        ("Rl4co.Sdvrp.mask_nonempty", P, "every state offers an action"),
        ("Rl4co.Sdvrp.done_stable", P, "done is absorbing along reachable states"),
        ("Rl4co.Sdvrp.steps_le", P, "cap > 0, demands ≥ 0 ⇒ an unfinished mask-confined run has at most 2(n + ⌊Σdemand/cap⌋) + 1 steps")),
    ("C03", "sdvrp"): _T("Rl4co.Props.C03.Sdvrp",
        ("Rl4co.Sdvrp.reward_eq_objective", P, "reward = −(sum of closed route lengths) for every action list when D 0 0 = 0")),
    ("C04", "sdvrp"): _T("Rl4co.Props.C04.Sdvrp",
        ("Rl4co.Sdvrp.pad_noop", P, "a depot padding step of a finished reachable state changes neither done, mask, remaining demands nor reward")),
    ("C05", "sdvrp"): _T(["Rl4co.Props.C05.Sdvrp", "Rl4co.Props.C05.SdvrpClass", "Rl4co.Props.C05.SdvrpSplit"],
        ("Rl4co.Sdvrp.saturating_iff_greedy", P, "a split is saturating (every visit completes the customer or fills the vehicle) iff its amounts are the greedy ones"),
        ("Rl4co.Sdvrp.split_reachable_iff", P, "among the valid splits of the Spec the mask reaches exactly the saturating ones in canonical shape (iff)"),
        ("Rl4co.Sdvrp.complete_iff", P, "finished runs of the decoding loop = exactly the non-empty greedy-feasible canonical visit "
         "sequences ending with a customer (iff)"),
        ("Rl4co.Sdvrp.best_through_mask_eq_greedy_optimum", P, "∃/∀ form of: best reward through the mask = −min objective over that class"),
        ("Rl4co.Sdvrp.run_of_feasible", P, "relative to the greedy split: every non-empty canonical visit sequence whose greedy split "
         "is valid is a finished mask-confined run (equality cases included)")),
    ("C06", "sdvrp"): _T("Rl4co.Props.C06.Sdvrp",
        ("Rl4co.Sdvrp.check_sound", P, "checker accepts ⇒ Spec-feasible (exactly; the checker has no tolerance)"),
        ("Rl4co.Sdvrp.check_of_run", "partial", "a finished mask-confined episode that contains a depot visit is accepted"),
        ("Rl4co.Sdvrp.check_complete_counterexample", P, "¬ check_complete_statement: the finished episode [1] (no depot visit) is rejected"),
        ("Rl4co.Sdvrp.check_rejects_double_depot", P, "a feasible solution with an empty route in the middle is rejected"),
        ("Rl4co.Sdvrp.check_rejects_nongreedy", P, "a sequence feasible only with a non-greedy split is rejected")),
    # ---------------------------------------------------------------- SVRP
    ("C01", "svrp"): _T(["Rl4co.Props.C01.Svrp", "Rl4co.Props.C01.VrpVariantsSpec", "Rl4co.Props.C02.VrpVariantsExists"],
        ("Rl4co.Svrp.feasible_exists", P, "Spec sanity: every WF instance has a Spec-feasible solution"),
        ("Rl4co.Spec.Svrp.feasible_mono", P, "Spec sanity: raising technician levels preserves feasibility"),
        ("Rl4co.Svrp.mask_eq", P, "the model's mask has the reference shape (last technician ⇔ tech == T − 1) — holds because of the "
         "extracted Params.svrpMaskLastCmp / svrpMaskLastOffset"),
        ("Rl4co.Svrp.step_eq", P, "the model's step increments the technician exactly on depot visits (Params.svrpStepDepotCmp)"),
        ("Rl4co.Svrp.feasible_of_run", P, "WF (T ≥ 1, last technician covers every customer) ⇒ every finished mask-confined episode is "
         "Spec-feasible (once each; route k by technician k < T with sufficient level)")),
    ("C02", "svrp"): _T(["Rl4co.Props.C02.Svrp", "Rl4co.Props.C02.SvrpGen", "Rl4co.Props.C02.VrpVariantsExists"],
        ("Rl4co.Svrp.exists_complete_run", P, "every WF instance has a finished mask-confined episode"),
        ("Rl4co.Svrp.two_n_plus_one_fails", P, "the text's generic bound 2n+1 is false for SVRP with > n+2 technicians: n = 1, T = 4, the only episode [0,0,0,1] has 4 steps"),
        ("Rl4co.Svrp.gen_wf_svrp", P, "generator post-condition (C18 svrp_skill_le_best: skill = max(techs)·u ≤ best level = last level) ⇒ WF"),
        ("Rl4co.Svrp.gen_steps_le", P, "… hence the step bound on generated instances"),
        ("Rl4co.Svrp.gen_tech_lt", P, "… and no technician-index overflow inside a batch loop on generated instances"),
        ("Rl4co.Svrp.mask_nonempty", P, "every state of the model offers an action"),
        ("Rl4co.Svrp.done_stable", P, "done is absorbing"),
        ("Rl4co.Svrp.steps_le", P, "WF ⇒ an unfinished mask-confined run has at most n + max(T−1, 1) steps"),
        ("Rl4co.Svrp.steps_le_two_n_plus_one", P, "… hence ≤ 2n+1 when T ≤ n+2"),
        ("Rl4co.Svrp.tech_lt_of_run", P, "WF ⇒ along any mask-confined run of ≤ n+T−1 steps (padding included) current_tech < T: "
         "no index overflow inside a batch loop"),
        ("Rl4co.Svrp.single_technician_overflow", P, "T = 1: every finished episode ends in a state whose mask computation indexes techs[1]")),
    ("C03", "svrp"): _T(["Rl4co.Props.C03.Svrp", "Rl4co.Props.C03.SvrpBatch", "Rl4co.Props.C01.VrpVariantsSpec"],
        ("Rl4co.Spec.Svrp.objective_const_costs", P, "Spec sanity: with equal cost factors the objective is that factor times the total route length"),
        ("Rl4co.Svrp.costsBatch_eq_costRow", P, "the cost table built by the BATCHED Python loop (flat loop over nonzero(actions == 0), "
         "both flush statements as extracted) equals, row by row, the per-instance cost row — any batch size / composition"),
        ("Rl4co.Svrp.reward_eq_objective", P, "reward = −Σ_k cost_k · closed length of route k, for every action list when D 0 0 = 0")),
    ("C04", "svrp"): _T(["Rl4co.Props.C04.Svrp", "Rl4co.Props.C03.SvrpBatch"],
        ("Rl4co.Svrp.costsBatch_eq_rows", P, "batched cost table = per-row cost rows whenever every row contains a depot visit: the reward of a "
         "row does not depend on its batch-mates or its position"),
        ("Rl4co.Svrp.pad_noop", P, "a depot padding step after done changes neither done, mask nor reward although current_tech is incremented")),
    ("C05", "svrp"): _T(["Rl4co.Props.C05.Svrp", "Rl4co.Props.C05.SvrpClass"],
        ("Rl4co.Svrp.complete_iff", P, "finished runs of the decoding loop = exactly the feasible, canonical (no able technician stays "
         "at home), tight solutions (iff)"),
        ("Rl4co.Svrp.best_through_mask_eq_canonical_optimum", P, "∃/∀ form of: best reward through the mask = −min objective over the canonical feasible solutions"),
        ("Rl4co.Svrp.run_of_feasible", P, "every Spec-feasible solution with a depot visit in which a technician stays at home only "
         "when he can serve nothing that is left is a finished mask-confined run"),
        ("Rl4co.Svrp.canonical_iff", P, "the executable canonicity test the harness uses to attribute a blocked solution to the known "
         "pruning decides `Canonical`"),
        ("Rl4co.Svrp.run_of_feasible_counterexample", P, "¬ statement without that clause: [0,1,2] is feasible, its first move is masked"),
        ("Rl4co.Svrp.skipped_technician_better", P, "… and strictly better (24 < 32) than everything the mask admits on that instance")),
    ("C06", "svrp"): _T("Rl4co.Props.C06.Svrp",
        ("Rl4co.Svrp.check_sound_counterexample", P, "¬ check_sound_statement: [1,2] with customer 2 beyond technician 0 is accepted"),
        ("Rl4co.Svrp.check_sound_partial", "partial", "accepted ⇒ feasible except for the open last route (Spec.feasibleClosed)"),
        ("Rl4co.Svrp.check_sound_closed", "partial", "accepted and ending with a depot visit ⇒ feasible"),
        ("Rl4co.Svrp.check_complete_partial", "partial", "feasible with at most T depot visits ⇒ accepted"),
        ("Rl4co.Svrp.check_complete_counterexample", P, "¬ check_complete_statement: [1,0,0] with T = 1 is feasible, the checker indexes techs[1]")),
}


VARIANT_NOTE = {
    "cvrptw": "env-level option vehicle_capacity ∈ {1.0, 0.5, 2.0} (model parameter `cap`), coordinates in scaled / shifted boxes, "
              "times in eighths / integers / inside [0,1] / thousands, depot duration and window start ≠ 0, n up to 51; generator "
              "options max_time / scale / max_loc / demand range only enter through generated data and are covered by a float32 "
              "generator stream judged one-sidedly by the Lean Spec (slack 2^-12), not by the bit-exact correspondence",
    "sdvrp": "env-level option vehicle_capacity ∈ {1.0, 0.5, 2.0} (model parameter `cap`), demands above the capacity, "
             "coordinates in scaled / shifted boxes, n up to 51",
    "svrp": "env-level option tech_costs: 11 cost vectors of 2–6 technicians (non-monotone, zeros, large, non-integer dyadic), "
            "levels/skills at two magnitudes, scaled / shifted boxes, n up to 51; generator options min_skill / max_skill / "
            "tech_costs / max_loc through a float32 generator stream whose mask trace is compared exactly (the mask only compares)",
}
SCOPE = {
    ("C01", "cvrptw"): "Spec requires every route (also the last, implicit one) to be back at the depot within the depot's window; "
                       "RetOK (guaranteed by the bundled generator) is a hypothesis of the theorem, instances of the harness satisfy it",
    ("C02", "cvrptw"): "WF is stronger than the precondition the code asserts (window START): see dead_end_example; harness instances satisfy WF",
    ("C02", "svrp"): "SVRP's step bound is n + max(T−1, 1) (one depot step per technician sent home), which is ≤ 2n+1 only for T ≤ n+2; "
                     "the harness checks the sharper bound; post-finish padding beyond the batch loop is not exercised (the real env raises)",
    ("C04", "svrp"): "no extra padding after the whole batch is done (the real env raises once current_tech reaches T, cf. C02 tech_lt_of_run)",
    ("C05", "sdvrp"): "completeness relative to the greedy split the library prescribes; that the optimum over ALL valid splits is attained by a "
                      "greedy-canonical sequence is only sampled (n ≤ 3, harness-side Gale/Hall feasibility oracle, unverified)",
    ("C05", "svrp"): "canonical = no technician stays at home while he could serve a remaining customer; without it the property is false (known finding)",
    ("C06", "cvrptw"): "checker verdicts on solo instances (batch row 0 = the instance) plus a two-row probe for the row-0 depot-deadline read",
    ("C06", "sdvrp"): "Spec oracle = greedy replay, or an explicit split witness validated by Lean for the non-greedy case",
}


def _unit(prop, fam, run):
    mod, thms = THEOREMS.get((prop, fam), (None, []))
    extra = [SCOPE[(prop, fam)]] if (prop, fam) in SCOPE else []
    mods = list(mod) if isinstance(mod, (list, tuple)) else ([mod] if mod else [])
    register(Unit(prop, fam, run, drivers=["drv_" + fam], lean_modules=mods,
                  theorems=thms, assumptions=[NOTE[fam], VARIANT_NOTE[fam]] + extra + ([] if thms else [NOTHM])))


# =================================================================================================
# generator streams: the bundled generators with NON-DEFAULT options (float32 data, not dyadic by design)
# =================================================================================================
GK = 48  # generator-stream tick = 2^-48: every float32 value of magnitude >= 2^-24 is an integer number of ticks


def _gt(x) -> int:
    """float (exactly a dyadic rational) -> ticks of 2^-GK, rounded only for values below 2^-24"""
    from fractions import Fraction

    return int(round(Fraction(float(x)) * (1 << GK)))


CVRPTW_GEN = [dict(), dict(scale=True), dict(max_time=240, max_loc=60.0), dict(max_time=1000, max_loc=300.0),
              dict(scale=True, max_time=1000, max_loc=300.0), dict(vehicle_capacity=2.0), dict(vehicle_capacity=0.5),
              dict(min_demand=3, max_demand=5), dict(capacity=12.0)]


def cvrptw_generator_stream(ctx, what: str):
    """Instances drawn from CVRPTWGenerator with non-default `max_time` / `scale` / `max_loc` /
    `vehicle_capacity` / demand options, episodes through the real mask.  The float32 inputs (and the float32
    distance matrix torch computes from them) are handed to the Lean Spec as exact rationals; because the env
    accumulates in float32 the oracle is one-sided with a relative slack of 2^-12: the episode must be feasible
    for deadlines and capacity relaxed by that slack (C01), finish within 2n+1 steps without dead ends on
    instances satisfying the theorem's WF (C02), and report the Spec objective up to n·2^-18 relative (C03)."""
    from rl4co.envs.routing.cvrptw.env import CVRPTWEnv

    for g in range(ctx.budget(27, 180)):
        var = CVRPTW_GEN[g % len(CVRPTW_GEN)]
        n = ctx.rng.choice([5, 10, 20, 50])
        B = ctx.rng.choice([1, 2, 4])
        env = CVRPTWEnv(generator_params=dict(num_loc=n, **var), check_solution=False)
        torch.manual_seed(ctx.rng.randrange(1 << 31))
        td0 = env.generator([B])
        Q = float(var.get("vehicle_capacity", 1.0))
        tdr = env.reset(td0.clone())
        locs = tdr["locs"]
        Dm = (locs[:, :, None, :] - locs[:, None, :, :]).norm(p=2, dim=-1)
        tw, du, dem = tdr["time_windows"].float(), tdr["durations"].float(), tdr["demand"]
        # the theorem's well-formedness (C18 is about the generator meeting it; here it only selects the cases)
        wf = bool(((Dm[:, 0, 1:] <= tw[:, 1:, 1]) & (tw[:, 1:, 1] + du[:, 1:] + Dm[:, 1:, 0] <= tw[:, 0:1, 1])).all()) \
            and bool((dem <= Q).all())
        ctx.count("cvrptw.generator." + (",".join(f"{k}={v}" for k, v in sorted(var.items())) or "default"))
        if not wf:
            ctx.count("cvrptw.generator.not-WF-skipped")
            continue
        try:
            ep = rl.run_episode(env, td0, envcorr.uniform_chooser(ctx.rng), max_steps=20 * (n + 2) + 50)
        except RuntimeError as e:
            if what == "C02":
                vc.viol(ctx, "cvrptw:no-termination:generator-stream", f"real env: {e}", {"generator_params": var, "n": n})
            continue
        if what == "C02":
            for (r, t) in ep.empty_mask_rows:
                vc.viol(ctx, "cvrptw:dead-end:generator-stream", "a row is offered no action while the batch is running",
                        {"generator_params": var, "n": n, "row": r, "step": t, "actions": ep.actions[r]})
            for r in range(B):
                d = ep.done[r]
                fd = d.index(1) if 1 in d else None
                ctx.case(("cvrptw-gen", repr(var), n, tuple(ep.actions[r])))
                if fd is None or fd > 2 * n + 1:
                    vc.viol(ctx, "cvrptw:step-bound:generator-stream", f"row needed {fd} steps, bound {2 * n + 1}",
                            {"generator_params": var, "n": n, "actions": ep.actions[r]})
                if any(d[k] == 1 and d[k + 1] == 0 for k in range(len(d) - 1)):
                    vc.viol(ctx, "cvrptw:done-unstable:generator-stream", "a finished row became unfinished",
                            {"generator_params": var, "n": n, "actions": ep.actions[r]})
            continue
        if ep.empty_mask_rows:
            continue
        real = env._get_reward(ep.td, rl.actions_tensor(ep)).flatten().tolist() if what == "C03" else None
        lines = []
        for r in range(B):
            M = float(tw[r, 0, 1])
            eps = _gt(M) >> 12
            cap = _gt(Q)
            lines.append(
                f"cvrptw.check {n} {cap + (cap >> 12)} 0 {1 << GK} {_gt(M) + eps} | " + _join(_gt(v) for v in dem[r].tolist())
                + " | " + _join(_gt(v) for v in tw[r, :, 0].tolist()) + " | " + _join(_gt(v) + eps for v in tw[r, :, 1].tolist())
                + " | " + _join(_gt(v) for v in du[r].tolist()) + " | " + _join(_gt(v) for v in Dm[r].flatten().tolist())
                + " | " + _join(ep.actions[r]))
        if what == "C03":
            lines = [ln.replace("cvrptw.check", "cvrptw.episode", 1) for ln in lines]
        fs = [parse_fields(x) for x in vc.ask(ctx, lines)]
        for r in range(B):
            ctx.case(("cvrptw-gen", repr(var), n, tuple(ep.actions[r])))
            wit = {"generator_params": var, "n": n, "torch_seed_row": r, "actions": ep.actions[r],
                   "time_windows": tw[r].tolist(), "durations": du[r].tolist(), "demand": dem[r].tolist(),
                   "locs": locs[r].tolist()}
            if what == "C01" and fs[r].get("feas") != "1":
                vc.viol(ctx, "cvrptw:infeasible-episode:generator-stream",
                        "mask-confined episode on a generated instance is infeasible by the Lean Spec even with "
                        "deadlines and capacity relaxed by 2^-12", wit)
            if what == "C03":
                obj = int(fs[r]["obj"]) / (1 << GK)
                if abs(-obj - real[r]) > max(1.0, obj) * (n + 2) * 2 ** -18:
                    vc.viol(ctx, "cvrptw:reward-ne-objective:generator-stream",
                            "reward differs from the Spec objective beyond float32 accumulation error",
                            dict(wit, reward=real[r], spec_objective=obj))
            ctx.sample({"env": "cvrptw", "stream": "generator", "generator_params": var, "n": n,
                        "actions": ep.actions[r], "spec_feasible_relaxed": fs[r].get("feas"), "spec_obj": fs[r].get("obj")}, cap=5)


SVRP_GEN = [dict(), dict(min_skill=0.5, max_skill=2.0), dict(tech_costs=[1, 5]), dict(min_skill=3.0, max_skill=3.0),
            dict(tech_costs=[2, 1, 1, 7], max_loc=10.0), dict(min_skill=100.0, max_skill=1000.0, tech_costs=[1, 2])]


def svrp_generator_stream(ctx, what: str):
    """Instances drawn from SVRPGenerator with non-default `min_skill` / `max_skill` / `tech_costs` / `max_loc`.
    The SVRP mask only COMPARES skills with technician levels, so the float32 data are handed to the Lean model
    as exact rationals and the mask / done trace is compared bit for bit; the Spec judges the episode; the reward
    is compared with the Spec objective up to float32 accumulation error."""
    from rl4co.envs.routing.svrp.env import SVRPEnv

    for g in range(ctx.budget(24, 180)):
        var = SVRP_GEN[g % len(SVRP_GEN)]
        n = ctx.rng.choice([3, 5, 10, 20, 50])
        B = ctx.rng.choice([1, 2, 4])
        env = SVRPEnv(generator_params=dict(num_loc=n, **var), check_solution=False)
        torch.manual_seed(ctx.rng.randrange(1 << 31))
        td0 = env.generator([B])
        costs = [int(c) for c in env.tech_costs.tolist()]
        T = len(costs)
        ctx.count("svrp.generator." + (",".join(f"{k}={v}" for k, v in sorted(var.items())) or "default"))
        try:
            ep = rl.run_episode(env, td0, envcorr.uniform_chooser(ctx.rng), max_steps=20 * (n + 2) + 50)
        except RuntimeError as e:
            vc.viol(ctx, "svrp:env-raised:generator-stream", f"real env: {e}", {"generator_params": var, "n": n})
            continue
        tdr = env.reset(td0.clone())
        locs = tdr["locs"]
        Dm = (locs[:, :, None, :] - locs[:, None, :, :]).norm(p=2, dim=-1)
        real = env._get_reward(ep.td, rl.actions_tensor(ep)).flatten().tolist()
        lines = [f"svrp.episode {n} {T} | " + _join(_gt(v) for v in td0["techs"][r].flatten().tolist()) + " | "
                 + _join(_gt(v) for v in td0["skills"][r].flatten().tolist()) + " | " + _join(costs) + " | "
                 + _join(_gt(v) for v in Dm[r].flatten().tolist()) + " | " + _join(ep.actions[r]) for r in range(B)]
        replies = vc.ask(ctx, lines)
        for r in range(B):
            inst = {"kind": "generator", "n": n, "generator_params": var, "techs": td0["techs"][r].flatten().tolist(),
                    "skills": td0["skills"][r].flatten().tolist(), "costs": costs}
            f = envcorr.compare_trace(ctx, SV, inst, ep.actions[r], ep.masks[r], ep.done[r], replies[r],
                                      f"{what} generator stream", trace=what in ("C01", "C02"))
            ctx.case(("svrp-gen", repr(var), n, tuple(ep.actions[r])))
            d = ep.done[r]
            fd = d.index(1) if 1 in d else None
            if what == "C01" and f.get("feas") != "1" and not ep.empty_mask_rows:
                vc.viol(ctx, "svrp:infeasible-episode:generator-stream",
                        "mask-confined episode on a generated instance is infeasible by the Lean Spec",
                        {"inst": inst, "actions": ep.actions[r]})
            if what == "C02":
                for (rr, t) in ep.empty_mask_rows:
                    if rr == r:
                        vc.viol(ctx, "svrp:dead-end:generator-stream", "a row is offered no action",
                                {"inst": inst, "actions": ep.actions[r], "step": t})
                if fd is None or fd > n + max(T - 1, 1):
                    vc.viol(ctx, "svrp:step-bound:generator-stream", f"row needed {fd} steps, bound {n + max(T - 1, 1)}",
                            {"inst": inst, "actions": ep.actions[r]})
            if what == "C03" and "obj" in f:
                obj = int(f["obj"]) / (1 << GK)
                if abs(-obj - real[r]) > max(1.0, obj) * (n + 2) * 2 ** -18:
                    vc.viol(ctx, "svrp:reward-ne-objective:generator-stream",
                            "reward differs from the Spec objective beyond float32 accumulation error",
                            {"inst": inst, "actions": ep.actions[r], "reward": real[r], "spec_objective": obj})
            ctx.sample({"env": "svrp", "stream": "generator", "inst": inst, "actions": ep.actions[r],
                        "spec_feasible": f.get("feas"), "reward": real[r]}, cap=5)


# =================================================================================================
# loaded streams: instances that reach the env through its documented loaders
# =================================================================================================
class _PreReset:
    """env wrapper whose `reset` returns an already prepared reset state (used for `extract_from_solomon`, which
    resets internally)"""

    def __init__(self, env, td):
        self.env, self.td = env, td

    def reset(self, td):
        return self.td

    def step(self, td):
        return self.env.step(td)


def _episode_rows(ctx, ad, what, insts, ep, tag):
    """model trace + Spec verdict for the rows of one loaded episode (C01), termination facts (C02)"""
    B = len(insts)
    lines = [ad.line("episode", insts[r], ep.actions[r]) for r in range(B)]
    replies = vc.ask(ctx, lines)
    for r in range(B):
        f = envcorr.compare_trace(ctx, ad, insts[r], ep.actions[r], ep.masks[r], ep.done[r], replies[r], f"{what} {tag}")
        ctx.case((ad.name, tag, repr(insts[r]), tuple(ep.actions[r])))
        ctx.count(f"{ad.name}.{tag}.rows")
        if what == "C01" and f.get("feas") == "0" and not ep.empty_mask_rows:
            vc.viol(ctx, f"{ad.name}:infeasible-episode:{tag}",
                    "mask-confined episode on a LOADED instance is infeasible by the Lean Spec (judged on the file's own data)",
                    {"inst": insts[r], "actions": ep.actions[r], "lean_line": lines[r]})
        if what == "C02":
            d = ep.done[r]
            fd = d.index(1) if 1 in d else None
            bound = ad.step_bound(insts[r])
            if fd is None or fd > bound:
                vc.viol(ctx, f"{ad.name}:step-bound:{tag}", f"row needed {fd} steps, bound is {bound}",
                        {"inst": insts[r], "actions": ep.actions[r]})
        ctx.sample({"env": ad.name, "stream": tag, "inst": insts[r], "actions": ep.actions[r],
                    "spec_feasible": f.get("feas")}, cap=5)
    if what == "C02":
        for (r, t) in ep.empty_mask_rows:
            vc.viol(ctx, f"{ad.name}:dead-end:{tag}", "a row is offered no action while the batch is running",
                    {"inst": insts[r], "actions": ep.actions[r], "step": t})


def sdvrp_loaded_stream(ctx, what: str):
    """`CVRPEnv.load_data` (inherited by SDVRPEnv) is the documented way to feed dataset files: raw integer demands
    plus a per-instance `capacity` column, normalised on loading.  Files whose instances have DIFFERENT capacities
    (merged datasets) are written with numpy, loaded through `SDVRPEnv.load_data`, driven through the mask and
    judged by the Lean Spec on the file's own data (demand_j / capacity of that instance)."""
    import numpy as np
    import tempfile

    from rl4co.envs.routing.sdvrp.env import SDVRPEnv

    ad = SD
    env = ad.env_for({})
    for g in range(ctx.budget(12, 100)):
        n = ctx.rng.choice([2, 3, 5, 8, 20])
        B = ctx.rng.choice([2, 3, 4, 6])
        insts = [ad.gen_instance(ctx.rng, n, ctx.rng.choice(ad.kinds())) for _ in range(B)]
        caps = [16, 4, 8, 32]
        for r, inst in enumerate(insts):  # distinct capacities inside one file; keep the demand/capacity ratios dyadic
            k = caps[(r + g) % len(caps)]
            inst["demand"] = [max(1, d * k // inst["C"]) for d in inst["demand"]]
            inst["C"] = k
        td = ad.to_td(insts)
        with tempfile.TemporaryDirectory(prefix="sdvrp_load_") as tmp:
            path = os.path.join(tmp, "data.npz")
            np.savez(path, locs=td["locs"].numpy(), depot=td["depot"].numpy(),
                     demand=np.array([i["demand"] for i in insts], dtype=np.float32),
                     capacity=np.array([i["C"] for i in insts], dtype=np.float32))
            td0 = SDVRPEnv.load_data(path)
        ctx.count("sdvrp.loaded.files")
        try:
            ep = rl.run_episode(env, td0, envcorr.uniform_chooser(ctx.rng), max_steps=40 * (n + 2) + 50)
        except RuntimeError as e:
            if what == "C02":
                vc.viol(ctx, "sdvrp:no-termination:loaded", f"real env: {e}", {"insts": insts})
            continue
        _episode_rows(ctx, ad, what, insts, ep, "loaded")


def cvrptw_solomon_stream(ctx, what: str):
    """`CVRPTWEnv.extract_from_solomon` is the documented way to feed Solomon-format instances: integer coordinates,
    raw demands with a capacity, integer time windows and POSITIVE service times.  Instances of that shape are built
    on integral point sets, passed through `extract_from_solomon` of an env whose generator carries the instance's
    capacity, driven through the mask and judged by the Lean Spec.  With the default env (`vehicle_capacity` = 1.0)
    the loader leaves the raw demands against capacity 1.0 (it stores the capacity in an attribute nobody reads)."""
    import numpy as np

    from rl4co.envs.routing.cvrptw.env import CVRPTWEnv

    ad = TW
    for g in range(ctx.budget(12, 100)):
        n = ctx.rng.choice([2, 3, 5, 8, 20])
        inst = ad.gen_instance(ctx.rng, n, "integral")
        inst["dur"] = [0] + [max(1, v) for v in inst["dur"][1:]]  # Solomon instances have positive service times
        D = geom.dist_matrix(inst["pts"])
        inst["twE"][0] = max([1] + [inst["twE"][j] + inst["dur"][j] + D[j][0] for j in range(1, n + 1)]) + ctx.rng.choice([0, 5])
        inst["twS"][0], inst["dur"][0] = 0, 0
        C = inst["C"]
        inst["Q"] = float(C)  # raw demands against the raw capacity
        sol = {"node_coord": np.array(inst["pts"], dtype=np.float64), "demand": np.array([0] + inst["demand"]),
               "capacity": C, "service_time": np.array(inst["dur"]),
               "time_window": np.array(list(zip(inst["twS"], inst["twE"])))}
        inst["kind"] = "solomon"
        env = CVRPTWEnv(generator_params=dict(num_loc=n, vehicle_capacity=float(C)), check_solution=False)
        td = env.extract_from_solomon(sol, batch_size=1)
        ctx.count("cvrptw.solomon.instances")
        try:
            ep = rl.run_episode(_PreReset(env, td), td, envcorr.uniform_chooser(ctx.rng), max_steps=40 * (n + 2) + 50)
        except RuntimeError as e:
            if what == "C02":
                vc.viol(ctx, "cvrptw:no-termination:solomon", f"real env: {e}", {"inst": inst})
            continue
        _episode_rows(ctx, ad, what, [inst], ep, "solomon")
        if what == "C02" and g < 3:
            # the same instance through an env left at its default capacity
            env1 = CVRPTWEnv(generator_params=dict(num_loc=n), check_solution=False)
            td1 = env1.extract_from_solomon(sol, batch_size=1)
            try:
                rl.run_episode(_PreReset(env1, td1), td1, envcorr.uniform_chooser(ctx.rng), max_steps=10 * (n + 2))
            except RuntimeError as e:
                i1 = dict(inst, Q=1.0, C=1, kind="solomon/default-env")
                # explained by the ignored capacity iff some raw demand exceeds the capacity 1.0 the env uses
                # (Lean: Rl4co.Cvrptw.never_done_of_oversized)
                known = max(inst["demand"]) > 1
                vc.viol(ctx, "cvrptw:no-termination:solomon-capacity-ignored" if known else "cvrptw:no-termination:solomon",
                        "extract_from_solomon on an env with the default vehicle_capacity: raw demands exceed capacity 1.0, only the "
                        "depot is ever offered and the episode never finishes", {"inst": i1, "error": str(e)[:120]})


# ---- family-specific extra probes ----------------------------------------------------------------
def svrp_single_technician_probe(ctx):
    """C02 on the configuration `tech_costs` of length 1 (one technician): the episode's last step (return
    to the depot) makes `get_action_mask` index `techs[1]`."""
    ad = SV
    for n in (1, 2, 3):
        inst = ad.gen_instance(ctx.rng, n, "random", costs=(2,))
        env = ad.env_for({"costs": (2,)})
        td0 = ad.to_td([inst])
        ctx.count("svrp.single-technician-episodes")
        ctx.sample({"env": "svrp", "probe": "single technician", "inst": inst}, cap=6)
        try:
            ep = rl.run_episode(env, td0, envcorr.uniform_chooser(ctx.rng), max_steps=50)
            rep = parse_fields(ctx.driver.ask(ad.line("episode", inst, ep.actions[0])))
            if rep.get("ovf", "-1") != "-1":
                ctx.disagreement("svrp: model predicts a technician-index overflow, real env did not raise",
                                 {"inst": inst, "actions": ep.actions[0]})
        except (RuntimeError, IndexError) as e:
            acts = list(range(1, n + 1)) + [0]
            rep = parse_fields(ctx.driver.ask(ad.line("episode", inst, acts)))
            if rep.get("ovf", "-1") == "-1":
                ctx.disagreement("svrp: real env raised, model predicts no technician-index overflow",
                                 {"inst": inst, "error": str(e)[:200]})
            known = ("out of bounds" in str(e) and rep.get("ovf", "-1") != "-1")
            vc.viol(ctx, "svrp:crash-single-technician" if known else "svrp:env-raised",
                          "with one technician the step that finishes the episode raises (techs index out of range)",
                          {"inst": inst, "error": str(e)[:200], "model_overflow_at_step": rep.get("ovf")})


def cvrptw_checker_row0_probe(ctx):
    """C06, batched call of the checker: the static assertion `tw_start + dist + duration <= depot deadline`
    reads the depot deadline of BATCH ROW 0 for every row.  Two instances with different depot deadlines,
    each with its own mask-generated (hence feasible) solution, checked together in both orders."""
    ad = TW
    for _ in range(ctx.budget(4, 40)):
        env, var = envcorr.pick_env(ctx, ad)
        n = ctx.rng.choice([2, 3, 5])
        A = ad.gen_instance(ctx.rng, n, "random", **var)
        B = dict(ad.gen_instance(ctx.rng, n, "random", **var))
        B["twE"], B["twS"] = list(B["twE"]), list(B["twS"])
        DB = geom.dist_matrix(B["pts"])
        eA = A["twE"][0]
        j = ctx.rng.randint(1, n)
        need = eA + 1 - (DB[0][j] + B["dur"][j])  # window start that makes row B fail against A's depot deadline
        if need > B["twS"][j]:
            B["twS"][j] = need
            B["twE"][j] = max(B["twE"][j], need + 1)
        B["twE"][0] = max([1] + [B["twE"][k] + B["dur"][k] + DB[k][0] for k in range(1, n + 1)]) + 1
        B["kind"] = "random/late-depot-deadline"
        sols = []
        try:
            for inst in (A, B):
                _, ep = envcorr.run_batch(ctx, ad, env, [inst])
                sols.append(ep.actions[0])
        except envcorr.EpisodeFailed:
            continue
        L = max(len(x) for x in sols)
        sols = [x + [0] * (L - len(x)) for x in sols]
        for order in ((0, 1), (1, 0)):
            insts = [(A, B)[k] for k in order]
            acts = [sols[k] for k in order]
            td = env.reset(ad.to_td(insts))
            try:
                env.check_solution_validity(td, torch.tensor(acts, dtype=torch.long))
                real = True
            except AssertionError:
                real = False
            e0 = insts[0]["twE"][0] * insts[0]["S"] * 1024
            fs = [parse_fields(x) for x in ctx.driver.ask_many(
                [ad.line("check", dict(i, e0_ticks=e0), a) for i, a in zip(insts, acts)])]
            model = all(f.get("check") == "1" for f in fs)
            ctx.case(("cvrptw-row0", repr(insts), tuple(map(tuple, acts))))
            ctx.count(f"cvrptw.row0-probe.{'accepted' if real else 'rejected'}")
            ctx.sample({"env": "cvrptw", "probe": "batched checker, two depot deadlines", "insts": insts, "actions": acts,
                        "real_batch_accepts": real, "model_rows": [f.get("check") for f in fs]}, cap=6)
            if model != real:
                ctx.disagreement("cvrptw: batched checker model (row-0 depot deadline) differs from the real checker",
                                 {"insts": insts, "actions": acts, "real": real, "model": [f.get("check") for f in fs]})
            if all(f.get("feas") == "1" for f in fs) and not real:
                # explained by the row-0 read only if the modelled checker rejects with row 0's deadline and
                # accepts every row with the row's own deadline (`checkown`)
                known = (not model) and all(f.get("checkown") == "1" for f in fs)
                vc.viol(ctx, "cvrptw:checker-rejects-feasible:row0-depot-deadline" if known
                        else "cvrptw:checker-rejects-feasible:batched",
                              "batched checker rejects feasible solutions: a row is tested against row 0's depot deadline",
                              {"insts": insts, "actions": acts, "row0_depot_deadline": e0})


def cvrptw_checker(ctx):
    vc.check_checker(ctx, TW)
    cvrptw_checker_row0_probe(ctx)


def svrp_termination(ctx):
    vc.check_termination(ctx, SV)
    svrp_single_technician_probe(ctx)


GEN_STREAM = {"cvrptw": cvrptw_generator_stream, "svrp": svrp_generator_stream}
LOADED_STREAM = {"sdvrp": sdvrp_loaded_stream, "cvrptw": cvrptw_solomon_stream}


def _with_stream(fam, prop, base):
    def run(ctx):
        base(ctx)
        if fam in GEN_STREAM:
            GEN_STREAM[fam](ctx, prop)
        if prop in ("C01", "C02") and fam in LOADED_STREAM:
            LOADED_STREAM[fam](ctx, prop)
    return run


for _fam, _ad in (("cvrptw", TW), ("sdvrp", SD), ("svrp", SV)):
    _unit("C01", _fam, _with_stream(_fam, "C01", lambda ctx, ad=_ad: vc.check_feasibility(ctx, ad)))
    _unit("C02", _fam, _with_stream(_fam, "C02", svrp_termination if _fam == "svrp" else (lambda ctx, ad=_ad: vc.check_termination(ctx, ad))))
    _unit("C03", _fam, _with_stream(_fam, "C03", lambda ctx, ad=_ad: vc.check_reward(ctx, ad)))
    _unit("C04", _fam, lambda ctx, ad=_ad: vc.check_batch_independence(ctx, ad))
    _unit("C05", _fam, lambda ctx, ad=_ad: vc.check_completeness(ctx, ad))
    _unit("C06", _fam, (cvrptw_checker if _fam == "cvrptw" else (lambda ctx, ad=_ad: vc.check_checker(ctx, ad))))
