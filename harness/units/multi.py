"""Multi-agent routing units (C01–C05): real `MTSPEnv` / `MDCPDPEnv` vs the `Rl4co.Mtsp` / `Rl4co.Mdcpdp`
models vs the independent specs `Rl4co.Spec.Mtsp` / `Rl4co.Spec.Mdcpdp`."""
from __future__ import annotations

import itertools
import os
from typing import List

import envcorr
import geom
import multi_common as mc
import rl
from common import LEAN_DIR, Theorem, Unit, register
from leanio import parse_fields
from rl import TensorDict, torch


def _has(path: str) -> bool:
    return os.path.exists(os.path.join(LEAN_DIR, path))


# =================================================================================================
# mTSP
# =================================================================================================
class MtspEnvs:
    """`MTSPEnv._reset` sizes the mask from `generator.num_loc`, so one real env per instance size is
    constructed (exactly what a user does through `generator_params`); reset picks it by the data."""

    def __init__(self, cost_type: str = "minmax"):
        self.cost_type = cost_type
        self._envs = {}
        self.cur = None

    def env_for(self, num_loc: int):
        if num_loc not in self._envs:
            from rl4co.envs.routing.mtsp.env import MTSPEnv

            self._envs[num_loc] = MTSPEnv(generator_params=dict(num_loc=num_loc), cost_type=self.cost_type,
                                          check_solution=False)
        return self._envs[num_loc]

    def reset(self, td):
        self.cur = self.env_for(td["locs"].shape[-2])
        return self.cur.reset(td)

    def step(self, td):
        return self.cur.step(td)

    def _get_reward(self, td, actions):
        return self.cur._get_reward(td, actions)


class MtspAdapter(envcorr.Adapter):
    name = "mtsp"
    has_checker = False

    def make_env(self, **kw):
        return MtspEnvs(kw.get("cost_type", "minmax"))

    def n_of(self, inst):
        return inst["n"]

    def sizes(self, tier):
        return [1, 2, 3, 5, 8] if tier == "quick" else [1, 2, 3, 5, 8, 13, 20]

    def gen_instance(self, rng, n, kind="random"):
        if kind == "boundary":
            m = rng.choice([1, 1, 2, n, n + 1, n + 3])  # single agent, as many agents as customers, spare agents
        else:
            m = rng.randint(1, n + 1)
        pts = geom.gen_points(rng, n + 1)
        return {"kind": kind, "n": n, "m": max(1, m), "pts": pts}

    def to_td(self, insts):
        B = len(insts)
        locs = torch.tensor([geom.to_unit(i["pts"]) for i in insts], dtype=torch.float32)
        num_agents = torch.tensor([i["m"] for i in insts], dtype=torch.int64)
        return TensorDict({"locs": locs, "num_agents": num_agents}, batch_size=[B])

    def line(self, op, inst, actions):
        D = geom.D_ticks(inst["pts"])
        flat = [v for row in D for v in row]
        return (f"mtsp.{op} {inst['n']} {inst['m']} | " + " ".join(map(str, flat)) + " | "
                + " ".join(map(str, actions)))

    def step_bound(self, inst):
        return inst["n"] + inst["m"] - 1

    def enumerate_solutions(self, inst):
        """all canonical solutions: a permutation of the customers cut into consecutive tours (any number of
        cuts — the Spec rejects those with more than m tours), no empty tour, no final return."""
        n = inst["n"]
        for perm in itertools.permutations(range(1, n + 1)):
            for cuts in itertools.product([0, 1], repeat=n - 1):
                sol = []
                for k, c in enumerate(perm):
                    sol.append(c)
                    if k < n - 1 and cuts[k]:
                        sol.append(0)
                yield sol

    # C04: a solo-vs-batched reward difference has no known cause any more (0b6c547 fixed the padding defect)
    def reward_diff_key(self, inst, f, rew_solo, rew_batched):
        return "mtsp:batch-dependence:reward"


MTSP = MtspAdapter()


def _mtsp_obs(td, r):
    return (rl.ticks(td["max_subtour_length"][r]), rl.ticks(td["current_length"][r]), int(td["agent_idx"][r]))


def mtsp_check_reward(ctx, episodes_quick: int = 40, episodes_thorough: int = 2500):
    """C03 for mTSP, both cost types.  The bookkeeping (`max_subtour_length`, `current_length`, `agent_idx`) is
    compared with the model after every step, the final reward with the model and with the Spec objective."""
    ad = MTSP
    env = ad.make_env(cost_type="minmax")
    env_sum = ad.make_env(cost_type="sum")
    total = ctx.budget(episodes_quick, episodes_thorough)
    done_eps = 0
    while done_eps < total:
        n = ctx.rng.choice(ad.sizes(ctx.tier))
        B = ctx.rng.choice([1, 1, 2, 4])
        insts = envcorr.make_batch(ad, ctx, n, B)
        pad = ctx.rng.choice([0, 0, 1, 2])
        td0 = ad.to_td(insts)
        ep = mc.run_episode_obs(env, td0, envcorr.uniform_chooser(ctx.rng), _mtsp_obs, extra_pad=pad,
                                max_steps=20 * (n + 2) + 50)
        done_eps += B
        if ep.empty_mask_rows:
            ctx.count("mtsp.dead-end-skipped")
            continue
        acts = rl.actions_tensor(ep)
        real = [rl.ticks(v) for v in env._get_reward(ep.td, acts).flatten().tolist()]
        env_sum.reset(td0.clone())
        try:
            real_sum = [rl.ticks(v) for v in env_sum._get_reward(ep.td, acts).flatten().tolist()]
        except RuntimeError:
            real_sum = None  # the call raises (shape error in expand_as)
        lines = [ad.line("episode", insts[r], ep.actions[r]) for r in range(B)]
        replies = ctx.driver.ask_many(lines)
        for r in range(B):
            f = parse_fields(replies[r])
            if "reward" not in f:
                ctx.disagreement("mtsp: driver error", {"reply": replies[r], "line": lines[r]})
                continue
            fin = mc.first_done(ep.done[r])
            padded = fin is not None and fin < len(ep.actions[r])
            ctx.case(("mtsp", repr(insts[r]), tuple(ep.actions[r])), nontrivial=real[r] != 0)
            ctx.count(f"mtsp.n={n}")
            ctx.count(f"mtsp.kind={insts[r]['kind']}")
            ctx.count("mtsp.rows-padded" if padded else "mtsp.rows-unpadded")
            model_obs = list(zip(map(int, f["mx"].split(",")), map(int, f["cl"].split(",")), map(int, f["ag"].split(","))))
            if model_obs != [tuple(o) for o in ep.obs[r]]:
                k = next((k for k in range(min(len(model_obs), len(ep.obs[r]))) if model_obs[k] != tuple(ep.obs[r][k])), -1)
                ctx.disagreement("mtsp: (max_subtour_length, current_length, agent_idx) differs",
                                 {"inst": insts[r], "actions": ep.actions[r], "step": k,
                                  "real": ep.obs[r][k] if k >= 0 else None, "model": model_obs[k] if k >= 0 else None})
            # ---- minmax
            if int(f["reward"]) != real[r]:
                ctx.disagreement("mtsp: minmax reward differs", {"inst": insts[r], "actions": ep.actions[r],
                                                                 "real": real[r], "model": f["reward"]})
            if -int(f["obj"]) != real[r]:
                ctx.violation("mtsp:minmax:reward-ne-objective",
                              "minmax reward of the real env differs from the longest closed tour (Lean Spec)",
                              {"inst": insts[r], "actions": ep.actions[r], "padded": padded, "real_reward_ticks": real[r],
                               "spec_objective_ticks": int(f["obj"]), "lean_line": lines[r]})
            # ---- sum
            if real_sum is None:
                ctx.violation("mtsp:sum:raises", "cost_type='sum': _get_reward raises for a finished mask-confined episode",
                              {"inst": insts[r], "actions": ep.actions[r], "num_loc": n + 1, "len_actions": len(ep.actions[r])})
            else:
                ctx.count(f"mtsp.sum.len-actions{'=' if len(ep.actions[r]) == n + 1 else '!='}num_loc")
                if int(f["rsum"]) != real_sum[r]:
                    ctx.disagreement("mtsp: sum reward differs", {"inst": insts[r], "actions": ep.actions[r],
                                                                  "real": real_sum[r], "model": f["rsum"]})
                if -int(f["objsum"]) != real_sum[r]:
                    ctx.violation("mtsp:sum:reward-ne-objective",
                                  "cost_type='sum': reward differs from the summed closed tour lengths (Lean Spec)",
                                  {"inst": insts[r], "actions": ep.actions[r], "real_reward_ticks": real_sum[r],
                                   "spec_objective_ticks": int(f["objsum"]), "lean_line": lines[r]})
            ctx.sample({"env": "mtsp", "inst": insts[r], "actions": ep.actions[r], "reward_ticks": real[r],
                        "spec_obj": f.get("obj"), "sum_reward": None if real_sum is None else real_sum[r]})


MTSP_NOTE = ("MTSPEnv modelled per instance over integer ticks (Rl4co/Env/Mtsp.lean); coordinates→distance arithmetic "
             "and float32 rounding are outside the model (integral point sets make them exact); `first_node` is "
             "written by the code but never read by mask/done/reward and is not compared")
NO_THM = "no theorem yet: correspondence + spec oracle only"


def _thms(path, thms):
    return thms if _has(path) else []


register(Unit("C01", "mtsp", mc.chunked(lambda ctx: envcorr.check_feasibility(ctx, MTSP, episodes_quick=40, episodes_thorough=2500)),
              drivers=["drv_mtsp"],
              lean_modules=["Rl4co.Props.C01.Mtsp"] if _has("Rl4co/Props/C01/Mtsp.lean") else ["Rl4co.Spec.Mtsp"],
              theorems=_thms("Rl4co/Props/C01/Mtsp.lean", [
                  Theorem("Rl4co.Mtsp.feasible_of_run", "proved",
                          "every mask-confined finished mTSP episode (padding included) visits every customer exactly "
                          "once in at most m non-empty tours (any n, any m ≥ 1, any distances)")]),
              assumptions=[MTSP_NOTE] + ([] if _has("Rl4co/Props/C01/Mtsp.lean") else [NO_THM])))
register(Unit("C02", "mtsp", mc.chunked(lambda ctx: envcorr.check_termination(ctx, MTSP, episodes_quick=40, episodes_thorough=2500)),
              drivers=["drv_mtsp"],
              lean_modules=["Rl4co.Props.C02.Mtsp"] if _has("Rl4co/Props/C02/Mtsp.lean") else ["Rl4co.Spec.Mtsp"],
              theorems=_thms("Rl4co/Props/C02/Mtsp.lean", [
                  Theorem("Rl4co.Mtsp.mask_nonempty", "proved", "every reachable state (finished or not) offers an action (n ≥ 1)"),
                  Theorem("Rl4co.Mtsp.done_stable", "proved", "done is absorbing under admitted steps"),
                  Theorem("Rl4co.Mtsp.steps_le", "proved", "an unfinished mask-confined run has at most n + m − 1 ≤ n + m steps")]),
              assumptions=[MTSP_NOTE] + ([] if _has("Rl4co/Props/C02/Mtsp.lean") else [NO_THM])))
register(Unit("C03", "mtsp", mc.chunked(mtsp_check_reward),
              drivers=["drv_mtsp"],
              lean_modules=["Rl4co.Props.C03.Mtsp"] if _has("Rl4co/Props/C03/Mtsp.lean") else ["Rl4co.Spec.Mtsp"],
              theorems=_thms("Rl4co/Props/C03/Mtsp.lean", [
                  Theorem("Rl4co.Mtsp.reward_minmax_eq_objective", "proved",
                          "minmax reward = −(longest closed tour) for every finished mask-confined run, padding steps included"),
                  Theorem("Rl4co.Mtsp.reward_sum_eq_objective", "proved",
                          "sum reward = −(summed closed tour lengths) for every action list (D 0 0 = 0)")]),
              assumptions=[MTSP_NOTE] + ([] if _has("Rl4co/Props/C03/Mtsp.lean") else [NO_THM])))
register(Unit("C04", "mtsp", mc.chunked(lambda ctx: mc.check_batch_independence(ctx, MTSP, groups_thorough=400)),
              drivers=["drv_mtsp"],
              lean_modules=["Rl4co.Props.C04.Mtsp"] if _has("Rl4co/Props/C04/Mtsp.lean") else ["Rl4co.Spec.Mtsp"],
              theorems=_thms("Rl4co/Props/C04/Mtsp.lean", [
                  Theorem("Rl4co.Mtsp.pad_noop", "proved",
                          "a padding step after done changes neither done, nor the mask, nor the minmax reward"),
                  Theorem("Rl4co.Mtsp.batchStep_eq_map", "proved",
                          "the batched step with its row-0 first-step flag equals the row-wise step on lock-step batches")]),
              assumptions=[MTSP_NOTE, "the batched code is compared row-wise against the per-instance model"]
              + ([] if _has("Rl4co/Props/C04/Mtsp.lean") else [NO_THM])))
register(Unit("C05", "mtsp", mc.chunked(lambda ctx: envcorr.check_completeness(ctx, MTSP, insts_quick=10, nmax_quick=4)),
              drivers=["drv_mtsp"],
              lean_modules=["Rl4co.Props.C05.Mtsp"] if _has("Rl4co/Props/C05/Mtsp.lean") else ["Rl4co.Spec.Mtsp"],
              theorems=_thms("Rl4co/Props/C05/Mtsp.lean", [
                  Theorem("Rl4co.Mtsp.run_of_feasible", "proved",
                          "every canonical Spec-feasible solution is a mask-confined run that ends finished")]),
              assumptions=[MTSP_NOTE] + ([] if _has("Rl4co/Props/C05/Mtsp.lean") else [NO_THM])))


# =================================================================================================
# MDCPDP
# =================================================================================================
MODES = ["minmax", "minsum", "lateness"]
W_DEN = 4


class MdcpdpEnvs:
    """One real `MDCPDPEnv` per (num_loc, num_depot, problem_mode, dist_mode): `_reset` sizes its tensors from the
    generator parameters, exactly as a user passes them through `generator_params`."""

    def __init__(self):
        self._envs = {}

    def get(self, n, K, open_mode=False, dist="L2", reward_mode="minsum"):
        key = (n, K, open_mode, dist)
        if key not in self._envs:
            from rl4co.envs.routing.mdcpdp.env import MDCPDPEnv

            self._envs[key] = MDCPDPEnv(generator_params=dict(num_loc=n, num_depot=K), dist_mode=dist,
                                        problem_mode="open" if open_mode else "close", reward_mode=reward_mode,
                                        start_mode="order", check_solution=False)
        return self._envs[key]


def md_dist_ticks(pts, dist):
    if dist == "L1":
        return [[(abs(a[0] - b[0]) + abs(a[1] - b[1])) * geom.TICKS_PER_GRID for b in pts] for a in pts]
    return geom.D_ticks(pts)


def md_cfg(rng, tier, n=None, K=None):
    n = n if n is not None else rng.choice([2, 4, 6] if tier == "quick" else [2, 4, 6, 8, 12])
    K = K if K is not None else rng.choice([1, 2, 2, 3] if tier == "quick" else [1, 2, 3, 4])
    return {"n": n, "K": K, "open": rng.random() < 0.5, "dist": rng.choice(["L2", "L2", "L1"])}


def md_instance(rng, cfg, kind="random"):
    n, K = cfg["n"], cfg["K"]
    h = n // 2
    if kind == "boundary":
        caps = rng.choice([[1] * K, [h] * K, [1] + [h] * (K - 1), [h] + [1] * (K - 1)])
    elif kind == "uniform":
        caps = [rng.randint(1, max(1, h))] * K
    else:
        caps = [rng.randint(1, max(1, h)) for _ in range(K)]
    pts = geom.gen_points(rng, n + K)
    return {"kind": kind, "n": n, "K": K, "caps": caps, "pts": pts, "open": cfg["open"], "dist": cfg["dist"],
            "w4": rng.choice([0, 1, 2, 4, 4])}


def md_to_td(insts, cap_tensor=None):
    B = len(insts)
    K = insts[0]["K"]
    depot = torch.tensor([geom.to_unit(i["pts"][:K]) for i in insts], dtype=torch.float32)
    locs = torch.tensor([geom.to_unit(i["pts"][K:]) for i in insts], dtype=torch.float32)
    cap = cap_tensor if cap_tensor is not None else torch.tensor([i["caps"] for i in insts], dtype=torch.int64)
    lw = torch.tensor([[i["w4"] / W_DEN] for i in insts], dtype=torch.float32)
    return TensorDict({"locs": locs, "depot": depot, "capacity": cap, "lateness_weight": lw}, batch_size=[B])


def md_header(inst, mode, envK=None, specK=None):
    """`envK`: what the env's `_step` takes for num_depot (= capacity.shape[-1]); default = the instance's K."""
    N = inst["n"] + inst["K"]
    K = inst["K"] if envK is None else envK
    sK = inst["K"] if specK is None else specK
    split0 = inst["n"] // 2 + inst["K"]
    return f"{N} {K} {split0} {inst['K']} {int(inst['open'])} {MODES.index(mode)} {inst['w4']} {W_DEN} {sK} {inst['n'] // 2}"


def md_line(inst, actions, mode="minsum", env_caps=None, envK=None):
    D = md_dist_ticks(inst["pts"], inst["dist"])
    flat = " ".join(str(v) for row in D for v in row)
    caps = inst["caps"] if env_caps is None else env_caps
    return (f"mdcpdp.episode {md_header(inst, mode, envK=envK)} | " + " ".join(map(str, caps)) + " | "
            + " ".join(map(str, inst["caps"])) + " | " + flat + " | " + " ".join(map(str, actions)))


def _md_obs(td, r):
    return (tuple(rl.ticks(v) for v in td["current_length"][r].tolist()), int(td["current_carry"][r]),
            int(td["current_depot"][r]))


class _MdShim:
    """what `envcorr.compare_trace` needs from an adapter"""
    name = "mdcpdp"


MD = _MdShim()


def md_run(ctx, envs, insts, pad=0, forced=None, cap_tensor=None, reward_mode="minsum"):
    c = insts[0]
    env = envs.get(c["n"], c["K"], c["open"], c["dist"])
    env.reward_mode = reward_mode
    td0 = md_to_td(insts, cap_tensor)
    ep = mc.run_episode_obs(env, td0, envcorr.uniform_chooser(ctx.rng), _md_obs, extra_pad=pad, forced=forced,
                            max_steps=10 * (c["n"] + c["K"]) + 20)
    return env, ep


def md_ask(ctx, insts, ep, mode="minsum", env_caps=None, envK=None):
    """every row of a batch is compared with the per-row model run on its own actions"""
    lines = [md_line(inst, ep.actions[r], mode, env_caps=env_caps, envK=envK) for r, inst in enumerate(insts)]
    return lines, ctx.driver.ask_many(lines)


def md_compare_state(ctx, inst, ep, r, f, what):
    model = list(zip([tuple(int(x) for x in s.split(",")) for s in f["len"].split(";")],
                     map(int, f["carry"].split(",")), map(int, f["dep"].split(","))))
    real = [tuple(o) for o in ep.obs[r]]
    if model != real:
        k = next((k for k in range(min(len(model), len(real))) if model[k] != real[k]), -1)
        ctx.disagreement(f"mdcpdp: (current_length, current_carry, current_depot) differs ({what})",
                         {"inst": inst, "actions": ep.actions[r], "row": r, "step": k,
                          "real": real[k] if k >= 0 else None, "model": model[k] if k >= 0 else None})


def md_feas_key(f):
    """name the clause of the problem statement a real episode violates (Lean Spec verdicts)"""
    if f["feas"] == "1":
        return None
    if f["vnohome"] == "0":
        return "mdcpdp:current-depot-stuck:vehicle-returns-to-depot-0"
    if f["vcap0"] == "0":
        return "mdcpdp:current-depot-stuck:capacity-of-depot-0-applied"
    return "mdcpdp:infeasible-episode"


def md_check_feasibility(ctx, episodes_quick=40, episodes_thorough=2000):
    envs = MdcpdpEnvs()
    total = ctx.budget(episodes_quick, episodes_thorough)
    k = 0
    while k < total:
        cfg = md_cfg(ctx.rng, ctx.tier)
        B = ctx.rng.choice([1, 1, 2, 3])
        insts = [md_instance(ctx.rng, cfg, ctx.rng.choice(["random", "boundary", "uniform"])) for _ in range(B)]
        env, ep = md_run(ctx, envs, insts)
        k += B
        if ep.empty_mask_rows:
            r, t = ep.empty_mask_rows[0]
            ctx.violation("mdcpdp:dead-end", "all-False mask row while the batch is running",
                          {"inst": insts[r], "actions": ep.actions[r], "step": t})
            continue
        lines, replies = md_ask(ctx, insts, ep)
        for r in range(B):
            f = envcorr.compare_trace(ctx, MD, insts[r], ep.actions[r], ep.masks[r], ep.done[r], replies[r], "C01 stream")
            if "feas" not in f:
                continue
            md_compare_state(ctx, insts[r], ep, r, f, "C01 stream")
            ctx.case(("mdcpdp", repr(insts[r]), tuple(ep.actions[r])))
            ctx.count(f"mdcpdp.n={cfg['n']}.K={cfg['K']}")
            ctx.count(f"mdcpdp.kind={insts[r]['kind']}")
            ctx.count(f"mdcpdp.spec-verdict={f['why']}")
            key = md_feas_key(f)
            if key:
                ctx.violation(key, f"mask-confined episode of the real env violates the problem statement (Lean Spec clause {f['why']})",
                              {"inst": insts[r], "actions": ep.actions[r], "spec_clause": f["why"], "lean_line": lines[r]})
            ctx.sample({"env": "mdcpdp", "inst": insts[r], "actions": ep.actions[r], "spec_feasible": f["feas"]})
    md_generator_mismatch(ctx, envs)


def md_generator_mismatch(ctx, envs, episodes=6):
    """The bundled generator emits `capacity` of shape [B, 1]; the env takes `num_depot` from that shape."""
    for _ in range(ctx.budget(episodes, 40)):
        n, G = ctx.rng.choice([(4, 2), (4, 3), (6, 2), (6, 4)])
        cfg = {"n": n, "K": G, "open": False, "dist": "L2"}
        inst = md_instance(ctx.rng, cfg, "uniform")
        env = envs.get(n, G, False, "L2")
        torch.manual_seed(ctx.rng.randrange(2**31))
        gen = env.generator(batch_size=[1])
        cap = gen["capacity"]
        ctx.count(f"mdcpdp.generator.capacity-shape={tuple(cap.shape)}")
        if cap.shape[-1] == G:
            continue  # generator emits one capacity per depot: nothing to demonstrate
        c = int(cap[0, 0])
        inst["caps"] = [c] * G  # the documented meaning: capacity of the vehicle (of every depot)
        env_, ep = md_run(ctx, envs, [inst], cap_tensor=cap)
        line = md_line(inst, ep.actions[0], env_caps=[c], envK=cap.shape[-1])
        f = envcorr.compare_trace(ctx, MD, inst, ep.actions[0], ep.masks[0], ep.done[0], ctx.driver.ask(line),
                                  "C01 generator capacity shape")
        ctx.case(("mdcpdp-gen", repr(inst), tuple(ep.actions[0])))
        if f.get("feas") == "0":
            ctx.violation("mdcpdp:generator-capacity-shape:depots-treated-as-pickups",
                          "with the bundled generator (capacity [B,1], num_depot>1) a mask-confined episode violates the "
                          f"problem statement (Lean Spec clause {f['why']})",
                          {"inst": inst, "capacity_shape": list(cap.shape), "actions": ep.actions[0], "lean_line": line})


def md_check_termination(ctx, episodes_quick=40, episodes_thorough=2000):
    envs = MdcpdpEnvs()
    total = ctx.budget(episodes_quick, episodes_thorough)
    k = 0
    while k < total:
        cfg = md_cfg(ctx.rng, ctx.tier)
        B = ctx.rng.choice([1, 2, 3, 5])
        insts = [md_instance(ctx.rng, cfg, ctx.rng.choice(["random", "boundary"])) for _ in range(B)]
        pad = ctx.rng.choice([0, 0, 1, 3])
        try:
            env, ep = md_run(ctx, envs, insts, pad=pad)
        except RuntimeError as e:
            ctx.violation("mdcpdp:no-termination", f"real env: {e}", {"insts": insts})
            k += B
            continue
        k += B
        lines, replies = md_ask(ctx, insts, ep)
        for r in range(B):
            f = envcorr.compare_trace(ctx, MD, insts[r], ep.actions[r], ep.masks[r], ep.done[r], replies[r], "C02 stream")
            d = ep.done[r]
            ctx.case(("mdcpdp", repr(insts[r]), tuple(ep.actions[r])))
            ctx.count(f"mdcpdp.n={cfg['n']}.K={cfg['K']}")
            if any(d[j] == 1 and d[j + 1] == 0 for j in range(len(d) - 1)):
                ctx.violation("mdcpdp:done-unstable", "a finished row became unfinished again",
                              {"inst": insts[r], "actions": ep.actions[r], "done": d})
            fd = mc.first_done(d)
            bound = cfg["n"] + 2 * cfg["K"] - 1
            if fd is None:
                ctx.violation("mdcpdp:not-finished", "row not finished at the end of the batch episode",
                              {"inst": insts[r], "actions": ep.actions[r]})
            elif fd > bound:
                ctx.violation("mdcpdp:step-bound", f"row needed {fd} steps, bound is {bound}",
                              {"inst": insts[r], "actions": ep.actions[r]})
            if "bound" in f and int(f["bound"]) != bound:
                ctx.disagreement("mdcpdp: bound differs", {"model": f["bound"], "harness": bound})
            if fd is not None and fd < len(d) - 1:
                ctx.count("mdcpdp.padded-rows")
        for (r, t) in ep.empty_mask_rows:
            ctx.violation("mdcpdp:dead-end", "a row is offered no action while the batch is still running",
                          {"inst": insts[r], "actions": ep.actions[r], "step": t})
        ctx.sample({"env": "mdcpdp", "cfg": cfg, "B": B, "steps": ep.steps})


def md_reward_ticks(env, td, acts, mode, insts):
    env.reward_mode = mode
    vals = env._get_reward(td, acts).reshape(-1).tolist()
    return [rl.ticks(v) * (W_DEN if mode == "lateness" else 1) for v in vals]


def md_reward_key(f, real):
    """Name the cause of reward ≠ objective.  A known key is used only when the REAL reward is exactly the value
    the Spec predicts with that single clause switched off; anything else is a fresh violation."""
    if real == -int(f["objA"]):
        return "mdcpdp:close-mode:last-return-leg-not-charged"
    if real == -int(f["objB"]):
        return "mdcpdp:current-depot-stuck:lengths-and-clock-shared-by-all-vehicles"
    if real == -int(f["objAB"]):
        return "mdcpdp:current-depot-stuck:shared-lengths+close-mode:last-return-leg-not-charged"
    return "mdcpdp:reward-ne-objective"


def md_check_reward(ctx, episodes_quick=40, episodes_thorough=2000):
    envs = MdcpdpEnvs()
    total = ctx.budget(episodes_quick, episodes_thorough)
    k = 0
    while k < total:
        cfg = md_cfg(ctx.rng, ctx.tier)
        B = ctx.rng.choice([1, 1, 1, 2, 3])
        insts = [md_instance(ctx.rng, cfg, ctx.rng.choice(["random", "boundary", "uniform"])) for _ in range(B)]
        pad = ctx.rng.choice([0, 0, 0, 1])
        env, ep = md_run(ctx, envs, insts, pad=pad)
        k += B
        if ep.empty_mask_rows:
            ctx.count("mdcpdp.dead-end-skipped")
            continue
        acts = rl.actions_tensor(ep)
        for mode in MODES:
            real = md_reward_ticks(env, ep.td, acts, mode, insts)
            lines, replies = md_ask(ctx, insts, ep, mode)
            for r in range(B):
                f = parse_fields(replies[r])
                if "reward" not in f:
                    ctx.disagreement("mdcpdp: driver error", {"reply": replies[r], "line": lines[r][:400]})
                    continue
                if mode == MODES[0]:
                    md_compare_state(ctx, insts[r], ep, r, f, "C03 stream")
                ctx.case(("mdcpdp", mode, repr(insts[r]), tuple(ep.actions[r])), nontrivial=real[r] != 0)
                ctx.count(f"mdcpdp.{mode}.{'open' if cfg['open'] else 'close'}.K={cfg['K']}")
                if int(f["reward"]) != real[r]:
                    ctx.disagreement(f"mdcpdp: {mode} reward differs", {"inst": insts[r], "actions": ep.actions[r], "row": r,
                                                                        "real": real[r], "model": f["reward"]})
                # judge against the problem statement; the objective is only defined for feasible solutions
                # (episodes that violate a clause of the problem are C01's business)
                if f["feas"] != "1":
                    ctx.count("mdcpdp.objective-undefined(infeasible)")
                    continue
                if mode == "minsum" and cfg["open"] and f["feas"] == "1" and f["objopen"] != f["obj"]:
                    ctx.disagreement("mdcpdp: Spec inconsistency: declarative open length ≠ route-level minsum objective",
                                     {"inst": insts[r], "actions": ep.actions[r], "openLength": f["objopen"], "objMinsum": f["obj"]})
                if mode == "minsum" and cfg["open"] and real[r] != -int(f["objopen"]):
                    ctx.violation("mdcpdp:open-minsum-ne-open-length", "open-mode minsum reward ≠ declarative open length (theorem reward_minsum_open)",
                                  {"inst": insts[r], "actions": ep.actions[r], "real": real[r], "openLength": f["objopen"]})
                if real[r] != -int(f["obj"]):
                    key = md_reward_key(f, real[r])
                    ctx.violation(key, f"{mode} reward of the real env differs from the objective of the executed solution (Lean Spec)",
                                  {"inst": insts[r], "actions": ep.actions[r], "row": r, "B": B, "mode": mode,
                                   "real_reward_ticks": real[r], "spec_objective_ticks": int(f["obj"]), "lean_line": lines[r][:2000]})
                else:
                    ctx.count(f"mdcpdp.{mode}.reward-correct")
        ctx.sample({"env": "mdcpdp", "inst": insts[0], "actions": ep.actions[0]})


def md_check_batch(ctx, groups_quick=12, groups_thorough=500):
    envs = MdcpdpEnvs()
    for g in range(ctx.budget(groups_quick, groups_thorough)):
        cfg = md_cfg(ctx.rng, ctx.tier)
        B = ctx.rng.choice([2, 3, 5])
        pad = ctx.rng.choice([0, 0, 1, 2])
        mode = ctx.rng.choice(MODES)
        if g < 2:  # every run covers a padded close-mode batch (g = 0) and a padded open-mode batch (g = 1)
            cfg = dict(md_cfg(ctx.rng, ctx.tier, K=1), open=(g == 1))
            pad, mode = 1 + g, "minsum"
        insts = [md_instance(ctx.rng, cfg, ctx.rng.choice(["random", "boundary"])) for _ in range(B)]
        if ctx.rng.random() < 0.3:
            insts[ctx.rng.randrange(B)] = insts[0]
        env, ep = md_run(ctx, envs, insts, pad=pad)
        if ep.empty_mask_rows:
            continue
        rew_b = md_reward_ticks(env, ep.td, rl.actions_tensor(ep), mode, insts)
        lines, replies = md_ask(ctx, insts, ep, mode)
        fs = []
        for r in range(B):
            f = envcorr.compare_trace(ctx, MD, insts[r], ep.actions[r], ep.masks[r], ep.done[r], replies[r], "C04 batched row vs per-row model")
            fs.append(f)
            if "reward" in f:
                md_compare_state(ctx, insts[r], ep, r, f, "C04 batched")
                if int(f["reward"]) != rew_b[r]:
                    ctx.disagreement("mdcpdp: batched reward differs from the per-row model", {"inst": insts[r], "row": r,
                                     "actions": ep.actions[r], "real": rew_b[r], "model": f["reward"]})
        for r in range(B):
            d = ep.done[r]
            fin = d.index(1) if 1 in d else len(ep.actions[r])
            solo_actions = ep.actions[r][:fin]
            env1, ep1 = md_run(ctx, envs, [insts[r]], forced=[solo_actions])
            ctx.case(("mdcpdp", repr(insts[r]), tuple(ep.actions[r]), B, r))
            ctx.count(f"mdcpdp.B={B}.row={'0' if r == 0 else '>0'}")
            if ep1.actions[0] != solo_actions:
                ctx.violation("mdcpdp:batch-dependence:finish-step", "solo run does not finish at the same step as inside the batch",
                              {"inst": insts[r], "batched_actions": ep.actions[r], "solo_actions": ep1.actions[0], "row": r})
                continue
            if ep1.masks[0] != ep.masks[r][: fin + 1]:
                ctx.violation("mdcpdp:batch-dependence:mask", "masks differ between solo and batched run",
                              {"inst": insts[r], "actions": solo_actions, "row": r})
            rew_s = md_reward_ticks(env1, ep1.td, rl.actions_tensor(ep1), mode, [insts[r]])[0]
            if rew_s != rew_b[r]:
                # known cause: the row was stepped after done in close mode and the padding step added the last way back —
                # recognised only if the model reproduces BOTH values (padded = batched, first finished state = solo)
                if (fin < len(ep.actions[r]) and not cfg["open"] and fs[r].get("reward") == str(rew_b[r])
                        and fs[r].get("rnp") == str(rew_s)):
                    key = "mdcpdp:padding-step-adds-last-return-leg"
                else:
                    key = "mdcpdp:batch-dependence:reward"
                ctx.violation(key, "reward differs between the solo run and the batched run of the same instance with the same actions",
                              {"inst": insts[r], "row": r, "B": B, "mode": mode, "batched_actions": ep.actions[r],
                               "solo_reward_ticks": rew_s, "batched_reward_ticks": rew_b[r]})
        ctx.sample({"env": "mdcpdp", "cfg": cfg, "B": B, "pad": pad, "mode": mode})


def md_candidates(inst):
    """canonical complete solutions: depot 0 first, the other depots in any order, every depot's vehicle started,
    every vehicle but the last returns to its own depot; customers cut into consecutive (possibly empty) tours"""
    n, K = inst["n"], inst["K"]
    custs = list(range(K, K + n))
    for perm in itertools.permutations(custs):
        for cuts in itertools.combinations_with_replacement(range(n + 1), K - 1):
            bounds = [0] + list(cuts) + [n]
            segs = [list(perm[bounds[j]: bounds[j + 1]]) for j in range(K)]
            for order in itertools.permutations(range(1, K)):
                deps = [0] + list(order)
                sol = []
                for j, d in enumerate(deps):
                    sol.append(d)
                    sol += segs[j]
                    if j < K - 1:
                        sol.append(d)
                yield sol


def md_check_completeness(ctx, insts_quick=8, insts_thorough=60):
    envs = MdcpdpEnvs()
    fixed = [((2, 1), None), ((4, 1), None), ((4, 2), [2, 2]), ((4, 2), [1, 2]), ((2, 3), [1, 1, 1]), ((4, 2), [2, 1])]
    for g in range(ctx.budget(insts_quick, insts_thorough)):
        if g < len(fixed):  # every run covers: single depot, equal capacities, larger / smaller capacity than depot 0, 3 depots
            (n, K), caps = fixed[g]
        else:
            (n, K), caps = ctx.rng.choice([(2, 1), (2, 2), (4, 1), (4, 2), (2, 3)] + ([(4, 3)] if ctx.tier == "thorough" else [])), None
        cfg = {"n": n, "K": K, "open": False, "dist": "L2"}
        inst = md_instance(ctx.rng, cfg, ctx.rng.choice(["boundary", "uniform", "random"]))
        if caps is not None:
            inst["caps"] = caps
        cands = list(md_candidates(inst))
        replies = mc.ask_chunked(ctx, [md_line(inst, c) for c in cands])
        feas = [(c, parse_fields(rep)) for c, rep in zip(cands, replies)]
        feas = [(c, f) for c, f in feas if f.get("feas") == "1"]
        ctx.count("mdcpdp.candidates", len(cands))
        ctx.count("mdcpdp.feasible", len(feas))
        ctx.count(f"mdcpdp.n={n}.K={K}")
        env = envs.get(n, K, False, "L2")
        for c, f in feas:
            # each candidate is driven on its own (batch size 1)
            td = env.reset(md_to_td([inst]))
            blocked = None
            for t, a in enumerate(c):
                if not bool(td["action_mask"][0, a]):
                    blocked = (t, rl.mask_str(td["action_mask"][0]))
                    break
                td.set("action", torch.tensor([a], dtype=torch.long))
                td = env.step(td)["next"]
            ctx.case(("mdcpdp", repr(inst), tuple(c)))
            if blocked is not None:
                t, m = blocked
                a = c[t]
                if f.get("adm") == "1":
                    ctx.disagreement("mdcpdp: model admits, real mask blocks", {"inst": inst, "solution": c, "step": t})
                # the vehicle that is out at step t and what it carries
                opened = [x for k, x in enumerate(c[:t]) if x < K and x not in c[:k]]
                veh = opened[-1] if opened else None
                last_open = max(k for k, x in enumerate(c[:t]) if x == veh and x not in c[:k]) if veh is not None else 0
                onboard = sum(1 for x in c[last_open:t] if K <= x < K + n // 2) - sum(1 for x in c[last_open:t] if x >= K + n // 2)
                if a < K and a != 0 and a == veh and m[0] == "1":
                    # the vehicle returns to its OWN depot; the mask offers node 0 instead
                    key = "mdcpdp:current-depot-stuck:return-to-own-depot-not-offered"
                elif K <= a < K + n // 2 and veh not in (None, 0) and inst["caps"][0] <= onboard < inst["caps"][veh]:
                    # a pickup that fits the vehicle's own capacity but not depot 0's
                    key = "mdcpdp:current-depot-stuck:capacity-of-depot-0-applied"
                else:
                    key = "mdcpdp:mask-hides-feasible"
                ctx.violation(key, "a feasible solution (Lean Spec) is not offered by the real mask",
                              {"inst": inst, "solution": c, "blocked_at_step": t, "mask": m})
            else:
                if f.get("adm") != "1":
                    ctx.disagreement("mdcpdp: real mask admits a feasible solution, model does not", {"inst": inst, "solution": c})
                if not bool(td["done"].reshape(-1)[0]):
                    ctx.violation("mdcpdp:feasible-not-done", "feasible complete solution not recognised as finished",
                                  {"inst": inst, "solution": c})
        ctx.sample({"env": "mdcpdp", "inst": inst, "n_candidates": len(cands), "n_feasible": len(feas),
                    "example": feas[0][0] if feas else None})


MD_NOTE = ("MDCPDPEnv (start_mode='order') modelled per batch row over integer ticks (Rl4co/Env/Mdcpdp.lean); every row of a "
           "real batch is compared with the per-row model; coordinates→distance arithmetic (L1/L2) and float32 rounding are outside the model "
           "(integral point sets make them exact); start_mode='random' and reward_mode='lateness_square' are not modelled")


def _mods(path, mod, fallback):
    return [mod] if _has(path) else [fallback]


register(Unit("C01", "mdcpdp", mc.chunked(md_check_feasibility), drivers=["drv_mdcpdp"],
              lean_modules=_mods("Rl4co/Props/C01/Mdcpdp.lean", "Rl4co.Props.C01.Mdcpdp", "Rl4co.Spec.Mdcpdp"),
              theorems=_thms("Rl4co/Props/C01/Mdcpdp.lean", [
                  Theorem("Rl4co.Mdcpdp.core_of_run", "partial", "every finished mask-confined episode (solo row, well-formed instance): customers exactly once, delivery after its pickup, load within [0, capacity of depot 0] after every prefix, depots entered empty"),
                  Theorem("Rl4co.Mdcpdp.feasible_of_run_counterexample", "proved", "¬ feasible_of_run_statement: the capacity of depot 0 is applied to the vehicle of depot 1"),
                  Theorem("Rl4co.Mdcpdp.feasible_of_run_uniform_counterexample", "proved", "even with equal capacities: a vehicle started at depot 1 ends its tour at node 0")]),
              assumptions=[MD_NOTE] + ([] if _has("Rl4co/Props/C01/Mdcpdp.lean") else [NO_THM])))
register(Unit("C02", "mdcpdp", mc.chunked(md_check_termination), drivers=["drv_mdcpdp"],
              lean_modules=_mods("Rl4co/Props/C02/Mdcpdp.lean", "Rl4co.Props.C02.Mdcpdp", "Rl4co.Spec.Mdcpdp"),
              theorems=_thms("Rl4co/Props/C02/Mdcpdp.lean", [
                  Theorem("Rl4co.Mdcpdp.mask_nonempty", "proved", "every reachable state offers an action (solo row, well-formed instance)"),
                  Theorem("Rl4co.Mdcpdp.done_stable", "proved", "done is absorbing"),
                  Theorem("Rl4co.Mdcpdp.steps_le", "proved", "an unfinished mask-confined run has at most N + K − 1 steps")]),
              assumptions=[MD_NOTE] + ([] if _has("Rl4co/Props/C02/Mdcpdp.lean") else [NO_THM])))
register(Unit("C03", "mdcpdp", mc.chunked(md_check_reward), drivers=["drv_mdcpdp"],
              lean_modules=_mods("Rl4co/Props/C03/Mdcpdp.lean", "Rl4co.Props.C03.Mdcpdp", "Rl4co.Spec.Mdcpdp"),
              theorems=_thms("Rl4co/Props/C03/Mdcpdp.lean", [
                  Theorem("Rl4co.Mdcpdp.reward_minsum_open", "partial", "open mode: minsum reward = −(total open-route length) for every mask-confined run"),
                  Theorem("Rl4co.Mdcpdp.reward_minmax_counterexample", "proved", "¬ reward_statement minmax (all lengths accumulate in slot 0)"),
                  Theorem("Rl4co.Mdcpdp.reward_minsum_close_counterexample", "proved", "¬ reward_statement minsum (close mode: last way back never charged)"),
                  Theorem("Rl4co.Mdcpdp.reward_lateness_counterexample", "proved", "¬ reward_statement lateness (clock not restarted per vehicle)")]),
              assumptions=[MD_NOTE] + ([] if _has("Rl4co/Props/C03/Mdcpdp.lean") else [NO_THM])))
register(Unit("C04", "mdcpdp", mc.chunked(md_check_batch), drivers=["drv_mdcpdp"],
              lean_modules=_mods("Rl4co/Props/C04/Mdcpdp.lean", "Rl4co.Props.C04.Mdcpdp", "Rl4co.Spec.Mdcpdp"),
              theorems=_thms("Rl4co/Props/C04/Mdcpdp.lean", [
                  Theorem("Rl4co.Mdcpdp.batchStep_eq_map", "proved", "the batched step is the per-row step (no statement reads another row)"),
                  Theorem("Rl4co.Mdcpdp.batch_rows", "proved", "every row of the batched step, at any position of any batch, is the row stepped on its own"),
                  Theorem("Rl4co.Mdcpdp.pad_noop_open", "partial", "open mode: a step after done keeps done, mask and minsum reward"),
                  Theorem("Rl4co.Mdcpdp.pad_noop_counterexample", "proved", "¬ pad_noop_statement (close mode: the padding step adds the last way back)")]),
              assumptions=[MD_NOTE] + ([] if _has("Rl4co/Props/C04/Mdcpdp.lean") else [NO_THM])))
register(Unit("C05", "mdcpdp", mc.chunked(md_check_completeness), drivers=["drv_mdcpdp"],
              lean_modules=_mods("Rl4co/Props/C05/Mdcpdp.lean", "Rl4co.Props.C05.Mdcpdp", "Rl4co.Spec.Mdcpdp"),
              theorems=_thms("Rl4co/Props/C05/Mdcpdp.lean", [
                  Theorem("Rl4co.Mdcpdp.run_of_feasible_counterexample", "proved", "¬ run_of_feasible_statement: return to the vehicle's own depot is never offered"),
                  Theorem("Rl4co.Mdcpdp.run_of_feasible_capacity_counterexample", "proved", "¬ run_of_feasible_statement: a larger capacity than depot 0's cannot be used")]),
              assumptions=[MD_NOTE] + ([] if _has("Rl4co/Props/C05/Mdcpdp.lean") else [NO_THM])))
