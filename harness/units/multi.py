"""Multi-agent routing units (C01–C05): real `MTSPEnv` / `MDCPDPEnv` vs the `Rl4co.Mtsp` / `Rl4co.Mdcpdp`
models vs the independent specs `Rl4co.Spec.Mtsp` / `Rl4co.Spec.Mdcpdp`."""
from __future__ import annotations

import itertools
import os
from typing import List

import envcorr
import geom
import multi_common as mc
import rl
from common import LEAN_DIR, Theorem, Unit, register
from leanio import parse_fields
from rl import TensorDict, torch


def _has(path: str) -> bool:
    return os.path.exists(os.path.join(LEAN_DIR, path))


# =================================================================================================
# mTSP
# =================================================================================================
class MtspEnvs:
    """`MTSPEnv._reset` sizes the mask from `generator.num_loc`, so one real env per (instance size, cost_type) is
    constructed (exactly what a user does through `generator_params`); reset picks it by the data.  The env that
    steps alternates between the two cost types (`_step` must not depend on it); rewards are asked per cost type."""

    COSTS = ["minmax", "sum"]

    def __init__(self, cost_type=None):
        self.cost_type = cost_type  # None: alternate
        self._envs = {}
        self.cur = None
        self._k = 0

    def env_for(self, num_loc: int, cost_type: str, agents=(5, 5)):
        key = (num_loc, cost_type, agents)
        if key not in self._envs:
            from rl4co.envs.routing.mtsp.env import MTSPEnv

            self._envs[key] = MTSPEnv(generator_params=dict(num_loc=num_loc, min_num_agents=agents[0], max_num_agents=agents[1]),
                                      cost_type=cost_type, check_solution=False)
        return self._envs[key]

    def reset(self, td):
        ct = self.cost_type or self.COSTS[self._k % 2]
        self._k += 1
        self.num_loc = td["locs"].shape[-2]
        self.cur = self.env_for(self.num_loc, ct)
        return self.cur.reset(td)

    def step(self, td):
        return self.cur.step(td)

    def reward(self, td, actions, cost_type):
        return self.env_for(self.num_loc, cost_type)._get_reward(td, actions)

    def _get_reward(self, td, actions):
        return self.reward(td, actions, "minmax")


class MtspAdapter(envcorr.Adapter):
    name = "mtsp"
    has_checker = False

    def __init__(self):
        self._gen_envs = MtspEnvs()
        self.contract_violations = []

    def make_env(self, **kw):
        return MtspEnvs(kw.get("cost_type"))

    def n_of(self, inst):
        return inst["n"]

    def sizes(self, tier):
        # one third of the quick episodes are larger instances
        return [1, 2, 3, 5, 8, 12, 16, 20] if tier == "quick" else [1, 2, 3, 5, 8, 13, 20, 30, 50]

    def kinds(self):
        return ["random", "boundary", "generator"]

    def gen_instance(self, rng, n, kind="random"):
        if kind == "boundary":
            m = rng.choice([1, 1, 2, n, n + 1, n + 3])  # single agent, as many agents as customers, spare agents
        elif kind == "generator":
            # number of agents drawn by the REAL generator from a non-degenerate range (its documented contract is checked)
            lo = rng.randint(1, max(1, n))
            hi = lo + rng.randint(0, 3)
            gen = self._gen_envs.env_for(n + 1, "minmax", (lo, hi)).generator
            torch.manual_seed(rng.randrange(2**31))
            out = gen(batch_size=[3])
            ms = out["num_agents"].tolist()
            if tuple(out["locs"].shape) != (3, n + 1, 2) or any(not (lo <= v <= hi) for v in ms):
                self.contract_violations.append({"generator_params": {"num_loc": n + 1, "min_num_agents": lo, "max_num_agents": hi},
                                                 "locs_shape": list(out["locs"].shape), "num_agents": ms})
            m = min(max(rng.choice(ms), 1), n + 3)
        else:
            m = rng.randint(1, n + 1)
        pts = mc.gen_points_box(rng, n + 1)
        return {"kind": kind, "n": n, "m": max(1, m), "pts": pts}

    def to_td(self, insts):
        B = len(insts)
        locs = torch.tensor([geom.to_unit(i["pts"]) for i in insts], dtype=torch.float32)
        num_agents = torch.tensor([i["m"] for i in insts], dtype=torch.int64)
        return TensorDict({"locs": locs, "num_agents": num_agents}, batch_size=[B])

    def line(self, op, inst, actions):
        D = geom.D_ticks(inst["pts"])
        flat = [v for row in D for v in row]
        return (f"mtsp.{op} {inst['n']} {inst['m']} | " + " ".join(map(str, flat)) + " | "
                + " ".join(map(str, actions)))

    def step_bound(self, inst):
        return inst["n"] + inst["m"] - 1

    def real_reward_ticks(self, env, td, actions):
        return [rl.ticks(v) for v in env.reward(td, actions, "minmax").flatten().tolist()]

    def extra_rewards(self, env, td, actions):
        return {"rsum": [rl.ticks(v) for v in env.reward(td, actions, "sum").flatten().tolist()]}

    def enumerate_solutions(self, inst):
        """all canonical solutions: a permutation of the customers cut into consecutive tours (any number of
        cuts — the Spec rejects those with more than m tours), no empty tour, no final return."""
        n = inst["n"]
        for perm in itertools.permutations(range(1, n + 1)):
            for cuts in itertools.product([0, 1], repeat=n - 1):
                sol = []
                for k, c in enumerate(perm):
                    sol.append(c)
                    if k < n - 1 and cuts[k]:
                        sol.append(0)
                yield sol

    # C04: a solo-vs-batched reward difference has no known cause any more (0b6c547 fixed the padding defect)
    def reward_diff_key(self, inst, f, rew_solo, rew_batched):
        return "mtsp:batch-dependence:reward"


MTSP = MtspAdapter()


def mtsp_with_generator_contract(run):
    """instances of kind 'generator' take `num_agents` from the real MTSPGenerator; a draw outside the documented range
    [min_num_agents, max_num_agents] (or a wrong `locs` shape) is reported with the generator parameters as witness"""
    def wrapped(ctx):
        MTSP.contract_violations.clear()
        run(ctx)
        for w in MTSP.contract_violations[:3]:
            ctx.violation("mtsp:generator:instance-outside-documented-range",
                          "MTSPGenerator returned an instance outside its documented contract", w)
    return wrapped


def _mtsp_obs(td, r):
    return (rl.ticks(td["max_subtour_length"][r]), rl.ticks(td["current_length"][r]), int(td["agent_idx"][r]))


def mtsp_check_reward(ctx, episodes_quick: int = 40, episodes_thorough: int = 2500):
    """C03 for mTSP, both cost types.  The bookkeeping (`max_subtour_length`, `current_length`, `agent_idx`) is
    compared with the model after every step, the final reward with the model and with the Spec objective."""
    ad = MTSP
    env = ad.make_env()
    total = ctx.budget(episodes_quick, episodes_thorough)
    done_eps = 0
    while done_eps < total:
        n = ctx.rng.choice(ad.sizes(ctx.tier))
        B = ctx.rng.choice([1, 1, 2, 4])
        insts = envcorr.make_batch(ad, ctx, n, B)
        pad = ctx.rng.choice([0, 0, 1, 2])
        td0 = ad.to_td(insts)
        ep = mc.run_episode_obs(env, td0, envcorr.uniform_chooser(ctx.rng), _mtsp_obs, extra_pad=pad,
                                max_steps=20 * (n + 2) + 50)
        done_eps += B
        if ep.empty_mask_rows:
            ctx.count("mtsp.dead-end-skipped")
            continue
        acts = rl.actions_tensor(ep)
        real = ad.real_reward_ticks(env, ep.td, acts)
        try:
            real_sum = ad.extra_rewards(env, ep.td, acts)["rsum"]
        except RuntimeError:
            real_sum = None  # the call raises
        lines = [ad.line("episode", insts[r], ep.actions[r]) for r in range(B)]
        replies = ctx.driver.ask_many(lines)
        for r in range(B):
            f = parse_fields(replies[r])
            if "reward" not in f:
                ctx.disagreement("mtsp: driver error", {"reply": replies[r], "line": lines[r]})
                continue
            fin = mc.first_done(ep.done[r])
            padded = fin is not None and fin < len(ep.actions[r])
            ctx.case(("mtsp", repr(insts[r]), tuple(ep.actions[r])), nontrivial=real[r] != 0)
            ctx.count(f"mtsp.n={n}")
            ctx.count(f"mtsp.kind={insts[r]['kind']}")
            ctx.count("mtsp.rows-padded" if padded else "mtsp.rows-unpadded")
            model_obs = list(zip(map(int, f["mx"].split(",")), map(int, f["cl"].split(",")), map(int, f["ag"].split(","))))
            if model_obs != [tuple(o) for o in ep.obs[r]]:
                k = next((k for k in range(min(len(model_obs), len(ep.obs[r]))) if model_obs[k] != tuple(ep.obs[r][k])), -1)
                ctx.disagreement("mtsp: (max_subtour_length, current_length, agent_idx) differs",
                                 {"inst": insts[r], "actions": ep.actions[r], "step": k,
                                  "real": ep.obs[r][k] if k >= 0 else None, "model": model_obs[k] if k >= 0 else None})
            # ---- minmax
            if int(f["reward"]) != real[r]:
                ctx.disagreement("mtsp: minmax reward differs", {"inst": insts[r], "actions": ep.actions[r],
                                                                 "real": real[r], "model": f["reward"]})
            if -int(f["obj"]) != real[r]:
                ctx.violation("mtsp:minmax:reward-ne-objective",
                              "minmax reward of the real env differs from the longest closed tour (Lean Spec)",
                              {"inst": insts[r], "actions": ep.actions[r], "padded": padded, "real_reward_ticks": real[r],
                               "spec_objective_ticks": int(f["obj"]), "lean_line": lines[r]})
            # ---- sum
            if real_sum is None:
                ctx.violation("mtsp:sum:raises", "cost_type='sum': _get_reward raises for a finished mask-confined episode",
                              {"inst": insts[r], "actions": ep.actions[r], "num_loc": n + 1, "len_actions": len(ep.actions[r])})
            else:
                ctx.count(f"mtsp.sum.len-actions{'=' if len(ep.actions[r]) == n + 1 else '!='}num_loc")
                if int(f["rsum"]) != real_sum[r]:
                    ctx.disagreement("mtsp: sum reward differs", {"inst": insts[r], "actions": ep.actions[r],
                                                                  "real": real_sum[r], "model": f["rsum"]})
                if -int(f["objsum"]) != real_sum[r]:
                    ctx.violation("mtsp:sum:reward-ne-objective",
                                  "cost_type='sum': reward differs from the summed closed tour lengths (Lean Spec)",
                                  {"inst": insts[r], "actions": ep.actions[r], "real_reward_ticks": real_sum[r],
                                   "spec_objective_ticks": int(f["objsum"]), "lean_line": lines[r]})
            ctx.sample({"env": "mtsp", "inst": insts[r], "actions": ep.actions[r], "reward_ticks": real[r],
                        "spec_obj": f.get("obj"), "sum_reward": None if real_sum is None else real_sum[r]})


class MtspCompleteness:
    """C05 plug-in: tiny instances enumerated exhaustively and driven next to companion rows with other `num_agents`."""
    name = "mtsp"
    obj_fields = ["obj", "objsum"]

    def __init__(self):
        self.envs = MtspEnvs()

    def instances(self, ctx, g):
        nmax = 4 if ctx.tier == "quick" else 5
        n = [1, 2, 3, 4][g % 4] if g < 4 else ctx.rng.randint(2, nmax)
        inst = MTSP.gen_instance(ctx.rng, n, ctx.rng.choice(["random", "boundary", "boundary"]))
        # the companions have fewer / more agents than the enumerated instance (row 0 and the last row of every batch)
        lo = dict(MTSP.gen_instance(ctx.rng, n, "random"), m=1)
        hi = dict(MTSP.gen_instance(ctx.rng, n, "random"), m=inst["m"] + n + 1)
        comps = [lo, hi] if ctx.rng.random() < 0.5 else [hi, lo]
        ctx.count(f"mtsp.n={n}")
        ctx.count(f"mtsp.m-vs-n={'<' if inst['m'] < n else ('=' if inst['m'] == n else '>')}")
        return inst, comps

    def candidates(self, inst):
        return MTSP.enumerate_solutions(inst)

    def env_for(self, inst):
        return self.envs

    def to_td(self, insts):
        return MTSP.to_td(insts)

    def after_reset(self, td, r):
        return {}

    def line(self, inst, actions):
        return MTSP.line("episode", inst, actions)

    def hide_key(self, inst, cand, t, mask, f):
        return "mtsp:mask-hides-feasible"

    def known_reachable(self, inst, cand, f):
        return False


MTSP_NOTE = ("MTSPEnv modelled per instance over integer ticks (Rl4co/Env/Mtsp.lean); coordinates→distance arithmetic "
             "and float32 rounding are outside the model (integral point sets make them exact); `first_node` is "
             "written by the code but never read by mask/done/reward and is not compared")
NO_THM = "no theorem yet: correspondence + spec oracle only"


def _thms(path, thms):
    return thms if _has(path) else []


register(Unit("C01", "mtsp", mc.chunked(mtsp_with_generator_contract(lambda ctx: envcorr.check_feasibility(ctx, MTSP, episodes_quick=40, episodes_thorough=2500))),
              drivers=["drv_mtsp"],
              lean_modules=(["Rl4co.Props.C01.Mtsp"] if _has("Rl4co/Props/C01/Mtsp.lean") else ["Rl4co.Spec.Mtsp"])
              + (["Rl4co.Proofs.MtspSpec"] if _has("Rl4co/Proofs/MtspSpec.lean") else []),
              theorems=_thms("Rl4co/Props/C01/Mtsp.lean", [
                  Theorem("Rl4co.Mtsp.feasible_of_run", "proved",
                          "every mask-confined finished mTSP episode (padding included) visits every customer exactly "
                          "once in at most m non-empty tours (any n, any m ≥ 1, any distances)")] + ([Theorem("Rl4co.Mtsp.feasible_exists", "proved", "Spec sanity: every instance with m ≥ 1 has a feasible solution")] if _has("Rl4co/Proofs/MtspSpec.lean") else [])),
              assumptions=[MTSP_NOTE] + ([] if _has("Rl4co/Props/C01/Mtsp.lean") else [NO_THM])))
register(Unit("C02", "mtsp", mc.chunked(lambda ctx: envcorr.check_termination(ctx, MTSP, episodes_quick=40, episodes_thorough=2500)),
              drivers=["drv_mtsp"],
              lean_modules=["Rl4co.Props.C02.Mtsp"] if _has("Rl4co/Props/C02/Mtsp.lean") else ["Rl4co.Spec.Mtsp"],
              theorems=_thms("Rl4co/Props/C02/Mtsp.lean", [
                  Theorem("Rl4co.Mtsp.mask_nonempty", "proved", "every reachable state (finished or not) offers an action (n ≥ 1)"),
                  Theorem("Rl4co.Mtsp.done_stable", "proved", "done is absorbing under admitted steps"),
                  Theorem("Rl4co.Mtsp.steps_le", "proved", "an unfinished mask-confined run has at most n + m − 1 ≤ n + m steps"),
                        Theorem("Rl4co.Mtsp.steps_le_text", "proved", "… i.e. at most num_loc + num_agents − 2 calls of env.step")]),
              assumptions=[MTSP_NOTE] + ([] if _has("Rl4co/Props/C02/Mtsp.lean") else [NO_THM])))
register(Unit("C03", "mtsp", mc.chunked(mtsp_check_reward),
              drivers=["drv_mtsp"],
              lean_modules=(["Rl4co.Props.C03.Mtsp"] if _has("Rl4co/Props/C03/Mtsp.lean") else ["Rl4co.Spec.Mtsp"])
              + (["Rl4co.Proofs.MtspSpec"] if _has("Rl4co/Proofs/MtspSpec.lean") else []),
              theorems=_thms("Rl4co/Props/C03/Mtsp.lean", [
                  Theorem("Rl4co.Mtsp.reward_minmax_eq_objective", "proved",
                          "minmax reward = −(longest closed tour) for every finished mask-confined run, padding steps included"),
                  Theorem("Rl4co.Mtsp.reward_sum_eq_objective", "proved",
                          "sum reward = −(summed closed tour lengths) for every action list (D 0 0 = 0)")] + ([
                  Theorem("Rl4co.Mtsp.objMinmax_le_objSum", "proved", "Spec sanity: longest tour ≤ total length"),
                  Theorem("Rl4co.Mtsp.objMinmax_perm", "proved", "Spec sanity: minmax objective invariant under renaming the agents (permuting the tours)"),
                  Theorem("Rl4co.Mtsp.objSum_perm", "proved", "Spec sanity: sum objective invariant under renaming the agents")] if _has("Rl4co/Proofs/MtspSpec.lean") else [])),
              assumptions=[MTSP_NOTE] + ([] if _has("Rl4co/Props/C03/Mtsp.lean") else [NO_THM])))
register(Unit("C04", "mtsp", mc.chunked(lambda ctx: mc.check_batch_independence(ctx, MTSP, groups_thorough=400)),
              drivers=["drv_mtsp"],
              lean_modules=["Rl4co.Props.C04.Mtsp"] if _has("Rl4co/Props/C04/Mtsp.lean") else ["Rl4co.Spec.Mtsp"],
              theorems=_thms("Rl4co/Props/C04/Mtsp.lean", [
                  Theorem("Rl4co.Mtsp.pad_noop", "proved",
                          "a padding step after done changes neither done, nor the mask, nor the minmax reward"),
                  Theorem("Rl4co.Mtsp.batchStep_eq_map", "proved",
                          "the batched step with its row-0 first-step flag equals the row-wise step on lock-step batches"),
                  Theorem("Rl4co.Mtsp.batch_rows", "proved", "∀ batch ∀ row: row k of any lock-step batch (mixed num_agents) is stepped exactly as on its own"),
                  Theorem("Rl4co.Mtsp.batchExec_eq_rows", "proved", "whole episodes: a batched episode is the family of its rows' own episodes")]),
              assumptions=[MTSP_NOTE, "the batched code is compared row-wise against the per-instance model"]
              + ([] if _has("Rl4co/Props/C04/Mtsp.lean") else [NO_THM])))
register(Unit("C05", "mtsp", mc.chunked(lambda ctx: mc.check_completeness_batched(ctx, MtspCompleteness(), 10, 80)),
              drivers=["drv_mtsp"],
              lean_modules=["Rl4co.Props.C05.Mtsp"] if _has("Rl4co/Props/C05/Mtsp.lean") else ["Rl4co.Spec.Mtsp"],
              theorems=_thms("Rl4co/Props/C05/Mtsp.lean", [
                  Theorem("Rl4co.Mtsp.run_of_feasible", "proved",
                          "every canonical Spec-feasible solution is a mask-confined run that ends finished"),
                  Theorem("Rl4co.Mtsp.canonize_spec", "proved", "every feasible solution has a canonical form with the same tours and objectives"),
                  Theorem("Rl4co.Mtsp.opt_reachable", "proved", "∃/∀: every feasible solution is matched by a finished mask-confined episode with its objective as reward (minmax and sum), and every such episode is a feasible solution with those rewards")]),
              assumptions=[MTSP_NOTE] + ([] if _has("Rl4co/Props/C05/Mtsp.lean") else [NO_THM])))


def mtsp_check_starts(ctx, cases_quick=24, cases_thorough=300):
    """C12 from the mTSP side: the real `select_start_nodes` / `get_num_starts` on the real mTSP reset state against the
    formula of `Rl4co.Mtsp.starts_admitted_iff` (`(r // B) % num_loc + 1`), for every k ≤ n (all starts must then be valid
    actions offered by the reset mask).  k > n is the ops family's known finding and is not judged here."""
    from rl4co.utils.ops import get_num_starts, select_start_nodes

    envs = MtspEnvs()
    for g in range(ctx.budget(cases_quick, cases_thorough)):
        n = ctx.rng.choice(MTSP.sizes(ctx.tier))
        B = ctx.rng.choice([1, 2, 3, 5])
        insts = envcorr.make_batch(MTSP, ctx, n, B)
        td = envs.reset(MTSP.to_td(insts))
        env = envs.cur
        k0 = int(get_num_starts(td, env.name))
        if k0 != n:
            ctx.violation("mtsp:starts:default-number", "get_num_starts differs from the number of customers",
                          {"n": n, "get_num_starts": k0, "mask_width": int(td["action_mask"].shape[-1])})
        for k in sorted({1, max(1, n // 2), n}):
            sel = select_start_nodes(td, env, k).tolist()
            want = [(r // B) % (n + 1) + 1 for r in range(k * B)]
            ctx.case(("mtsp-starts", n, B, k))
            ctx.count(f"mtsp.starts.k{'=' if k == n else '<'}n")
            if sel != want:
                ctx.disagreement("mtsp: select_start_nodes differs from (r // B) % num_loc + 1",
                                 {"n": n, "B": B, "k": k, "real": sel, "model": want})
            mask = td["action_mask"]
            bad = [(r, a) for r, a in enumerate(sel) if not (0 <= a < mask.shape[-1] and bool(mask[r % B, a]))]
            if bad:
                ctx.violation("mtsp:starts:not-offered-by-reset-mask",
                              "a forced start node (k ≤ number of customers) is not a valid action of the reset mask",
                              {"n": n, "B": B, "k": k, "starts": sel, "bad": bad[:5]})
        ctx.sample({"env": "mtsp", "n": n, "B": B, "get_num_starts": k0, "starts_for_k=n": select_start_nodes(td, env, n).tolist()[:12]})


if _has("Rl4co/Props/C12/Mtsp.lean"):
    register(Unit("C12", "mtsp", mtsp_check_starts, drivers=[], lean_modules=["Rl4co.Props.C12.Mtsp"],
                  theorems=[Theorem("Rl4co.Mtsp.starts_admitted_iff", "proved",
                                    "all k·B forced start nodes are valid actions offered by the mTSP reset mask iff k ≤ n (mask width = num_loc = n+1)"),
                            Theorem("Rl4co.Mtsp.default_starts_admitted", "proved",
                                    "the default number of starts (get_num_starts = n) is admitted"),
                            Theorem("Rl4co.Mtsp.agents_of_generator", "proved",
                                    "num_agents drawn by randint(min, max+1) with min ≥ 1 satisfies the hypothesis 1 ≤ m of the mTSP theorems")],
                  assumptions=[MTSP_NOTE, "k > n is judged by the ops family (known finding mtsp-start-out-of-range-C12)"]))


# =================================================================================================
# MDCPDP
# =================================================================================================
MODES = ["minmax", "minsum", "lateness"]
W_DEN = 4


class MdcpdpEnvs:
    """One real `MDCPDPEnv` per (num_loc, num_depot, problem_mode, dist_mode, start_mode): `_reset` sizes its tensors
    from the generator parameters, exactly as a user passes them through `generator_params`."""

    def __init__(self):
        self._envs = {}

    def get(self, n, K, open_mode=False, dist="L2", start="order", reward_mode="minsum"):
        key = (n, K, open_mode, dist, start)
        if key not in self._envs:
            from rl4co.envs.routing.mdcpdp.env import MDCPDPEnv

            self._envs[key] = MDCPDPEnv(generator_params=dict(num_loc=n, num_depot=K), dist_mode=dist,
                                        problem_mode="open" if open_mode else "close", reward_mode=reward_mode,
                                        start_mode=start, check_solution=False)
        return self._envs[key]

    def of(self, inst):
        return self.get(inst["n"], inst["K"], inst["open"], inst["dist"], inst.get("start_mode", "order"))


def md_dist_ticks(pts, dist):
    if dist == "L1":
        return [[(abs(a[0] - b[0]) + abs(a[1] - b[1])) * geom.TICKS_PER_GRID for b in pts] for a in pts]
    return geom.D_ticks(pts)


class MdCfg:
    """Configurations of one run: every combination of problem_mode × dist_mode × start_mode comes up in turn (all 8 within
    the first 8 batches of every routine, in an order drawn from the run's PRNG); sizes include larger instances."""

    def __init__(self, ctx):
        self.ctx = ctx
        self.combos = [(o, d, st) for o in (False, True) for d in ("L2", "L1") for st in ("order", "random")]
        ctx.rng.shuffle(self.combos)
        self.k = 0

    def next(self, n=None, K=None):
        rng, tier = self.ctx.rng, self.ctx.tier
        o, d, st = self.combos[self.k % len(self.combos)]
        self.k += 1
        n = n if n is not None else rng.choice([2, 4, 6, 6, 8, 12] if tier == "quick" else [2, 4, 6, 8, 12, 16, 20])
        K = K if K is not None else rng.choice([1, 2, 2, 3, 4] if tier == "quick" else [1, 2, 3, 4, 5])
        cfg = {"n": n, "K": K, "open": o, "dist": d, "start_mode": st}
        self.ctx.count(f"mdcpdp.cfg.{'open' if o else 'close'}.{d}.start={st}")
        return cfg


def md_cfg(rng, tier, n=None, K=None):
    n = n if n is not None else rng.choice([2, 4, 6] if tier == "quick" else [2, 4, 6, 8, 12])
    K = K if K is not None else rng.choice([1, 2, 2, 3] if tier == "quick" else [1, 2, 3, 4])
    return {"n": n, "K": K, "open": rng.random() < 0.5, "dist": rng.choice(["L2", "L2", "L1"]), "start_mode": "order"}


def md_clustered_points(rng, n, K):
    """collinear exact points: depots and pickups close together at one end, deliveries far away at the other end —
    carrying several orders at once then pays, so the capacity constraint decides the optimum"""
    y = rng.randrange(0, geom.GRID + 1)
    deps = [(rng.randrange(0, 40), y) for _ in range(K)]
    picks = [(rng.randrange(50, 90), y) for _ in range(n // 2)]
    dels = [(rng.randrange(900, 1000), y) for _ in range(n // 2)]
    return deps + picks + dels


def md_instance(rng, cfg, kind="random"):
    n, K = cfg["n"], cfg["K"]
    h = n // 2
    if kind in ("boundary", "clustered"):
        caps = rng.choice([[1] * K, [h] * K, [1] + [h] * (K - 1), [h] + [1] * (K - 1)])
    elif kind == "uniform":
        caps = [rng.randint(1, max(1, h))] * K
    else:
        caps = [rng.randint(1, max(1, h)) for _ in range(K)]
    pts = md_clustered_points(rng, n, K) if kind == "clustered" else mc.gen_points_box(rng, n + K)
    return {"kind": kind, "n": n, "K": K, "caps": caps, "pts": pts, "open": cfg["open"], "dist": cfg["dist"],
            "start_mode": cfg.get("start_mode", "order"), "start": 0, "w4": rng.choice([0, 1, 2, 3, 4, 4])}


def md_to_td(insts, cap_tensor=None):
    B = len(insts)
    K = insts[0]["K"]
    depot = torch.tensor([geom.to_unit(i["pts"][:K]) for i in insts], dtype=torch.float32)
    locs = torch.tensor([geom.to_unit(i["pts"][K:]) for i in insts], dtype=torch.float32)
    cap = cap_tensor if cap_tensor is not None else torch.tensor([i["caps"] for i in insts], dtype=torch.int64)
    lw = torch.tensor([[i["w4"] / W_DEN] for i in insts], dtype=torch.float32)
    return TensorDict({"locs": locs, "depot": depot, "capacity": cap, "lateness_weight": lw}, batch_size=[B])


def md_header(inst, mode, envK=None, specK=None):
    """`envK`: what the env's `_step` takes for num_depot (= capacity.shape[-1]); default = the instance's K."""
    N = inst["n"] + inst["K"]
    K = inst["K"] if envK is None else envK
    sK = inst["K"] if specK is None else specK
    split0 = inst["n"] // 2 + inst["K"]
    return (f"{N} {K} {split0} {inst['K']} {int(inst['open'])} {MODES.index(mode)} {inst['w4']} {W_DEN} {sK} {inst['n'] // 2} "
            f"{inst.get('start', 0)}")


def md_line(inst, actions, mode="minsum", env_caps=None, envK=None):
    D = md_dist_ticks(inst["pts"], inst["dist"])
    flat = " ".join(str(v) for row in D for v in row)
    caps = inst["caps"] if env_caps is None else env_caps
    return (f"mdcpdp.episode {md_header(inst, mode, envK=envK)} | " + " ".join(map(str, caps)) + " | "
            + " ".join(map(str, inst["caps"])) + " | " + flat + " | " + " ".join(map(str, actions)))


def _md_obs(td, r):
    return (tuple(rl.ticks(v) for v in td["current_length"][r].tolist()), int(td["current_carry"][r]),
            int(td["current_depot"][r]))


class _MdShim:
    """what `envcorr.compare_trace` needs from an adapter"""
    name = "mdcpdp"


MD = _MdShim()


def md_run(ctx, envs, insts, pad=0, forced=None, cap_tensor=None, reward_mode="minsum", pin_start=None):
    """Drives the real env.  Returns (env, episode, rows): `rows[r]` is `insts[r]` with `start` = the initial
    `current_depot` of that row (drawn by `_reset` when start_mode='random').  `pin_start` re-uses given draws."""
    c = insts[0]
    env = envs.of(c)
    env.reward_mode = reward_mode

    def post_reset(td):
        if pin_start is not None:
            td["current_depot"][:] = torch.tensor(pin_start, dtype=torch.int64).reshape(-1, 1)

    td0 = md_to_td(insts, cap_tensor)
    ep = mc.run_episode_obs(env, td0, envcorr.uniform_chooser(ctx.rng), _md_obs, extra_pad=pad, forced=forced,
                            max_steps=10 * (c["n"] + c["K"]) + 20, post_reset=post_reset)
    rows = [dict(inst, start=ep.obs[r][0][2]) for r, inst in enumerate(insts)]
    return env, ep, rows


def md_ask(ctx, insts, ep, mode="minsum", env_caps=None, envK=None):
    """every row of a batch is compared with the per-row model run on its own actions"""
    lines = [md_line(inst, ep.actions[r], mode, env_caps=env_caps, envK=envK) for r, inst in enumerate(insts)]
    return lines, ctx.driver.ask_many(lines)


def md_compare_state(ctx, inst, ep, r, f, what):
    model = list(zip([tuple(int(x) for x in s.split(",")) for s in f["len"].split(";")],
                     map(int, f["carry"].split(",")), map(int, f["dep"].split(","))))
    real = [tuple(o) for o in ep.obs[r]]
    if model != real:
        k = next((k for k in range(min(len(model), len(real))) if model[k] != real[k]), -1)
        ctx.disagreement(f"mdcpdp: (current_length, current_carry, current_depot) differs ({what})",
                         {"inst": inst, "actions": ep.actions[r], "row": r, "step": k,
                          "real": real[k] if k >= 0 else None, "model": model[k] if k >= 0 else None})


def md_feas_key(ctx, f, row, actions):
    """name the clause of the problem statement a real episode violates (Lean Spec verdicts); a known key is used only
    when switching off exactly that clause makes the Spec accept the episode"""
    if f["feas"] == "1":
        return None
    if f["vnohome"] == "0":
        return "mdcpdp:current-depot-stuck:vehicle-returns-to-depot-0"
    if f["vcap0"] == "0":
        return "mdcpdp:current-depot-stuck:capacity-of-depot-0-applied"
    st = row.get("start", 0)
    if st != 0 and actions and actions[0] == 0 and st in actions:
        # start_mode='random' drew depot st != 0, yet the first action is forced to node 0 and `current_depot` stays st: the mask
        # then offers node st as "the way home" while the vehicle of depot 0 is out.  Known syndrome = the FIRST clause the
        # Spec sees violated is exactly that visit (everything before it is clean, judged with st's capacity, which is the
        # one the env applies), and it is the clause "a vehicle starts while another one is out".
        k = actions.index(st)
        as_if = dict(row, caps=[row["caps"][st]] * row["K"])
        g0 = parse_fields(ctx.driver.ask(md_line(as_if, list(actions[:k]), env_caps=row["caps"])))
        g1 = parse_fields(ctx.driver.ask(md_line(as_if, list(actions[: k + 1]), env_caps=row["caps"])))
        if g0.get("vnohome") in ("0", "8") and g1.get("vnohome") == "2":
            return "mdcpdp:start-mode-random:first-action-forced-to-depot-0"
    return "mdcpdp:infeasible-episode"


def md_check_feasibility(ctx, episodes_quick=40, episodes_thorough=2000):
    envs = MdcpdpEnvs()
    cfgs = MdCfg(ctx)
    total = ctx.budget(episodes_quick, episodes_thorough)
    k = 0
    while k < total:
        cfg = cfgs.next()
        B = ctx.rng.choice([1, 2, 3, 4])
        insts = [md_instance(ctx.rng, cfg, ctx.rng.choice(["random", "boundary", "uniform"])) for _ in range(B)]
        env, ep, rows = md_run(ctx, envs, insts)
        k += B
        if ep.empty_mask_rows:
            r, t = ep.empty_mask_rows[0]
            ctx.violation("mdcpdp:dead-end", "all-False mask row while the batch is running",
                          {"inst": rows[r], "actions": ep.actions[r], "step": t})
            continue
        lines, replies = md_ask(ctx, rows, ep)
        for r in range(B):
            f = envcorr.compare_trace(ctx, MD, rows[r], ep.actions[r], ep.masks[r], ep.done[r], replies[r], "C01 stream")
            if "feas" not in f:
                continue
            md_compare_state(ctx, rows[r], ep, r, f, "C01 stream")
            ctx.case(("mdcpdp", repr(rows[r]), tuple(ep.actions[r])))
            ctx.count(f"mdcpdp.n={cfg['n']}.K={cfg['K']}")
            ctx.count(f"mdcpdp.kind={insts[r]['kind']}")
            ctx.count(f"mdcpdp.spec-verdict={f['why']}")
            ctx.count(f"mdcpdp.B={B}.caps-{'equal' if len(set(map(tuple, (i['caps'] for i in insts)))) == 1 else 'differ'}-across-rows")
            key = md_feas_key(ctx, f, rows[r], ep.actions[r])
            if key:
                ctx.violation(key, f"mask-confined episode of the real env violates the problem statement (Lean Spec clause {f['why']})",
                              {"inst": rows[r], "actions": ep.actions[r], "spec_clause": f["why"], "row": r, "B": B, "lean_line": lines[r]})
            ctx.sample({"env": "mdcpdp", "inst": rows[r], "actions": ep.actions[r], "spec_feasible": f["feas"]})
    md_generator_mismatch(ctx, envs)
    md_generator_contract(ctx)


def md_generator_mismatch(ctx, envs, episodes=6):
    """The bundled generator emits `capacity` of shape [B, 1]; the env takes `num_depot` from that shape."""
    for _ in range(ctx.budget(episodes, 40)):
        n, G = ctx.rng.choice([(4, 2), (4, 3), (6, 2), (6, 4)])
        cfg = {"n": n, "K": G, "open": False, "dist": "L2", "start_mode": "order"}
        inst = md_instance(ctx.rng, cfg, "uniform")
        env = envs.of(inst)
        torch.manual_seed(ctx.rng.randrange(2**31))
        gen = env.generator(batch_size=[1])
        cap = gen["capacity"]
        ctx.count(f"mdcpdp.generator.capacity-shape={tuple(cap.shape)}")
        if cap.shape[-1] == G:
            continue  # generator emits one capacity per depot: nothing to demonstrate
        c = int(cap[0, 0])
        inst["caps"] = [c] * G  # the documented meaning: capacity of the vehicle (of every depot)
        env_, ep, _rows = md_run(ctx, envs, [inst], cap_tensor=cap)
        line = md_line(inst, ep.actions[0], env_caps=[c], envK=cap.shape[-1])
        f = envcorr.compare_trace(ctx, MD, inst, ep.actions[0], ep.masks[0], ep.done[0], ctx.driver.ask(line),
                                  "C01 generator capacity shape")
        ctx.case(("mdcpdp-gen", repr(inst), tuple(ep.actions[0])))
        if f.get("feas") == "0":
            ctx.violation("mdcpdp:generator-capacity-shape:depots-treated-as-pickups",
                          "with the bundled generator (capacity [B,1], num_depot>1) a mask-confined episode violates the "
                          f"problem statement (Lean Spec clause {f['why']})",
                          {"inst": inst, "capacity_shape": list(cap.shape), "actions": ep.actions[0], "lean_line": line})


def md_generator_contract(ctx, draws=6):
    """the documented contract of MDCPDPGenerator at non-default parameters (ranges that differ from the defaults, both depot
    modes): shapes, coordinate box, capacity and lateness-weight ranges"""
    from rl4co.envs.routing.mdcpdp.generator import MDCPDPGenerator

    for k in range(ctx.budget(draws, 40)):
        n, G = ctx.rng.choice([(4, 2), (6, 3), (10, 1), (20, 5)])
        lo = ctx.rng.randint(1, 4)
        hi = lo + ctx.rng.randint(0, 3)
        wlo = ctx.rng.choice([0.0, 0.25, 0.5])
        whi = wlo + ctx.rng.choice([0.0, 0.25, 0.5])
        mode = ["single", "multiple"][k % 2]
        params = dict(num_loc=n, num_depot=G, min_capacity=lo, max_capacity=hi, min_lateness_weight=wlo,
                      max_lateness_weight=whi, depot_mode=mode)
        torch.manual_seed(ctx.rng.randrange(2**31))
        out = MDCPDPGenerator(**params)(batch_size=[5])
        cap, lw, dep, locs = out["capacity"], out["lateness_weight"], out["depot"], out["locs"]
        bad = []
        if tuple(locs.shape) != (5, n, 2) or tuple(dep.shape) != (5, G, 2):
            bad.append(f"shapes locs {tuple(locs.shape)} depot {tuple(dep.shape)}")
        if float(locs.min()) < 0 or float(locs.max()) > 1 or float(dep.min()) < 0 or float(dep.max()) > 1:
            bad.append("coordinates outside [min_loc, max_loc]")
        if int(cap.min()) < lo or int(cap.max()) > hi:
            bad.append(f"capacity {cap.flatten().tolist()} outside [{lo}, {hi}]")
        if whi > wlo and (float(lw.min()) < wlo - 1e-6 or float(lw.max()) > whi + 1e-6):
            bad.append(f"lateness_weight {lw.flatten().tolist()} outside [{wlo}, {whi}]")
        if mode == "single" and not bool((dep == dep[:, :1, :]).all()):
            bad.append("depot_mode='single' but the depots of an instance differ")
        ctx.case(("mdcpdp-generator", repr(params)))
        ctx.count(f"mdcpdp.generator.depot_mode={mode}")
        if bad:
            ctx.violation("mdcpdp:generator:instance-outside-documented-range",
                          "MDCPDPGenerator returned an instance outside its documented contract: " + "; ".join(bad),
                          {"generator_params": params, "capacity": cap.tolist(), "lateness_weight": lw.tolist()})


def md_check_termination(ctx, episodes_quick=40, episodes_thorough=2000):
    envs = MdcpdpEnvs()
    cfgs = MdCfg(ctx)
    total = ctx.budget(episodes_quick, episodes_thorough)
    k = 0
    while k < total:
        cfg = cfgs.next()
        B = ctx.rng.choice([1, 2, 3, 5])
        insts = [md_instance(ctx.rng, cfg, ctx.rng.choice(["random", "boundary"])) for _ in range(B)]
        pad = ctx.rng.choice([0, 0, 1, 3])
        try:
            env, ep, rows = md_run(ctx, envs, insts, pad=pad)
        except RuntimeError as e:
            ctx.violation("mdcpdp:no-termination", f"real env: {e}", {"insts": insts})
            k += B
            continue
        k += B
        lines, replies = md_ask(ctx, rows, ep)
        for r in range(B):
            f = envcorr.compare_trace(ctx, MD, rows[r], ep.actions[r], ep.masks[r], ep.done[r], replies[r], "C02 stream")
            d = ep.done[r]
            ctx.case(("mdcpdp", repr(rows[r]), tuple(ep.actions[r])))
            ctx.count(f"mdcpdp.n={cfg['n']}.K={cfg['K']}")
            if any(d[j] == 1 and d[j + 1] == 0 for j in range(len(d) - 1)):
                ctx.violation("mdcpdp:done-unstable", "a finished row became unfinished again",
                              {"inst": rows[r], "actions": ep.actions[r], "done": d})
            fd = mc.first_done(d)
            bound = cfg["n"] + 2 * cfg["K"] - 1 + (1 if rows[r]["start"] != 0 else 0)
            if fd is None:
                ctx.violation("mdcpdp:not-finished", "row not finished at the end of the batch episode",
                              {"inst": rows[r], "actions": ep.actions[r]})
            elif fd > bound:
                ctx.violation("mdcpdp:step-bound", f"row needed {fd} steps, bound is {bound}",
                              {"inst": rows[r], "actions": ep.actions[r]})
            if fd is not None and fd < len(d) - 1:
                ctx.count("mdcpdp.padded-rows")
            ctx.sample({"env": "mdcpdp", "inst": rows[r], "actions": ep.actions[r], "first_done": fd, "bound": bound, "B": B})
        for (r, t) in ep.empty_mask_rows:
            ctx.violation("mdcpdp:dead-end", "a row is offered no action while the batch is still running",
                          {"inst": rows[r], "actions": ep.actions[r], "step": t,
                           "row_done": ep.done[r][t] if t < len(ep.done[r]) else None})


def md_reward_ticks(env, td, acts, mode, insts):
    env.reward_mode = mode
    vals = env._get_reward(td, acts).reshape(-1).tolist()
    return [rl.ticks(v) * (W_DEN if mode == "lateness" else 1) for v in vals]


def md_reward_key(f, real):
    """Name the cause of reward ≠ objective.  A known key is used only when the REAL reward is exactly the value
    the Spec predicts with that single clause switched off; anything else is a fresh violation."""
    if real == -int(f["objA"]):
        return "mdcpdp:close-mode:last-return-leg-not-charged"
    if real == -int(f["objB"]):
        return "mdcpdp:current-depot-stuck:lengths-and-clock-shared-by-all-vehicles"
    if real == -int(f["objAB"]):
        return "mdcpdp:current-depot-stuck:shared-lengths+close-mode:last-return-leg-not-charged"
    return "mdcpdp:reward-ne-objective"


def md_check_reward(ctx, episodes_quick=40, episodes_thorough=2000):
    envs = MdcpdpEnvs()
    cfgs = MdCfg(ctx)
    total = ctx.budget(episodes_quick, episodes_thorough)
    k = 0
    while k < total:
        cfg = cfgs.next()
        B = ctx.rng.choice([1, 1, 2, 3, 4])
        insts = [md_instance(ctx.rng, cfg, ctx.rng.choice(["random", "boundary", "uniform"])) for _ in range(B)]
        pad = ctx.rng.choice([0, 0, 0, 1])
        env, ep, rows = md_run(ctx, envs, insts, pad=pad)
        insts = rows
        ctx.count(f"mdcpdp.B={B}.lateness-weights-{'equal' if len({i['w4'] for i in insts}) == 1 else 'differ'}-across-rows")
        k += B
        if ep.empty_mask_rows:
            ctx.count("mdcpdp.dead-end-skipped")
            continue
        acts = rl.actions_tensor(ep)
        for mode in MODES:
            real = md_reward_ticks(env, ep.td, acts, mode, insts)
            lines, replies = md_ask(ctx, insts, ep, mode)
            for r in range(B):
                f = parse_fields(replies[r])
                if "reward" not in f:
                    ctx.disagreement("mdcpdp: driver error", {"reply": replies[r], "line": lines[r][:400]})
                    continue
                if mode == MODES[0]:
                    md_compare_state(ctx, insts[r], ep, r, f, "C03 stream")
                ctx.case(("mdcpdp", mode, repr(insts[r]), tuple(ep.actions[r])), nontrivial=real[r] != 0)
                ctx.count(f"mdcpdp.{mode}.{'open' if cfg['open'] else 'close'}.K={cfg['K']}")
                if int(f["reward"]) != real[r]:
                    ctx.disagreement(f"mdcpdp: {mode} reward differs", {"inst": insts[r], "actions": ep.actions[r], "row": r,
                                                                        "real": real[r], "model": f["reward"]})
                # judge against the problem statement; the objective is only defined for feasible solutions
                # (episodes that violate a clause of the problem are C01's business)
                if f["feas"] != "1":
                    ctx.count("mdcpdp.objective-undefined(infeasible)")
                    continue
                if mode == "minsum" and cfg["open"] and f["feas"] == "1" and f["objopen"] != f["obj"]:
                    ctx.disagreement("mdcpdp: Spec inconsistency: declarative open length ≠ route-level minsum objective",
                                     {"inst": insts[r], "actions": ep.actions[r], "openLength": f["objopen"], "objMinsum": f["obj"]})
                if mode == "minsum" and cfg["open"] and real[r] != -int(f["objopen"]):
                    ctx.violation("mdcpdp:open-minsum-ne-open-length", "open-mode minsum reward ≠ declarative open length (theorem reward_minsum_open)",
                                  {"inst": insts[r], "actions": ep.actions[r], "real": real[r], "openLength": f["objopen"]})
                if real[r] != -int(f["obj"]):
                    key = md_reward_key(f, real[r])
                    ctx.violation(key, f"{mode} reward of the real env differs from the objective of the executed solution (Lean Spec)",
                                  {"inst": insts[r], "actions": ep.actions[r], "row": r, "B": B, "mode": mode,
                                   "real_reward_ticks": real[r], "spec_objective_ticks": int(f["obj"]), "lean_line": lines[r][:2000]})
                else:
                    ctx.count(f"mdcpdp.{mode}.reward-correct")
        ctx.sample({"env": "mdcpdp", "inst": insts[0], "actions": ep.actions[0],
                    "rewards_ticks": {m: md_reward_ticks(env, ep.td, acts, m, insts)[0] for m in MODES}})


def md_check_batch(ctx, groups_quick=12, groups_thorough=500):
    envs = MdcpdpEnvs()
    cfgs = MdCfg(ctx)
    for g in range(ctx.budget(groups_quick, groups_thorough)):
        cfg = cfgs.next()
        B = ctx.rng.choice([2, 3, 5])
        pad = ctx.rng.choice([0, 0, 1, 2])
        mode = MODES[g % 3]
        if g < 2:  # every run covers a padded close-mode batch (g = 0) and a padded open-mode batch (g = 1)
            cfg = dict(md_cfg(ctx.rng, ctx.tier, K=1), open=(g == 1))
            pad, mode = 1 + g, "minsum"
        insts = [md_instance(ctx.rng, cfg, ctx.rng.choice(["random", "boundary"])) for _ in range(B)]
        if ctx.rng.random() < 0.3:
            insts[ctx.rng.randrange(B)] = insts[0]
        env, ep, rows = md_run(ctx, envs, insts, pad=pad)
        insts = rows
        if ep.empty_mask_rows:
            continue
        rew_b = md_reward_ticks(env, ep.td, rl.actions_tensor(ep), mode, insts)
        lines, replies = md_ask(ctx, insts, ep, mode)
        fs = []
        for r in range(B):
            f = envcorr.compare_trace(ctx, MD, insts[r], ep.actions[r], ep.masks[r], ep.done[r], replies[r], "C04 batched row vs per-row model")
            fs.append(f)
            if "reward" in f:
                md_compare_state(ctx, insts[r], ep, r, f, "C04 batched")
                if int(f["reward"]) != rew_b[r]:
                    ctx.disagreement("mdcpdp: batched reward differs from the per-row model", {"inst": insts[r], "row": r,
                                     "actions": ep.actions[r], "real": rew_b[r], "model": f["reward"]})
        for r in range(B):
            d = ep.done[r]
            fin = d.index(1) if 1 in d else len(ep.actions[r])
            solo_actions = ep.actions[r][:fin]
            env1, ep1, _ = md_run(ctx, envs, [insts[r]], forced=[solo_actions], pin_start=[insts[r]["start"]])
            ctx.case(("mdcpdp", repr(insts[r]), tuple(ep.actions[r]), B, r))
            ctx.count(f"mdcpdp.B={B}.row={'0' if r == 0 else '>0'}")
            if ep1.actions[0] != solo_actions:
                ctx.violation("mdcpdp:batch-dependence:finish-step", "solo run does not finish at the same step as inside the batch",
                              {"inst": insts[r], "batched_actions": ep.actions[r], "solo_actions": ep1.actions[0], "row": r})
                continue
            if ep1.masks[0] != ep.masks[r][: fin + 1]:
                ctx.violation("mdcpdp:batch-dependence:mask", "masks differ between solo and batched run",
                              {"inst": insts[r], "actions": solo_actions, "row": r})
            rew_s = md_reward_ticks(env1, ep1.td, rl.actions_tensor(ep1), mode, [insts[r]])[0]
            if rew_s != rew_b[r]:
                # known cause: the row was stepped after done in close mode and the padding step added the last way back —
                # recognised only if the model reproduces BOTH values (padded = batched, first finished state = solo)
                if (fin < len(ep.actions[r]) and not cfg["open"] and fs[r].get("reward") == str(rew_b[r])
                        and fs[r].get("rnp") == str(rew_s)):
                    key = "mdcpdp:padding-step-adds-last-return-leg"
                else:
                    key = "mdcpdp:batch-dependence:reward"
                ctx.violation(key, "reward differs between the solo run and the batched run of the same instance with the same actions",
                              {"inst": insts[r], "row": r, "B": B, "mode": mode, "batched_actions": ep.actions[r],
                               "solo_reward_ticks": rew_s, "batched_reward_ticks": rew_b[r]})
        ctx.sample({"env": "mdcpdp", "cfg": cfg, "B": B, "pad": pad, "mode": mode, "row0": insts[0], "row0_actions": ep.actions[0],
                    "row0_batched_reward_ticks": rew_b[0]})


def md_candidates(inst):
    """canonical complete solutions: depot 0 first, the other depots in any order, every depot's vehicle started,
    every vehicle but the last returns to its own depot; customers cut into consecutive (possibly empty) tours"""
    n, K = inst["n"], inst["K"]
    custs = list(range(K, K + n))
    for perm in itertools.permutations(custs):
        for cuts in itertools.combinations_with_replacement(range(n + 1), K - 1):
            bounds = [0] + list(cuts) + [n]
            segs = [list(perm[bounds[j]: bounds[j + 1]]) for j in range(K)]
            for order in itertools.permutations(range(1, K)):
                deps = [0] + list(order)
                sol = []
                for j, d in enumerate(deps):
                    sol.append(d)
                    sol += segs[j]
                    if j < K - 1:
                        sol.append(d)
                yield sol


class MdCompleteness:
    """C05 plug-in: tiny instances enumerated exhaustively and driven next to companion rows with other capacities,
    lateness weights (and, for start_mode='random', other start depots)."""
    name = "mdcpdp"
    obj_fields = ["objopen"]
    FIXED = [((2, 1), None, "random"), ((4, 1), [1], "clustered"), ((4, 2), [2, 2], "random"), ((4, 2), [1, 2], "clustered"),
             ((2, 3), [1, 1, 1], "random"), ((4, 2), [2, 1], "clustered"), ((4, 2), [1, 1], "clustered"), ((4, 1), [2], "random")]

    def __init__(self, ctx):
        self.envs = MdcpdpEnvs()
        self.cfgs = MdCfg(ctx)

    def instances(self, ctx, g):
        if g < len(self.FIXED):  # every run: single depot, equal capacities, larger / smaller capacity than depot 0, 3 depots,
            (n, K), caps, kind = self.FIXED[g]  # binding capacities on clustered geometry
        else:
            (n, K), caps, kind = ctx.rng.choice([(2, 1), (2, 2), (4, 1), (4, 2), (2, 3)] + ([(4, 3)] if ctx.tier == "thorough" else [])), None, \
                ctx.rng.choice(["boundary", "uniform", "random", "clustered"])
        cfg = self.cfgs.next(n=n, K=K)
        inst = md_instance(ctx.rng, cfg, kind)
        if caps is not None:
            inst["caps"] = caps
        h = n // 2
        lo = dict(md_instance(ctx.rng, cfg, "random"), caps=[1] * K, w4=0)
        hi = dict(md_instance(ctx.rng, cfg, "random"), caps=[h + 1] * K, w4=4)
        comps = [lo, hi] if ctx.rng.random() < 0.5 else [hi, lo]
        ctx.count(f"mdcpdp.n={n}.K={K}")
        ctx.count(f"mdcpdp.kind={kind}")
        return inst, comps

    def candidates(self, inst):
        return md_candidates(inst)

    def env_for(self, inst):
        return self.envs.of(inst)

    def to_td(self, insts):
        return md_to_td(insts)

    def after_reset(self, td, r):
        return {"start": int(td["current_depot"][r])}

    def line(self, inst, actions):
        return md_line(inst, actions)

    def hide_key(self, inst, c, t, m, f):
        n, K, a = inst["n"], inst["K"], c[t]
        # the vehicle that is out at step t and what it carries
        opened = [x for k, x in enumerate(c[:t]) if x < K and x not in c[:k]]
        veh = opened[-1] if opened else None
        last_open = max(k for k, x in enumerate(c[:t]) if x == veh and x not in c[:k]) if veh is not None else 0
        onboard = sum(1 for x in c[last_open:t] if K <= x < K + n // 2) - sum(1 for x in c[last_open:t] if x >= K + n // 2)
        st = inst.get("start", 0)
        if st != 0 and a == 0 and veh == 0 and m[st] == "1" and m[0] == "0":
            # start_mode='random' drew depot `st`: the return of vehicle 0 to node 0 is replaced by node `st`
            return "mdcpdp:start-mode-random:return-to-depot-0-not-offered"
        if st != 0 and K <= a < K + n // 2 and veh is not None and inst["caps"][st] <= onboard < inst["caps"][veh]:
            # ... and depot `st`'s capacity is applied to the vehicle that is out
            return "mdcpdp:start-mode-random:capacity-of-start-depot-applied"
        if st == 0 and a < K and a != 0 and a == veh and m[0] == "1":
            # the vehicle returns to its OWN depot; the mask offers node 0 instead
            return "mdcpdp:current-depot-stuck:return-to-own-depot-not-offered"
        if st == 0 and K <= a < K + n // 2 and veh not in (None, 0) and inst["caps"][0] <= onboard < inst["caps"][veh]:
            # a pickup that fits the vehicle's own capacity but not depot 0's
            return "mdcpdp:current-depot-stuck:capacity-of-depot-0-applied"
        return "mdcpdp:mask-hides-feasible"

    def extra_check(self, ctx, inst, c, f):
        # theorem run_iff_admitsAll at run time: the Spec-side characterisation `admitsAll` (evaluated on the Spec simulation's
        # state) agrees with the model's mask along the whole candidate (start_mode 'order' rows only: the theorem assumes it)
        if inst.get("start", 0) == 0 and "admits" in f and f["admits"] != f.get("adm"):
            ctx.disagreement("mdcpdp: Spec-side characterisation admitsAll differs from the model's mask",
                             {"inst": inst, "solution": c, "admitsAll": f["admits"], "model_adm": f.get("adm")})

    def known_reachable(self, inst, c, f):
        # reachable although infeasible only because of the clauses the known `current_depot` defect breaks
        return f.get("vnohome") == "0" or f.get("vcap0") == "0"


def md_check_completeness(ctx, insts_quick=10, insts_thorough=60):
    mc.check_completeness_batched(ctx, MdCompleteness(ctx), insts_quick, insts_thorough)


MD_NOTE = ("MDCPDPEnv modelled per batch row over integer ticks (Rl4co/Env/Mdcpdp.lean; start_mode='random' through the initial "
           "`current_depot` read back from the reset state — the theorems assume start_mode='order'); every row of a "
           "real batch is compared with the per-row model; coordinates→distance arithmetic (L1/L2) and float32 rounding are outside the model "
           "(integral point sets make them exact); reward_mode='lateness_square' is not modelled (the real call raises)")


def _mods(path, mod, fallback):
    return [mod] if _has(path) else [fallback]


register(Unit("C01", "mdcpdp", mc.chunked(md_check_feasibility), drivers=["drv_mdcpdp"],
              lean_modules=_mods("Rl4co/Props/C01/Mdcpdp.lean", "Rl4co.Props.C01.Mdcpdp", "Rl4co.Spec.Mdcpdp")
              + (["Rl4co.Props.C03.MdcpdpSim"] if _has("Rl4co/Props/C03/MdcpdpSim.lean") else [])
              + (["Rl4co.Props.C03.MdcpdpFixed", "Rl4co.Proofs.MdcpdpSpec"] if _has("Rl4co/Props/C03/MdcpdpFixed.lean") else []),
              theorems=_thms("Rl4co/Props/C01/Mdcpdp.lean", [
                  Theorem("Rl4co.Mdcpdp.core_of_run", "partial", "every finished mask-confined episode (solo row, well-formed instance): customers exactly once, delivery after its pickup, load within [0, capacity of depot 0] after every prefix, depots entered empty"),
                  Theorem("Rl4co.Mdcpdp.feasible_of_run_counterexample", "proved", "¬ feasible_of_run_statement: the capacity of depot 0 is applied to the vehicle of depot 1"),
                  Theorem("Rl4co.Mdcpdp.feasible_of_run_uniform_counterexample", "proved", "even with equal capacities: a vehicle started at depot 1 ends its tour at node 0"),
                  Theorem("Rl4co.Mdcpdp.feasible_of_run_random_start_counterexample", "proved", "start_mode='random': first action forced to node 0 although current_depot = r; a finished episode that the problem statement rejects"),
                  Theorem("Rl4co.Mdcpdp.feasible_of_run_generator_counterexample", "proved", "bundled generator (capacity [B,1], model of the real reset with K = genCapLen G): a finished episode that the problem statement rejects"),
                  Theorem("Rl4co.Mdcpdp.generator_shape_mismatch", "proved", "the generator's capacity width (extracted) ≠ num_depot for more than one depot")] + ([
                  Theorem("Rl4co.Mdcpdp.feasible_of_run_single_depot", "proved", "single depot: every finished mask-confined episode satisfies the FULL problem statement (Spec.Feasible)"),
                  Theorem("Rl4co.Mdcpdp.verdict_v0_of_run", "proved", "any number of depots: finished episodes satisfy the Spec with exactly the four clauses of v0 switched off (home, own capacity, per-vehicle lengths, last way home)"),
                  Theorem("Rl4co.Mdcpdp.Fixed.feasible_of_run", "proved", "FULL C01 for any number of depots and any per-depot capacities under the intended current_depot rule [intended `current_depot` rule `stepF true`; the token `Params.mdcpdpDepotOnVisit` extracted from the source says which rule the code has]"),
                  Theorem("Rl4co.Mdcpdp.Fixed.fixes_counterexample", "proved", "the as-coded counterexample instances behave correctly under the intended rule"),
                  Theorem("Rl4co.Mdcpdp.feasible_exists", "proved", "Spec sanity: every problem with cap 0 ≥ 1 has a feasible solution"),
                  Theorem("Rl4co.Mdcpdp.wf_generated_iff", "proved", "the instance built from the bundled generator is well-formed iff there is one depot"),
                  Theorem("Rl4co.Mdcpdp.wf_generated_repaired", "proved", "repaired clause: one capacity entry per depot ⇒ well-formed")] if _has("Rl4co/Props/C03/MdcpdpSim.lean") else [])+[]),
              assumptions=[MD_NOTE] + ([] if _has("Rl4co/Props/C01/Mdcpdp.lean") else [NO_THM])))
register(Unit("C02", "mdcpdp", mc.chunked(md_check_termination), drivers=["drv_mdcpdp"],
              lean_modules=_mods("Rl4co/Props/C02/Mdcpdp.lean", "Rl4co.Props.C02.Mdcpdp", "Rl4co.Spec.Mdcpdp"),
              theorems=_thms("Rl4co/Props/C02/Mdcpdp.lean", [
                  Theorem("Rl4co.Mdcpdp.mask_nonempty", "proved", "every reachable state offers an action (solo row, well-formed instance)"),
                  Theorem("Rl4co.Mdcpdp.done_stable", "proved", "done is absorbing"),
                  Theorem("Rl4co.Mdcpdp.steps_le", "proved", "an unfinished mask-confined run has at most N + K − 1 steps"),
           Theorem("Rl4co.Mdcpdp.done_iff_length", "proved", "a never-padded mask-confined run is finished exactly when it has N + K − 1 steps"),
           Theorem("Rl4co.Mdcpdp.equal_length", "proved", "rows with the same N and K finish at the same step: the bundled decoding loops never pad an MDCPDP row")]),
              assumptions=[MD_NOTE] + ([] if _has("Rl4co/Props/C02/Mdcpdp.lean") else [NO_THM])))
register(Unit("C03", "mdcpdp", mc.chunked(md_check_reward), drivers=["drv_mdcpdp"],
              lean_modules=_mods("Rl4co/Props/C03/Mdcpdp.lean", "Rl4co.Props.C03.Mdcpdp", "Rl4co.Spec.Mdcpdp")
              + (["Rl4co.Props.C03.MdcpdpSim"] if _has("Rl4co/Props/C03/MdcpdpSim.lean") else [])
              + (["Rl4co.Props.C03.MdcpdpFixed", "Rl4co.Proofs.MdcpdpSpec"] if _has("Rl4co/Props/C03/MdcpdpFixed.lean") else []),
              theorems=_thms("Rl4co/Props/C03/Mdcpdp.lean", [
                  Theorem("Rl4co.Mdcpdp.Fixed.reward_eq_objective_open", "proved", "FULL C03 in open mode for any number of depots (minmax, minsum, lateness) under the intended current_depot rule [intended `current_depot` rule `stepF true`; the token `Params.mdcpdpDepotOnVisit` extracted from the source says which rule the code has]"),
                  Theorem("Rl4co.Mdcpdp.Fixed.reward_eq_obj_v1", "proved", "intended rule, close mode: the only remaining deviation from the Spec is the last way home"),
                  Theorem("Rl4co.Mdcpdp.Fixed.sim_refines", "proved", "intended rule: the Spec simulation (all clauses but chargeLast) never fails along a run and carries the per-depot bookkeeping"),
                  Theorem("Rl4co.Mdcpdp.objMinmax_le_objMinsum", "proved", "Spec sanity: longest per-depot length ≤ total"),
                  Theorem("Rl4co.Mdcpdp.reward_eq_objective_single_open", "proved", "single depot, open mode: reward = −objective of the problem as stated for minmax, minsum and lateness"),
                  Theorem("Rl4co.Mdcpdp.reward_eq_obj_v0", "proved", "any K, open or close: all three rewards = −(objective of the Spec variant v0) — the code deviates from the Spec by the four v0 clauses only"),
                  Theorem("Rl4co.Mdcpdp.sim_refines", "proved", "refinement: along every mask-confined run the Spec simulation (v0) never fails and carries the environment's bookkeeping"),
                  Theorem("Rl4co.Mdcpdp.reward_minsum_open", "partial", "open mode: minsum reward = −(total open-route length) for every mask-confined run"),
                  Theorem("Rl4co.Mdcpdp.reward_minmax_counterexample", "proved", "¬ reward_statement minmax (all lengths accumulate in slot 0)"),
                  Theorem("Rl4co.Mdcpdp.reward_minsum_close_counterexample", "proved", "¬ reward_statement minsum (close mode: last way back never charged)"),
                  Theorem("Rl4co.Mdcpdp.reward_lateness_counterexample", "proved", "¬ reward_statement lateness (clock not restarted per vehicle)")]),
              assumptions=[MD_NOTE] + ([] if _has("Rl4co/Props/C03/Mdcpdp.lean") else [NO_THM])))
register(Unit("C04", "mdcpdp", mc.chunked(md_check_batch), drivers=["drv_mdcpdp"],
              lean_modules=_mods("Rl4co/Props/C04/Mdcpdp.lean", "Rl4co.Props.C04.Mdcpdp", "Rl4co.Spec.Mdcpdp"),
              theorems=_thms("Rl4co/Props/C04/Mdcpdp.lean", [
                  Theorem("Rl4co.Mdcpdp.batchStep_eq_map", "proved", "the batched step is the per-row step (no statement reads another row)"),
                  Theorem("Rl4co.Mdcpdp.batch_rows", "proved", "every row of the batched step, at any position of any batch, is the row stepped on its own"),
                  Theorem("Rl4co.Mdcpdp.pad_noop_open", "partial", "open mode: a step after done keeps done, mask and minsum reward"),
                  Theorem("Rl4co.Mdcpdp.pad_noop_counterexample", "proved", "¬ pad_noop_statement (close mode: the padding step adds the last way back)")]),
              assumptions=[MD_NOTE] + ([] if _has("Rl4co/Props/C04/Mdcpdp.lean") else [NO_THM])))
register(Unit("C05", "mdcpdp", mc.chunked(md_check_completeness), drivers=["drv_mdcpdp"],
              lean_modules=_mods("Rl4co/Props/C05/Mdcpdp.lean", "Rl4co.Props.C05.Mdcpdp", "Rl4co.Spec.Mdcpdp")
              + (["Rl4co.Props.C05.MdcpdpFixed"] if _has("Rl4co/Props/C05/MdcpdpFixed.lean") else []),
              theorems=_thms("Rl4co/Props/C05/Mdcpdp.lean", [
                  Theorem("Rl4co.Mdcpdp.run_of_feasible_counterexample", "proved", "¬ run_of_feasible_statement: return to the vehicle's own depot is never offered"),
                  Theorem("Rl4co.Mdcpdp.run_of_feasible_capacity_counterexample", "proved", "¬ run_of_feasible_statement: a larger capacity than depot 0's cannot be used"),
           Theorem("Rl4co.Mdcpdp.mask_eq_admits", "proved", "in every reachable state the mask is `envAdmits` evaluated on the Spec simulation's state"),
           Theorem("Rl4co.Mdcpdp.run_iff_admitsAll", "proved", "IFF: a visit list is a mask-confined run exactly when every visit is offered by envAdmits (the class the mask really admits)"),
           Theorem("Rl4co.Mdcpdp.finished_iff", "proved", "IFF: … and it is finished exactly when every depot's vehicle was started and every customer served")] + ([
           Theorem("Rl4co.Mdcpdp.Fixed.run_of_feasible", "proved", "FULL C05 under the intended current_depot rule: every canonical feasible solution (any K, any per-depot capacities) is a finished mask-confined run [token Params.mdcpdpDepotOnVisit says which rule the code has]"),
           Theorem("Rl4co.Mdcpdp.Fixed.run_iff_admitsAllX", "proved", "intended rule: the admitted class as an iff"),
           Theorem("Rl4co.Mdcpdp.Fixed.mask_eq_admitsX", "proved", "intended rule: the mask is envAdmitsX on the Spec simulation's state (own depot, own capacity)")] if _has("Rl4co/Props/C05/MdcpdpFixed.lean") else [])),
              assumptions=[MD_NOTE] + ([] if _has("Rl4co/Props/C05/Mdcpdp.lean") else [NO_THM])))
