"""Training family: running statistics / stateful baselines (C20) and training losses (C16).

Real `RewardScaler`, `ExponentialBaseline`, `WarmupBaseline`, `REINFORCE`, `POMO`, `SymNCO`, `A2C`, `PPO`
(tiny real policies, random weights) against the Lean models `Rl4co/Train/{Welford,Baselines,Loss}.lean`
(exact rational arithmetic on the recorded floats) and the references in `Rl4co/Spec/Train.lean`.
"""
from __future__ import annotations

import math
from fractions import Fraction
from typing import List

import rl  # noqa: F401
from rl import torch
from common import Theorem, Unit, register
from leanio import parse_fields
from train_util import close, fr, fs, pdual, plist, pten, ten_tokens


def _seed_torch(ctx) -> torch.Generator:
    s = ctx.rng.randrange(1 << 30)
    torch.manual_seed(s)
    g = torch.Generator()
    g.manual_seed(s + 1)
    return g


# =================================================================================================
# C20 — RewardScaler, ExponentialBaseline, WarmupBaseline
# =================================================================================================
F32_EPS = Fraction(1, 1 << 23)  # torch.finfo(torch.float32).eps


def _welford_bound(u: float, r: float, n1: int, n: int, nb: int) -> float:
    """Relative error bound of the running standard deviation of the batched Welford update AS CODED, with unit
    roundoff `u`, conditioning `r = |mean| / std` of everything observed, first batch size `n1` (its `delta` is taken
    against the initial mean 0, so it behaves like the naive formula and contributes `r²·n1/n`), `n` values in `nb`
    batches.  The clean code stays below 0.19× this bound (measured worst case over quick seeds 0–5 and thorough
    seeds 0–2, float32 and float64, r ∈ {50, 300, 1000}); the checks use 1× (> 5× the measured worst case); a
    sum-of-squares implementation is off by 7–320× the bound."""
    return 1.5 * u * (r * r * (n1 / max(n, 1)) * (math.log2(max(n1, 2)) + 1) + r * math.sqrt(max(nb, 1)) + math.log2(n + 2) + 4)


def _dyadic(rng, bits=4, lo=-8, hi=8) -> float:
    return rng.randrange(lo << bits, (hi << bits) + 1) / (1 << bits)


def _gen_history(ctx, kind: str):
    """A history of batches.  `exact`: dyadic data and batch sizes keeping every cumulative count a power
    of two, so that float32 arithmetic in the real code is exact and states compare bit-for-bit."""
    rng = ctx.rng
    if kind == "exact":
        sizes, tot = [], 0
        first = rng.choice([1, 2, 4])
        sizes.append(first)
        tot = first
        while tot < 32 and len(sizes) < 6:
            sizes.append(tot)  # doubles the count
            tot *= 2
        const = rng.random() < 0.3
        c = _dyadic(rng, 2)
        return [[(c if const else _dyadic(rng, 2, -4, 4)) for _ in range(n)] for n in sizes]
    if kind == "constant":
        c = rng.choice([0.0, 1.0, -2.5, 0.1, 1e3])
        return [[c] * rng.choice([1, 2, 3, 4, 6]) for _ in range(rng.randint(2, 6))]
    if kind == "zero-mean":
        # running mean exactly 0 (symmetric dyadic batches), all-zero batches, then anything
        out = []
        for _ in range(rng.randint(2, 5)):
            if rng.random() < 0.3:
                out.append([0.0] * rng.choice([1, 2, 4]))
            else:
                xs = [_dyadic(rng, 2, 0, 4) for _ in range(rng.choice([1, 2, 3]))]
                out.append(xs + [-x for x in xs])
        out.append([_dyadic(rng, 2, -4, 4) for _ in range(rng.choice([2, 4, 6]))])
        return out
    if kind == "size1":
        return [[rng.uniform(-5, 5)] for _ in range(rng.randint(2, 8))]
    nb = rng.randint(1, 10)
    scale = rng.choice([1.0, 1.0, 1e-3, 1e3])
    off = rng.choice([0.0, 0.0, 10.0, -100.0])
    out = []
    for _ in range(nb):
        n = rng.choice([1, 1, 2, 3, 4, 6, 7, 12, 16, 33])
        if rng.random() < 0.15:
            v = rng.uniform(-3, 3) * scale + off
            out.append([v] * n)
        else:
            out.append([rng.gauss(0, 1) * scale + off for _ in range(n)])
    return out


def check_scaler(ctx):
    from rl4co.models.rl.common.utils import RewardScaler

    n_hist = ctx.budget(160, 2500)
    kinds = ["exact", "generic", "generic", "constant", "size1", "zero-mean"]

    def shaped(t):
        """the shapes the real callers pass: [B] (REINFORCE), [B, S] (POMO / multi-start), occasionally 0-d and [B,S,A]"""
        n = t.numel()
        r = ctx.rng.random()
        if n == 1 and r < 0.4:
            return t.reshape(())
        divs = [d for d in (2, 3, 4) if n % d == 0 and n > d]
        if divs and r < 0.5:
            d = ctx.rng.choice(divs)
            m = n // d
            if m % 2 == 0 and m > 2 and ctx.rng.random() < 0.25:
                return t.reshape(d, 2, m // 2)
            return t.reshape(d, m) if ctx.rng.random() < 0.7 else t.reshape(m, d)
        return t

    for h in range(n_hist):
        kind = kinds[h % len(kinds)]
        mode = ctx.rng.choice(["norm", "scale", "norm", "scale", "off", "int"])
        dtype = torch.float32 if (kind == "exact" or ctx.rng.random() < 0.7) else torch.float64
        hist = _gen_history(ctx, kind)
        # the values the code really sees
        tens = [shaped(torch.tensor(b, dtype=dtype)) for b in hist]
        hist_q = [[fr(v) for v in t.reshape(-1).tolist()] for t in tens]
        for t in tens:
            ctx.count(f"scaler.score-rank.{t.dim()}")
        ctx.count(f"scaler.kind.{kind}")
        ctx.count(f"scaler.mode.{mode}")
        ctx.count(f"scaler.batches.{min(len(hist), 8)}")
        if any(len(b) == 1 for b in hist):
            ctx.count("scaler.has-size1-batch")
        scale_arg = {"norm": "norm", "scale": "scale", "off": None, "int": ctx.rng.choice([2, 3, 10])}[mode]
        sc = RewardScaler(scale_arg)
        # --- real code: successive __call__s, statistics read after each ------------------------------
        outs, stats = [], []
        try:
            for t in tens:
                o = sc(t.clone())
                outs.append(o)
                stats.append((int(sc.count), float(sc.mean), float(sc.M2)))
        except Exception as e:
            ctx.case(("scaler-raises", h), nontrivial=True)
            ctx.violation("scaler-statistics", f"RewardScaler({scale_arg!r}) raises {type(e).__name__} on a score tensor of shape "
                          f"{list(tens[len(outs)].shape)} (every shape the trainers pass must be observed entry by entry)",
                          {"history": hist, "shapes": [list(t.shape) for t in tens], "mode": mode, "dtype": str(dtype),
                           "error": str(e)[:200]})
            continue
        # --- model: statistics -----------------------------------------------------------------------
        leads = [t.shape[0] if t.dim() > 0 else 1 for t in tens]  # len(tensor) as the code would see it un-flattened
        line = f"train.welford {len(hist_q)} " + " ".join(f"{ld} {len(b)} " + " ".join(fs(v) for v in b) for ld, b in zip(leads, hist_q))
        rep = parse_fields(ctx.driver.ask(line))
        m_count = [int(x) for x in rep["count"].split(",")]
        m_mean, m_M2, m_var = plist(rep["mean"]), plist(rep["M2"]), plist(rep["var"])
        s_mean, s_ssq, s_var = plist(rep["smean"]), plist(rep["ssq"]), plist(rep["svar"])
        ctx.case(("scaler", h, kind, mode, len(hist)), nontrivial=sum(len(b) for b in hist) > 1)
        wit = {"history": hist, "shapes": [list(t.shape) for t in tens], "mode": mode, "dtype": str(dtype)}
        # REFERENCE = the Spec on everything observed so far (count = number of entries); the as-coded model (tokens from
        # the AST) is compared with the reference after the real code has been judged against the reference
        r_count, acc = [], 0
        for b in hist_q:
            acc += len(b)
            r_count.append(acc)
        model_is_ref = (m_count == r_count and m_mean == s_mean and m_M2 == s_ssq and m_var == s_var)
        if mode in ("off", "int"):
            # statistics untouched, output = identity or scores / scale
            if int(sc.count) != 0:
                ctx.disagreement("RewardScaler updated its statistics although scaling is off/int", wit)
            for t, o in zip(tens, outs):
                exp = t if mode == "off" else t / scale_arg
                if o.shape != t.shape or not torch.equal(o, exp):
                    ctx.violation("scaler-output", "RewardScaler(off/int) output is not the stated transformation", wit)
            continue
        ctx.sample({"unit": "train", "what": "RewardScaler history", "mode": mode, "batch_shapes": [list(t.shape) for t in tens][:4],
                    "first_batch": hist[0][:4], "real_count_mean_M2_after_last_batch": list(stats[-1]),
                    "model_count_mean_M2_after_last_batch": [m_count[-1], float(m_mean[-1]), float(m_M2[-1])]}, cap=1)
        scale_mag = max([abs(float(v)) for b in hist for v in b] + [1e-30])
        exact = kind == "exact"
        ok = True
        for t_idx, (c, mu, m2) in enumerate(stats):
            N = r_count[t_idx]
            if c != N:
                ctx.violation("scaler-statistics", "RewardScaler.count is not the number of values observed so far",
                              {**wit, "at": t_idx, "code": c, "reference": N})
                ok = False
                break
            if exact:
                good = fr(mu) == s_mean[t_idx] and fr(m2) == s_ssq[t_idx]
            else:
                uu = 2.0 ** -24 if dtype == torch.float32 else 2.0 ** -53
                ref_m2, ref_mu = float(s_ssq[t_idx]), float(s_mean[t_idx])
                sd = math.sqrt(ref_m2 / (N - 1)) if N > 1 and ref_m2 > 0 else 0.0
                if sd > 0:
                    # tolerance from the error bound of the Welford update as coded (NOT of a sum-of-squares formula)
                    bnd = _welford_bound(uu, abs(ref_mu) / sd, len(hist_q[0]), N, t_idx + 1)
                    tol_m2 = 2 * bnd * ref_m2
                    # plus the jump term the fitted bound does not have: a batch far from the running mean (an outlier
                    # first value, then a constant batch) makes `delta2 = x − mean_new` inherit the rounding error of
                    # the mean update, ≈ u·n_b·max|x − mean_old|, once per element: |ΔM2| ≲ u·n_b·max|delta|²·log n_b
                    # (false alarm at thorough seed 7: 958.76 followed by 33 × 7.806 in float32, |ΔM2|/M2 = 3.4e-6)
                    jump, mean_before = 0.0, 0.0
                    for bi in range(t_idx + 1):
                        xs = [float(v) for v in hist_q[bi]]
                        md = max(abs(x - mean_before) for x in xs)
                        jump += len(xs) * md * md * math.log2(len(xs) + 2)
                        mean_before = float(s_mean[bi])
                    tol_m2 += 4 * uu * jump
                else:
                    tol_m2 = 16 * uu * max(scale_mag * scale_mag * N, 1e-300)  # constant data: M2 should be ~0
                good = abs(mu - ref_mu) <= 8 * uu * scale_mag * math.sqrt(t_idx + 2) and abs(m2 - ref_m2) <= tol_m2
            if not good:
                # model ≠ code; the spec (= model) says what the statistics of everything seen are
                ctx.violation("scaler-statistics",
                              "running mean / M2 differ from mean / sum of squared deviations of all values observed",
                              {**wit, "at": t_idx, "code": [c, mu, m2],
                               "reference": [N, float(s_mean[t_idx]), float(s_ssq[t_idx])]})
                ok = False
                break
        if not ok:
            continue
        if not model_is_ref:
            ctx.disagreement("as-coded Welford model ≠ reference although the real statistics match the reference", wit)
            continue
        ctx.count("scaler.stats-exact" if exact else "scaler.stats-tol")
        # --- model: outputs (square root supplied as an oracle, checked against the variance) ----------
        eps = F32_EPS if dtype == torch.float32 else Fraction(1, 1 << 52)  # torch.finfo(scores.dtype).eps
        u = 6e-8 if dtype == torch.float32 else 1.2e-16
        sq, sqr = [], []
        for t_idx in range(len(hist)):
            N = r_count[t_idx]
            sq.append(Fraction(0) if N < 2 else fr(math.sqrt(max(0.0, float(m_var[t_idx])))))
            sqr.append(Fraction(0) if N < 2 else fr(math.sqrt(float(s_var[t_idx]))))
        line = f"train.scale {mode} {fs(eps)} {len(hist_q)} " + " ".join(
            f"{fs(s)} {fs(sr)} {ld} {len(b)} " + " ".join(fs(v) for v in b) for s, sr, ld, b in zip(sq, sqr, leads, hist_q))
        rep2 = parse_fields(ctx.driver.ask(line))
        c_outs = [plist(x) for x in rep2["out"].split(";")]   # as-coded model
        m_outs = [plist(x) for x in rep2["ref"].split(";")]   # reference: the stated transformation
        if c_outs != m_outs:
            ctx.disagreement("as-coded __call__ model ≠ reference transformation", wit)
        for t_idx, (o, mo) in enumerate(zip(outs, m_outs)):
            N = r_count[t_idx]
            if N < 2:
                # N = 1: the code divides M2 = 0 by count - 1 = 0; excluded from the theorems by hypothesis
                allnan = bool(torch.isnan(o).all())
                ctx.count("scaler.n1-output-nan" if allnan else "scaler.n1-output-finite")
                continue
            var = float(s_var[t_idx])
            std = math.sqrt(var)
            fac = std + float(eps)
            # rounding of the real code (not modelled): the error of (x - mean) is amplified by 1/fac and the
            # relative error of M2 is about u·N·|x|²/M2; skip when the data are numerically constant at this
            # precision (ill-conditioned), otherwise widen the tolerance accordingly
            uu = 2.0 ** -24 if dtype == torch.float32 else 2.0 ** -53
            err_in = 8 * uu * scale_mag * math.sqrt(t_idx + 2)
            # relative error of the running std: Welford's bound (as coded), not the naive algorithm's
            rel_fac = 0.0 if exact else (_welford_bound(uu, abs(float(s_mean[t_idx])) / std, len(hist_q[0]), N, t_idx + 1)
                                         + 2.0 ** -24 if std > 0 else float("inf"))  # + float32 square root
            if not exact and (err_in / fac > 1e-3 or rel_fac > 2e-2):
                ctx.count("scaler.output-skipped-degenerate-variance")
                continue
            if o.shape != tens[t_idx].shape:
                ctx.violation("scaler-output", "RewardScaler output does not have the shape of its input", {**wit, "at": t_idx})
                break
            for x_code, x_mod in zip(o.reshape(-1).tolist(), mo):
                tol = 1e-6 * (1 + abs(float(x_mod))) + 2 * err_in / fac + rel_fac * abs(float(x_mod))
                if not (abs(x_code - float(x_mod)) <= tol):
                    ctx.violation("scaler-output", f"RewardScaler('{mode}') output differs from the stated transformation",
                                  {**wit, "at": t_idx, "code": x_code, "reference": float(x_mod)})
                    break
            else:
                ctx.count("scaler.outputs-checked")
                continue
            break
    ctx.note("RewardScaler with a single observed value (N = 1): M2/(count-1) = 0/0 → NaN scores on the real code "
             "(the sample standard deviation of one value is undefined; theorems assume N ≥ 2)")


def check_scaler_conditioning(ctx):
    """Conditioning probe: scores whose |mean| is much larger than their spread (un-normalised tour lengths, makespans):
    |mean|/std ∈ {50, 300, 1000}, float32 and float64, a small first batch followed by 2–8 batches of 64–512 values, many
    small batches, and long histories.  The REAL running std must agree with the sample std of everything observed to the
    error bound of the Welford update as coded (`_welford_bound`; threshold 1× the bound > 5× the clean code's measured
    worst case 0.19×).  A numerically different algorithm (running Σx, Σx² with M2 = Σx² − n·mean²) is off by 7–320× the
    bound although it is algebraically equal.  Reference: two-pass float64 with exactly rounded sums (`math.fsum`)."""
    from rl4co.models.rl.common.utils import RewardScaler

    reps = ctx.budget(1, 4)
    worst = {"float32": 0.0, "float64": 0.0}
    for rep_i in range(reps):
        for dtype in (torch.float32, torch.float64):
            uu = 2.0 ** -24 if dtype == torch.float32 else 2.0 ** -53
            for ratio in (50, 300, 1000):
                for layout in ("small-first+large", "many-small", "long"):
                    rng = ctx.rng
                    g = _seed_torch(ctx)
                    std = rng.choice([0.5, 1.0, 2.0])
                    mean = -ratio * std * rng.choice([1, 1, -1])
                    if layout == "small-first+large":
                        sizes = [rng.choice([1, 2, 4, 16])] + [rng.choice([64, 128, 256, 512]) for _ in range(rng.randint(2, 8))]
                    elif layout == "many-small":
                        sizes = [rng.choice([1, 2, 3, 5, 8]) for _ in range(rng.randint(200, 400))]
                    else:
                        sizes = [rng.choice([256, 512])] * ctx.budget(120, 1000)
                    mode = rng.choice(["norm", "scale"])
                    two_d = rng.random() < 0.3
                    sc = RewardScaler(mode)
                    seen: List[float] = []
                    ctx.count(f"scaler.cond.{str(dtype)[6:]}.ratio{ratio}.{layout}")
                    ctx.case(("scaler-cond", rep_i, str(dtype), ratio, layout), nontrivial=True)
                    flagged = False
                    for bi, n in enumerate(sizes):
                        x = (torch.randn(n, generator=g, dtype=torch.float64) * std + mean).to(dtype)
                        xin = x.reshape(2, -1) if (two_d and n % 2 == 0 and n > 2) else x
                        out = sc(xin.clone())
                        seen += x.tolist()
                        N = len(seen)
                        if N < 32 or (bi % 16 and bi != len(sizes) - 1 and layout != "small-first+large"):
                            continue
                        m_ref = math.fsum(seen) / N
                        ssq = math.fsum((v - m_ref) ** 2 for v in seen)
                        s_ref = math.sqrt(ssq / (N - 1))
                        s_code = math.sqrt(max(float(sc.M2), 0.0) / (N - 1))
                        rel = abs(s_code - s_ref) / s_ref
                        bnd = _welford_bound(uu, abs(m_ref) / s_ref, sizes[0], N, bi + 1)
                        worst[str(dtype)[6:]] = max(worst[str(dtype)[6:]], rel / bnd)
                        wit = {"dtype": str(dtype), "mean": mean, "std": std, "batch_sizes": sizes[:12], "batches_seen": bi + 1,
                               "values_seen": N, "mode": mode}
                        if int(sc.count) != N or abs(float(sc.mean) - m_ref) > 8 * uu * abs(m_ref) * math.sqrt(bi + 2):
                            ctx.violation("scaler-statistics", "running count / mean are not those of all values observed",
                                          {**wit, "code": [int(sc.count), float(sc.mean)], "reference": [N, m_ref]})
                            flagged = True
                            break
                        if rel > bnd:
                            ctx.violation("scaler-statistics",
                                          "running std (sqrt(M2/(count-1))) differs from the sample std of all values observed by more "
                                          "than the error bound of the Welford update (ill-conditioned scores: |mean| ≫ std)",
                                          {**wit, "code_std": s_code, "reference_std": s_ref, "relative_error": rel,
                                           "welford_bound": bnd, "error_over_bound": rel / bnd})
                            flagged = True
                            break
                        # the scaled output of this very call
                        if bnd < 2e-2:
                            eps = float(F32_EPS) if dtype == torch.float32 else 2.0 ** -52
                            ref = [((v - m_ref) if mode == "norm" else v) / (s_ref + eps) for v in x.tolist()[:8]]
                            got = out.reshape(-1).tolist()[:8]
                            # the absolute term is the running-mean tolerance of the check above divided by std (the error of the
                            # mean grows like √batches; a constant 16·u·|mean|/std was a false alarm at thorough seed 10: mean −150,
                            # std 0.5, float32, 529 batches: output off by 3.2e-4 with the mean inside its own tolerance)
                            tolo = [abs(r_) * (bnd + 2.0 ** -23) + max(16.0, 8 * math.sqrt(bi + 2)) * uu * abs(m_ref) / s_ref + 1e-6
                                    for r_ in ref]
                            if any(abs(a - b) > t for a, b, t in zip(got, ref, tolo)):
                                ctx.violation("scaler-output", f"RewardScaler('{mode}') output differs from the stated transformation "
                                              "beyond the Welford error bound", {**wit, "code": got[:4], "reference": ref[:4]})
                                flagged = True
                                break
                            ctx.count("scaler.cond.outputs-checked")
                    if not flagged:
                        ctx.count("scaler.cond.histories-within-bound")
    ctx.note("conditioning probe: worst (relative error of the running std) / (Welford bound) on this run: "
             + ", ".join(f"{k}: {v:.3f}" for k, v in worst.items())
             + "; threshold 1.0 (clean code measured ≤ 0.19 over quick seeds 0–5 and thorough seeds 0–2, i.e. threshold > 5× the clean worst case)")
    ctx.sample({"unit": "train", "what": "RewardScaler conditioning probe", "worst_error_over_welford_bound": worst,
                "threshold": 1.0, "clean_worst_case_quick_seeds_0_5_thorough_0_2": 0.19}, cap=5)


def check_ema(ctx):
    from rl4co.models.rl.reinforce.baselines import ExponentialBaseline, MeanBaseline

    n_hist = ctx.budget(120, 2000)
    for h in range(n_hist):
        rng = ctx.rng
        kind = ["exact", "generic", "zero", "generic", "constant-mean", "zero"][h % 6]
        exact = kind != "generic"
        default_beta = rng.random() < 0.2  # ExponentialBaseline() with its default beta
        if kind == "exact":
            beta = rng.choice([0.5, 0.75, 0.25, 0.0, 1.0, 0.875])
            hist = [[_dyadic(rng, 3) for _ in range(rng.choice([1, 2, 4, 8]))] for _ in range(rng.randint(1, 8))]
        elif kind == "zero":
            # histories in which the moving average is exactly 0.0 at some step, then moves away again
            beta = rng.choice([0.5, 0.5, 0.75, 0.25, 0.0])
            pat = rng.choice(["zeros-first", "zero-mean-first", "lands-on-zero", "zero-in-the-middle"])
            tail = [[_dyadic(rng, 2, 1, 5) * rng.choice([1, -1]) for _ in range(rng.choice([1, 2, 4]))] for _ in range(rng.randint(2, 4))]
            if pat == "zeros-first":
                hist = [[0.0] * rng.choice([1, 2, 4]) for _ in range(rng.randint(1, 3))] + tail
            elif pat == "zero-mean-first":
                x = _dyadic(rng, 2, 1, 4)
                hist = [[x, -x]] + ([[2 * x, -x, -x, 0.0]] if rng.random() < 0.5 else []) + tail
            elif pat == "lands-on-zero":
                # v1 = m, v2 = beta*m + (1-beta)*m2 = 0  ⇔  m2 = -beta*m/(1-beta)   (dyadic for these betas)
                m = _dyadic(rng, 1, 1, 4)
                beta = rng.choice([0.5, 0.75])
                m2 = -beta * m / (1 - beta)
                hist = [[m, m], [m2]] + tail
            else:
                m = _dyadic(rng, 2, 1, 4)
                hist = [[m]] + [[0.0, 0.0]] * 1 + tail if beta == 0.0 else [[0.0], [m, -m]] + tail
            ctx.count(f"ema.zero-pattern.{pat}")
        elif kind == "constant-mean":
            beta = rng.choice([0.5, 0.8, 0.25])
            m = _dyadic(rng, 2)
            hist = [[m] * rng.choice([1, 2, 3]) for _ in range(rng.randint(2, 6))]
        else:
            beta = rng.choice([0.8, 0.8, 0.9, 0.99, 0.3, 0.0])
            hist = [[rng.gauss(-5, 2) for _ in range(rng.choice([1, 2, 3, 5, 16]))] for _ in range(rng.randint(1, 12))]
        if default_beta:
            beta = 0.8
        use_mean_cls = beta == 0.0 and rng.random() < 0.5
        bl = MeanBaseline() if use_mean_cls else (ExponentialBaseline() if default_beta else ExponentialBaseline(beta=beta))
        # the model is fed the CONFIGURED decay (0 for MeanBaseline, 0.8 = the documented default when none is given)
        ctx.count(f"ema.kind.{kind}")
        if default_beta:
            ctx.count("ema.default-constructed")
        ctx.count(f"ema.beta.{beta}")
        if use_mean_cls:
            ctx.count("ema.MeanBaseline")
        shape2d = rng.random() < 0.3
        tens = []
        for b in hist:
            t = torch.tensor(b, dtype=torch.float32)
            if shape2d and len(b) % 2 == 0:
                t = t.reshape(2, -1)
            elif len(b) == 1 and rng.random() < 0.3:
                t = t.reshape(())
            ctx.count(f"ema.reward-rank.{t.dim()}")
            tens.append(t)
        vs = []
        for t in tens:
            v, l = bl.eval(None, t)
            if l != 0 or (torch.is_tensor(v) and v.requires_grad):
                ctx.violation("ema-output", "ExponentialBaseline.eval returned a loss / a value carrying gradient",
                              {"beta": beta, "history": hist})
            vs.append(float(v))
        hq = [[fr(x) for x in t.reshape(-1).tolist()] for t in tens]
        line = f"train.ema {fs(fr(beta))} {len(hq)} " + " ".join(f"{len(b)} " + " ".join(fs(x) for x in b) for b in hq)
        rep = parse_fields(ctx.driver.ask(line))
        mv, closed, rec = plist(rep["v"]), plist(rep["closed"]), plist(rep["rec"])
        ctx.case(("ema", h, beta, len(hist)), nontrivial=len(hist) > 1)
        wit = {"beta": beta, "history": hist}
        if any(v == 0 for v in rec[:-1]):
            ctx.count("ema.history-with-moving-average-exactly-0")
        ctx.sample({"unit": "train", "what": "ExponentialBaseline history", "beta": beta, "batches": hist[:4],
                    "real_v": vs[:4], "model_v": [float(x) for x in mv[:4]]}, cap=2)
        if rec != closed:
            ctx.disagreement("EMA recurrence ≠ closed form (theorem ema_closed_form contradicted?)", wit)
            continue
        # REFERENCE = the recurrence (Ema.step); `mv` is the as-coded model (tokens from the AST)
        bad = False
        for t_idx, (vc, vm) in enumerate(zip(vs, rec)):
            if fr(vc) == vm:
                ctx.count("ema.step-bit-exact")
            if not close(vc, vm, 2e-6):
                ctx.violation("ema-recurrence", "ExponentialBaseline does not follow v = beta*v + (1-beta)*mean",
                              {**wit, "at": t_idx, "code": vc, "reference": float(vm)})
                bad = True
                break
        if not bad and (mv != rec or any(d != 0 for d in plist(rep["d"]))):
            ctx.disagreement("as-coded EMA model ≠ recurrence although the real values follow the recurrence", wit)


class _StubPolicy:
    """Stands in for the frozen policy of a RolloutBaseline: the 'greedy reward' is read from the batch."""

    def __call__(self, td, env=None, **kw):
        return {"reward": td["bl"]}


def check_warmup(ctx):
    from rl4co.models.rl.reinforce.baselines import (ExponentialBaseline, NoBaseline, RolloutBaseline,
                                                      WarmupBaseline)
    from tensordict import TensorDict

    n_hist = ctx.budget(40, 400)
    for h in range(n_hist):
        rng = ctx.rng
        n = rng.choice([1, 2, 3, 4, 5, 7, 10, 64, 199, 200, 201, 250])
        beta = rng.choice([0.8, 0.5, 0.9])
        inner_kind = rng.choice(["no", "ema", "rollout"])
        ibeta = rng.choice([0.5, 0.25])
        if inner_kind == "no":
            inner = NoBaseline()
        elif inner_kind == "ema":
            inner = ExponentialBaseline(beta=ibeta)
        else:
            inner = RolloutBaseline()
            inner.policy = _StubPolicy()
        calls = {"inner": 0}
        orig_eval = inner.eval

        def counted(*a, _o=orig_eval, **k):
            calls["inner"] += 1
            return _o(*a, **k)

        inner.eval = counted
        inner.epoch_callback = lambda *a, **k: None  # the wrapped baseline's own callback is not under test here
        if rng.random() < 0.2:
            wb = WarmupBaseline(inner)  # defaults: n_epochs = 1, warmup_exp_beta = 0.8
            n, beta = wb.n_epochs, wb.warmup_baseline.beta
            ctx.count("warmup.default-constructed")
        else:
            wb = WarmupBaseline(inner, n_epochs=n, warmup_exp_beta=beta)
        zero_rewards = rng.random() < 0.35  # warm-up moving average exactly 0 while alpha < 1
        ctx.count(f"warmup.n.{n if n <= 10 else '>10'}")
        ctx.count(f"warmup.inner.{inner_kind}")
        events, toks = [], []
        inner_v = None  # inner EMA state as the harness tracks it
        E = max(200, n + 6)  # always more epochs than the warm-up horizon
        eval_epochs = set(rng.sample(range(E), 12)) | {0, 1, 2, n - 1, n, n + 1, n + 2}
        code_alpha, code_evals = [], []

        def do_eval():
            nonlocal inner_v
            B = rng.choice([1, 2, 3, 4])
            if zero_rewards and len(code_evals) < 3:
                half = [_dyadic(rng, 2, 0, 3) for _ in range(max(1, B // 2))]
                vals = (half + [-x for x in half]) if rng.random() < 0.6 else [0.0] * (2 * len(half))
                B = len(vals)
                R = torch.tensor(vals, dtype=torch.float64)
            else:
                R = torch.tensor([rng.gauss(-4, 1) for _ in range(B)], dtype=torch.float64)
            if B % 2 == 0 and rng.random() < 0.3 and inner_kind != "rollout":
                R = R.reshape(2, B // 2)  # multi-start shaped rewards
            ctx.count(f"warmup.reward-rank.{R.dim()}")
            blv = torch.tensor([rng.gauss(-4, 1) for _ in range(B)], dtype=torch.float64)
            td = TensorDict({"bl": blv}, batch_size=[B])
            before = calls["inner"]
            wv_before = wb.warmup_baseline.v
            v, l = wb.eval(td, R, None)
            inner_called = calls["inner"] > before
            warm_called = wb.warmup_baseline.v is not wv_before
            # inner baseline result, as tokens for the model
            if not inner_called:
                itok = "no"
            elif inner_kind == "no":
                itok = "no"
            elif inner_kind == "ema":
                itok = f"ema {fs(fr(ibeta))} " + ("none" if inner_v is None else f"some {fs(inner_v)}")
                inner_v = fr(inner.v)
            else:
                itok = "rollout " + ten_tokens(blv, dual=False)
            toks.append("ev " + ten_tokens(R) + " " + itok)
            code_evals.append((v, l, inner_called, warm_called, wb.warmup_baseline.v))
            events.append("ev")

        for e in range(E):
            if e in eval_epochs:
                do_eval()
            wb.epoch_callback(None, epoch=e)
            toks.append(f"cb {e}")
            events.append("cb")
            code_alpha.append(wb.alpha)
        do_eval()
        line = f"train.warmup {n} {fs(fr(beta))} {len(events)} " + " ".join(toks)
        rep = parse_fields(ctx.driver.ask(line))
        cev = rep["events"].split("|")      # as-coded model (tokens from the AST)
        mev = rep["refevents"].split("|")   # REFERENCE form: what the property states; the real code is judged against it
        ctx.case(("warmup", h, n, inner_kind), nontrivial=True)
        wit = {"n_epochs": n, "beta": beta, "inner": inner_kind, "epochs": E, "zero_mean_rewards_first": zero_rewards}
        ctx.sample({"unit": "train", "what": "WarmupBaseline history", "n_epochs": n, "beta": beta, "inner": inner_kind,
                    "epochs_of_callbacks": E, "real_alpha_after_epochs_0..4": code_alpha[:5],
                    "model_events_head": mev[:4]}, cap=3)
        ia = ie = 0
        n_viol = len(ctx.violations)
        for kind, m in zip(events, mev):
            f = m.split(":")
            if kind == "cb":
                a_model, a_spec = Fraction(f[1]), Fraction(f[2])
                e = ia
                if a_model != a_spec:
                    ctx.disagreement("warm-up alpha (reference callback) ≠ min(1,(e+1)/n) (theorem warmup_alpha contradicted?)", {**wit, "epoch": e})
                a_code = code_alpha[ia]
                ia += 1
                if float(a_spec) != float(a_code):
                    ctx.violation("warmup-alpha", "WarmupBaseline.alpha after the callback of epoch e is not min(1,(e+1)/n)",
                                  {**wit, "epoch": e, "code": a_code, "reference": float(a_spec)})
                    break
                ctx.count("warmup.alpha." + ("0<a<1" if 0 < a_spec < 1 else str(int(a_spec))))
            else:
                v, l, inner_called, warm_called, wv = code_evals[ie]
                ie += 1
                if f[1] == "error":
                    ctx.disagreement("warm-up mixture shapes", wit)
                    break
                br = f[1]
                ctx.count(f"warmup.eval-branch.{br}")
                if inner_called != (br in ("inner", "both")) or warm_called != (br in ("warm", "both")):
                    ctx.disagreement("which baselines WarmupBaseline.eval evaluates", {**wit, "branch": br,
                                     "inner_called": inner_called, "warm_called": warm_called})
                    break
                shape, vals, dvals = pten(":".join(f[2:5]))
                cv = v if torch.is_tensor(v) else torch.tensor(float(v), dtype=torch.float64)
                if list(cv.shape) != shape or any(d != 0 for d in dvals):
                    ctx.disagreement("warm-up value shape", {**wit, "code": list(cv.shape), "model": shape})
                    break
                if not all(close(a, b, 1e-6) for a, b in zip(cv.reshape(-1).tolist(), vals)):
                    ctx.violation("warmup-convex", "WarmupBaseline.eval is not alpha*v_b + (1-alpha)*v_wb",
                                  {**wit, "branch": br, "code": cv.reshape(-1).tolist(), "reference": [float(x) for x in vals]})
                    break
                mema = None if f[-1] == "none" else Fraction(f[-1])
                if (mema is None) != (wv is None) or (mema is not None and not close(float(wv), mema, 1e-6)):
                    ctx.violation("ema-recurrence", "the warm-up moving average does not follow v = beta*v + (1-beta)*mean",
                                  {**wit, "code": None if wv is None else float(wv), "reference": str(mema)})
                    break
        if len(ctx.violations) == n_viol and cev != mev:
            ctx.disagreement("as-coded warm-up model ≠ reference although the real object follows the reference", wit)


def run_c20(ctx):
    check_scaler(ctx)
    check_scaler_conditioning(ctx)
    check_ema(ctx)
    check_warmup(ctx)


C20_NOTE = ("RewardScaler / ExponentialBaseline / WarmupBaseline modelled statement by statement over exact rationals "
            "(Rl4co/Train/Welford.lean, Baselines.lean); float rounding in the real code is outside the model "
            "(exact stream: dyadic data with power-of-two cumulative counts compares bit-for-bit; generic stream to 1e-5); "
            "the square root is an uninterpreted function in the model (theorems hold for every `sq`), its value is supplied by "
            "the harness; N = 1 (division by count-1 = 0 → NaN in the real code) is excluded by hypothesis and only probed")

C20_MODULES = ["Rl4co.Props.C20.TrainWelford", "Rl4co.Props.C20.TrainBaselines", "Rl4co.Props.C20.TrainCoded",
               "Rl4co.Props.C20.TrainSpecSanity"]
C20_THEOREMS = [
    Theorem("Rl4co.Train.Welford.welford_exact", "proved",
            "after ANY list of batches (any sizes): count = N, mean = Σx/N, M2 = Σ(x − mean)² of everything observed "
            "(field of characteristic 0)"),
    Theorem("Rl4co.Train.Welford.inv_update", "proved", "one batched update as written preserves the exactness invariant"),
    Theorem("Rl4co.Train.Welford.welford_variance", "proved", "M2/(count−1) is the sample variance of everything observed"),
    Theorem("Rl4co.Train.Welford.scale_norm", "proved",
            "'norm': output = (x − mean)/(sq(sample variance) + eps) over all values observed incl. the scores, N ≥ 2, any sq"),
    Theorem("Rl4co.Train.Welford.scale_scale", "proved", "'scale': output = x/(sq(sample variance) + eps), N ≥ 2"),
    Theorem("Rl4co.Train.Welford.call_state_norm", "proved", "a call extends the history by its scores"),
    Theorem("Rl4co.Train.Welford.scale_off", "proved", "scale=None: identity, statistics untouched"),
    Theorem("Rl4co.Train.Welford.scale_int", "proved", "integer scale: x/c, statistics untouched"),
    Theorem("Rl4co.Train.ema_first", "proved", "first exponential-baseline value = batch mean"),
    Theorem("Rl4co.Train.ema_recurrence", "proved", "v ← beta·v + (1−beta)·mean"),
    Theorem("Rl4co.Train.ema_eval", "proved",
            "ExponentialBaseline.eval on dual numbers: stored value = recurrence on reward.mean(), returned value detached, loss 0"),
    Theorem("Rl4co.Train.ema_closed_form", "proved", "closed form β^t m₀ + (1−β) Σ β^{t−k} m_k of the recurrence, any history"),
    Theorem("Rl4co.Train.warmup_alpha", "proved", "alpha after the callback of epoch e (epochs 0..e in order) = warmupAlpha n e"),
    Theorem("Rl4co.Train.warmupAlpha_eq_min", "proved", "warmupAlpha n e = min 1 ((e+1)/n) in a linearly ordered field"),
    Theorem("Rl4co.Train.warmup_convex", "proved",
            "WarmupBaseline.eval value = alpha·v_b + (1−alpha)·v_wb entrywise (or the wrapped baseline's result when alpha = 1)"),
    # translator tie: the driver runs the as-coded definitions (tokens from the Python AST); these obligations hold for the
    # extracted tokens only and stop compiling when one of them changes
    Theorem("Rl4co.Train.Welford.updateC_eq", "proved", "obligation: RewardScaler.update as coded (flatten before count, the four Welford statements) = reference update, any tensor shape"),
    Theorem("Rl4co.Train.Welford.callC_eq", "proved", "obligation: __call__ as coded (count−1, mean subtracted in 'norm') = reference"),
    Theorem("Rl4co.Train.Ema.stepC_eq", "proved", "obligation: recurrence beta·v+(1−beta)·mean and first-evaluation test `is None` as coded = reference"),
    Theorem("Rl4co.Train.Ema.evalC_eq", "proved", "obligation: ExponentialBaseline.eval on dual numbers as coded = reference"),
    Theorem("Rl4co.Train.Warmup.epochCallbackC_eq", "proved", "obligation: `epoch < n_epochs` and `(epoch+1)/n_epochs` as coded = reference"),
    Theorem("Rl4co.Train.Warmup.evalC_eq", "proved", "obligation: warm-up mixture of value and loss as coded = reference"),
    Theorem("Rl4co.Train.Warmup.configC_eq", "proved", "obligation: WarmupBaseline stores n_epochs and hands warmup_exp_beta to its moving average"),
    Theorem("Rl4co.Train.rollout_kwargs_passed", "proved", "obligation: get_reinforce_baseline('rollout') passes n_epochs / exp_beta on"),
    Theorem("Rl4co.Train.Welford.welford_exact_coded", "proved", "welford_exact for the as-coded update and score tensors of ANY shape"),
    Theorem("Rl4co.Train.Welford.scale_norm_coded", "proved", "scale_norm for the as-coded call"),
    Theorem("Rl4co.Train.Welford.scale_scale_coded", "proved", "scale_scale for the as-coded call"),
    Theorem("Rl4co.Train.ema_coded", "proved", "first value = mean; afterwards beta·v+(1−beta)·mean, also when v = 0 (as coded)"),
    Theorem("Rl4co.Train.warmup_alpha_coded", "proved", "alpha after epoch e = min 1 ((e+1)/n) for the as-coded callback, every e"),
    Theorem("Rl4co.Train.warmup_convex_coded", "proved", "warm-up mixture for the as-coded eval"),
    Theorem("Rl4co.Spec.Train.mean_shift", "proved", "Spec sanity: shifting every observation by c shifts the mean by c"),
    Theorem("Rl4co.Spec.Train.sampleVar_shift", "proved", "Spec sanity: the sample variance does not depend on where the scores are centred"),
    Theorem("Rl4co.Spec.Train.sumSqDev_const", "proved", "Spec sanity: constant observations have zero spread"),
    Theorem("Rl4co.Spec.Train.warmupAlpha_bounds", "proved", "Spec sanity: the warm-up weight lies in (0, 1]"),
    Theorem("Rl4co.Spec.Train.warmupAlpha_mono", "proved", "Spec sanity: … and never decreases"),
    Theorem("Rl4co.Spec.Train.ema_const_history", "proved", "Spec sanity: a constant history keeps the moving average constant (weights sum to 1)"),
]

register(Unit("C20", "train", run_c20, drivers=["drv_train"], lean_modules=C20_MODULES, theorems=C20_THEOREMS,
              assumptions=[C20_NOTE]))


# =================================================================================================
# C16 — REINFORCE (all baselines), POMO, SymNCO, A2C, PPO
# =================================================================================================
from train_util import Capture, Direction, gen_batch, tiny_policy  # noqa: E402


def _noop(*a, **k):
    return None


def _mk_env(num_loc=5, dbl=False):
    """Real TSPEnv; with `dbl` its generator's output is cast to float64 (instances are data, not code under
    test) so that the whole computation runs in double precision and comparisons are tight."""
    from rl4co.envs import TSPEnv

    env = TSPEnv(generator_params=dict(num_loc=num_loc))
    if dbl:
        orig = env.generator._generate

        def gen64(batch_size):
            td = orig(batch_size)
            for k in list(td.keys()):
                if td[k].dtype == torch.float32:
                    td[k] = td[k].double()
            return td

        env.generator._generate = gen64
    return env


def _mk_critic(policy, dbl):
    """A real `CriticNetwork` on a copy of the policy's encoder (what `create_critic_from_actor` builds, with
    the value head sized for the tiny embedding)."""
    import copy

    from rl4co.models.rl.common.critic import CriticNetwork

    c = CriticNetwork(copy.deepcopy(policy.encoder), embed_dim=16, hidden_dim=16)
    return c.double() if dbl else c


def _optrat(v) -> str:
    return "none" if v is None else f"some {fs(fr(v))}"


def _tol(dbl: bool):
    return (1e-9, 1e-8) if dbl else (2e-5, 2e-3)  # (value rtol, derivative rtol)


class _BlTok:
    """Builds the driver tokens of a baseline evaluation from the baseline's state BEFORE the step and what
    was captured during it."""

    def __init__(self, ctx, baseline, dirn_params_cb):
        self.ctx = ctx
        self.bl = baseline
        self.caps = {}
        # warm-up weight the REFERENCE expects (min(1,(e+1)/n) after the callback of epoch e); when set, the model is
        # fed with it instead of the real object's alpha, so a wrong schedule shows up in the baseline value and the loss
        self.expected_alpha = {}
        self._install(baseline)

    def _install(self, bl):
        from rl4co.models.rl.reinforce.baselines import CriticBaseline, WarmupBaseline

        if isinstance(bl, WarmupBaseline):
            self._install(bl.baseline)
        if isinstance(bl, CriticBaseline) and bl.critic is not None:
            self.caps[id(bl)] = Capture(bl.critic)

    def snapshot(self):
        """state before the step"""
        from rl4co.models.rl.reinforce.baselines import ExponentialBaseline, WarmupBaseline

        def snap(bl):
            if isinstance(bl, WarmupBaseline):
                return {"alpha": bl.alpha, "wv": bl.warmup_baseline.v, "inner": snap(bl.baseline)}
            if isinstance(bl, ExponentialBaseline):
                return {"v": bl.v}
            return {}

        for c in self.caps.values():
            c.clear()
        return snap(self.bl)

    def tokens(self, bl, snap, dirn, td, env, has_extra, extra):
        from rl4co.models.rl.reinforce.baselines import (CriticBaseline, ExponentialBaseline, NoBaseline,
                                                          RolloutBaseline, SharedBaseline, WarmupBaseline)

        if has_extra:
            return "given " + ten_tokens(extra) + " 0 0"
        if isinstance(bl, WarmupBaseline):
            a = fr(bl.alpha if snap is None else snap["alpha"])
            inner_evaluated = a != 0  # what the real object did
            a = self.expected_alpha.get(id(bl), a)
            itok = self.tokens(bl.baseline, snap["inner"], dirn, td, env, False, None) if inner_evaluated else "no"
            # the horizon and decay the harness CONFIGURED (not what the object happens to hold)
            n_cfg, b_cfg = getattr(bl, "_verif_cfg", (bl.n_epochs, bl.warmup_baseline.beta))
            return (f"warmup {fs(a)} {n_cfg} {fs(fr(b_cfg))} {_optrat(snap['wv'])} " + itok)
        if isinstance(bl, NoBaseline):
            return "no"
        if isinstance(bl, SharedBaseline):
            return "shared"
        if isinstance(bl, ExponentialBaseline):
            return f"ema {fs(fr(bl.beta))} {_optrat(snap['v'])}"
        if isinstance(bl, CriticBaseline):
            calls = self.caps[id(bl)].calls
            assert len(calls) == 1, f"critic called {len(calls)} times"
            out = calls[0][2]
            return "critic " + ten_tokens(out, dirn.dd_each(out))
        if isinstance(bl, RolloutBaseline):
            with torch.inference_mode():
                g = bl.policy(td.clone(), env)["reward"]
            return "rollout " + ten_tokens(g.clone(), dual=False)
        raise TypeError(type(bl))


def _compare_loss(ctx, tag, rep, code_loss, code_dd, dbl, wit, scale_d=1.0, xtol=0.0):
    """model (v, d) vs code loss / θ·grad, and reference vs code; returns False when something was flagged;
    `xtol`: additional relative tolerance (error bound of a float computation that is outside the model)"""
    rt_v, rt_d = _tol(dbl)
    rt_v, rt_d = rt_v + xtol, rt_d + xtol
    mv, md = pdual(rep["loss"])
    okay = True
    if not close(code_loss, mv, rt_v):
        ctx.disagreement(f"{tag}: loss value", {**wit, "code": float(code_loss), "model": float(mv)})
        okay = False
    if not close(code_dd, md, rt_d, atol=rt_d * scale_d):
        ctx.disagreement(f"{tag}: directional derivative θ·grad", {**wit, "code": float(code_dd), "model": float(md)})
        okay = False
    return okay


def _judge_reference(ctx, tag, what, model_vd, spec_vd, code_loss, code_dd, dbl, wit, scale_d, model_ok,
                     check_d=True, key="loss-not-reference-surrogate", xtol=0.0):
    """The reference surrogate (Lean Spec, evaluated on the recorded rollout) against the REAL loss and θ·grad:
    a difference is a violation of the property itself (whether or not the model follows the code); when the
    code agrees with both, model and reference must agree exactly (the theorems say so)."""
    rt_v, rt_d = _tol(dbl)
    rt_v, rt_d = rt_v + xtol, rt_d + xtol
    sv, sd = spec_vd
    bad_v = not close(code_loss, sv, rt_v)
    bad_d = check_d and not close(code_dd, sd, rt_d, atol=rt_d * scale_d)
    if bad_v or bad_d:
        ctx.violation(key, f"{tag}: {'loss' if bad_v else 'gradient (θ·grad)'} differs from {what}",
                      {**wit, "code": [float(code_loss), code_dd], "reference": [float(sv), float(sd)]})
        return False
    if model_ok and (model_vd[0] != sv or (check_d and model_vd[1] != sd)):
        ctx.disagreement(f"{tag}: model ≠ reference although both match the code (theorem contradicted?)", wit)
    return True


class _ScalerTrack:
    """The advantage scaler inside `calculate_loss`: its coefficients for a step follow from the C20 model fed with
    every advantage observed so far (the advantages themselves come from the loss model with scaling off)."""

    def __init__(self, mode, dbl):
        self.mode, self.dbl, self.hist = mode, dbl, []
        self.bound = 0.0  # relative error bound of the real scaler's std for the current step (Welford, as coded)

    def token(self, ctx, mk_line):
        """returns the `scale` token for this step, or None when the step is outside the theorems (N < 2) or
        numerically degenerate"""
        if self.mode is None:
            return "off"
        if isinstance(self.mode, int):
            return f"div {self.mode}"
        rep0 = parse_fields(ctx.driver.ask(mk_line("off")))
        if "error" in rep0:
            return "off"
        shp = [int(x) for x in rep0["advshape"].strip("[]").split(",") if x != ""]
        self.hist.append((shp[0] if shp else 1, plist(rep0["adv"])))
        line = f"train.welford {len(self.hist)} " + " ".join(f"{ld} {len(b)} " + " ".join(fs(v) for v in b) for ld, b in self.hist)
        rep = parse_fields(ctx.driver.ask(line))
        N = int(rep["count"].split(",")[-1])
        if N < 2:
            return None
        mean, var = plist(rep["mean"])[-1], plist(rep["var"])[-1]
        if var < 0:
            return None
        eps = F32_EPS if not self.dbl else Fraction(1, 1 << 52)
        std = fr(float(torch.tensor(float(var), dtype=torch.float32).sqrt()))  # the code takes the root in float32
        fac = std + eps
        if float(fac) < 1e-4:
            return None
        uu = 2.0 ** -53 if self.dbl else 2.0 ** -24
        self.bound = _welford_bound(uu, abs(float(mean)) / max(float(std), 1e-300), len(self.hist[0][1]), N, len(self.hist)) + 2.0 ** -24
        if self.bound > 2e-2:
            return None
        return f"norm {fs(mean)} {fs(fac)}" if self.mode == "norm" else f"div {fs(fac)}"


def _judge_step(ctx, tag, loss, code_dd, R, ll, dll, bl_val, rtok, ltok, btok, scaler, dbl, wit):
    """The real loss / θ·grad / baseline value of one `calculate_loss` against the model and the reference."""
    def mk_line(sc):
        return f"train.reinforce {sc} {rtok} {ltok} {btok}"

    sc_tok = scaler.token(ctx, mk_line) if scaler is not None else "off"
    if sc_tok is None:
        ctx.count("c16.scaler-step-outside-theorems(N<2 or zero variance)")
        ctx.count("c16.scaler-n1-loss-nan" if bool(torch.isnan(loss)) else "c16.scaler-degenerate-loss-finite")
        return {}
    rep = parse_fields(ctx.driver.ask(mk_line(sc_tok)))
    if "error" in rep:
        ctx.disagreement(f"{tag}: model raises a shape error where the code does not", {**wit, "reply": rep})
        return rep
    if R.requires_grad or (torch.is_tensor(bl_val) and bl_val.requires_grad):
        ctx.violation("grad-through-reward-or-baseline", f"{tag}: reward / baseline value carries gradient",
                      {**wit, "reward": R.requires_grad, "bl_val": bool(torch.is_tensor(bl_val) and bl_val.requires_grad)})
    if rep["advgrad"] != "0" or rep["blgrad"] != "0":
        ctx.disagreement(f"{tag}: model advantage carries a derivative", wit)
    shape, bvals, _ = pten(rep["blval"])
    cb = bl_val if torch.is_tensor(bl_val) else torch.tensor(float(bl_val), dtype=torch.float64)
    rt_v, rt_d = _tol(dbl)
    if list(cb.shape) != shape or not all(close(a, b, rt_v) for a, b in zip(cb.reshape(-1).tolist(), bvals)):
        ctx.disagreement(f"{tag}: baseline value", {**wit, "code_shape": list(cb.shape), "model_shape": shape,
                                                    "code": cb.reshape(-1).tolist()[:6], "model": [float(x) for x in bvals[:6]]})
    scale_d = sum(abs(d) for d in dll) / max(1, len(dll)) * (float(R.abs().max()) + 1)
    if sc_tok != "off":
        scale_d *= 10
    # with an active scaler the loss inherits the relative error of the real running std (float, outside the model):
    # its Welford bound widens the tolerance; for 'norm' the mean's error counts relative to the std as well
    xtol = 0.0
    if scaler is not None and sc_tok not in ("off",) and not isinstance(scaler.mode, int):
        xtol = 4 * scaler.bound
        # the bound's constant was fitted on batches of 32+ values; with a handful of observed values (POMO with B = 1, S = 2:
        # two per step) the float32 std of nearly equal scores is relatively less accurate than the fit predicts (false alarm
        # at thorough seed 3: N = 6, loss off by 1.0e-4 relative) — small-sample floor, irrelevant for N ≥ 32
        try:
            n_seen = sum(len(h[1]) for h in scaler.hist)
        except Exception:
            n_seen = 10 ** 9
        if n_seen < 32:
            xtol = max(xtol, 1e-3)
    okay = _compare_loss(ctx, tag, rep, float(loss), code_dd, dbl, wit, scale_d, xtol=xtol)
    if rep["advshape"] != rep["rewardshape"]:
        ctx.violation("advantage-broadcast", f"{tag}: advantage shape {rep['advshape']} ≠ reward shape {rep['rewardshape']}", wit)
    if rep.get("spec", "na") != "na":
        _judge_reference(ctx, tag, "−mean((R−b)·ll) + bl_loss recomputed per sample", pdual(rep["loss"]), pdual(rep["spec"]),
                         float(loss), code_dd, dbl, wit, scale_d, okay, xtol=xtol)
        ctx.count("c16.reference-evaluated")
    else:
        ctx.count("c16.reference-na")
    return rep


def _reinforce_step(ctx, tag, model, env, batch, dirn, pcap, bltok, dbl, wit, flat_pomo=None, scaler=None):
    """One real `shared_step(batch, 0, 'train')`, its loss and θ·grad, against the model and the reference."""
    pcap.clear()
    snap = bltok.snapshot()
    try:
        res = model.shared_step(batch, 0, "train")
    except Exception as ex:
        ctx.violation("loss-raises", f"{tag}: shared_step(…, 'train') raises {type(ex).__name__} on a generated batch",
                      {**wit, "error": str(ex)[:200]})
        return torch.tensor(float("nan")), {}, {}
    loss = res["loss"]
    out = pcap.calls[0][2]  # the policy output dict, updated in place by calculate_loss
    R, ll = out["reward"], out["log_likelihood"]
    code_dd = dirn.dd(loss) if not bool(torch.isnan(loss)) else float("nan")
    dll = dirn.dd_each(ll)
    has_extra = "extra" in batch.keys()
    td0 = env.reset(batch.clone())
    if flat_pomo is not None:
        S = flat_pomo
        rtok = f"pomo {S} {R.numel()} " + " ".join(f"{fs(fr(v))} 0" for v in R.reshape(-1).tolist())
        ltok = f"pomo {S} {ll.numel()} " + " ".join(f"{fs(fr(v))} {fs(fr(d))}" for v, d in zip(ll.reshape(-1).tolist(), dll))
    else:
        rtok, ltok = ten_tokens(R), ten_tokens(ll, dll)
    btok = bltok.tokens(model.baseline, snap, dirn, td0, env, has_extra, batch["extra"] if has_extra else None)
    rep = _judge_step(ctx, tag, loss, code_dd, R, ll, dll, out["bl_val"], rtok, ltok, btok, scaler, dbl, wit)
    return loss, out, rep


def _expected_alpha(n: int, e: int) -> float:
    """the warm-up weight after the callback of epoch e (epochs called in order): min(1, (e+1)/n), as the double the
    code would hold"""
    return 1.0 if e + 1 >= n else (e + 1) / float(n)


def _after_callback(ctx, tag, bltok, wb, epoch, wit):
    """compare the real warm-up weight with the reference schedule and make the model follow the reference"""
    n_cfg = getattr(wb, "_verif_cfg", (wb.n_epochs, None))[0]
    exp = _expected_alpha(n_cfg, epoch)
    bltok.expected_alpha[id(wb)] = fr(exp)
    ctx.count(f"c16.warmup-alpha-after-cb.{'0<a<1' if 0 < exp < 1 else exp}")
    if epoch + 1 > n_cfg:
        ctx.count("c16.warmup.callback-beyond-n_epochs")
    if float(wb.alpha) != exp:
        ctx.violation("warmup-alpha", f"{tag}: WarmupBaseline.alpha after the callback of epoch {epoch} is {wb.alpha}, "
                      f"the schedule min(1,(e+1)/n) gives {exp}", {**wit, "epoch": epoch, "n_epochs": n_cfg,
                                                                   "code": float(wb.alpha), "reference": exp})


def check_reinforce(ctx):
    from tensordict import TensorDict
    from rl4co.models.rl import REINFORCE
    from rl4co.models.rl.reinforce.baselines import (CriticBaseline, ExponentialBaseline, RolloutBaseline,
                                                      WarmupBaseline)

    n_cases = ctx.budget(26, 300)
    kinds = ["no", "exponential", "mean", "critic", "rollout_only", "warmup-rollout", "warmup-critic",
             "warmup-exponential", "extra", "exponential-scaled", "critic-scaled", "no-intscale", "default"]
    for c in range(n_cases):
        kind = kinds[c % len(kinds)]
        gen = _seed_torch(ctx)
        dbl = ctx.rng.random() < 0.75
        env = _mk_env(ctx.rng.choice([4, 5, 6]), dbl)
        policy = tiny_policy("am", "tsp", dbl)
        B = ctx.rng.choice([1, 2, 3, 4, 6])
        n_ep = ctx.rng.choice([1, 2, 3])
        reward_scale = None
        if kind.endswith("-scaled"):
            reward_scale = ctx.rng.choice(["norm", "scale"])
        if kind == "no-intscale":
            reward_scale = ctx.rng.choice([2, 5])
        base = kind.replace("-scaled", "").replace("-intscale", "")
        if base in ("no", "exponential", "mean", "critic", "rollout_only"):
            kw = {"beta": ctx.rng.choice([0.8, 0.5])} if base == "exponential" else {}
            if base == "critic":
                kw = {"critic": _mk_critic(policy, dbl)}
            model = REINFORCE(env, policy, baseline=base, baseline_kwargs=kw, reward_scale=reward_scale)
        elif base == "warmup-rollout":
            xb = ctx.rng.choice([0.8, 0.5, 0.3])
            model = REINFORCE(env, policy, baseline="rollout", baseline_kwargs={"n_epochs": n_ep, "exp_beta": xb})
            model.baseline._verif_cfg = (n_ep, xb)
        elif base == "warmup-critic":
            model = REINFORCE(env, policy, baseline=WarmupBaseline(CriticBaseline(_mk_critic(policy, dbl)), n_epochs=n_ep, warmup_exp_beta=0.5))
            model.baseline._verif_cfg = (n_ep, 0.5)
        elif base == "warmup-exponential":
            model = REINFORCE(env, policy, baseline=WarmupBaseline(ExponentialBaseline(beta=0.5), n_epochs=n_ep))
            model.baseline._verif_cfg = (n_ep, 0.8)  # warmup_exp_beta left at its default
        elif base == "default":  # every option left at its default: warm-up(1 epoch, beta 0.8) around the greedy rollout
            model = REINFORCE(env, policy)
            model.baseline._verif_cfg = (1, 0.8)
        else:  # extra
            model = REINFORCE(env, policy, baseline="exponential")
        model.log_dict = _noop
        # what `post_setup_hook` does (critic creation / first rollout), with a tiny evaluation set
        model.baseline.setup(policy, env, batch_size=4, device="cpu", dataset_size=8)
        if dbl:
            model.baseline.double()
        params = list(policy.parameters()) + [p for n_, p in model.baseline.named_parameters() if not n_.startswith("policy.") and ".policy." not in n_]
        dirn = Direction(params, gen)
        pcap = Capture(policy)
        bltok = _BlTok(ctx, model.baseline, None)
        steps = ctx.rng.choice([3, 4])
        if isinstance(model.baseline, WarmupBaseline):
            steps = model.baseline._verif_cfg[0] + 3  # training goes on after the warm-up horizon
        scaler = _ScalerTrack(reward_scale, dbl)
        ctx.count(f"c16.reinforce.{kind}")
        ctx.count(f"c16.dtype.{'f64' if dbl else 'f32'}")
        ctx.count(f"c16.B.{B}")
        for t in range(steps):
            # one "epoch" of the trainer's flow: fresh dataset → baseline.wrap_dataset (adds `extra` for the greedy
            # rollout baseline once alpha > 0) → DataLoader with the dataset's collate_fn → batch
            from torch.utils.data import DataLoader

            dataset = env.dataset(B)
            wrapped = model.baseline.wrap_dataset(dataset, env, batch_size=4, device="cpu")
            batch = next(iter(DataLoader(wrapped, batch_size=B, collate_fn=wrapped.collate_fn)))
            if "extra" in batch.keys():
                ctx.count("c16.reinforce.with-extra(wrap_dataset)")
                with torch.inference_mode():
                    inner = model.baseline.baseline if isinstance(model.baseline, WarmupBaseline) else model.baseline
                    g = inner.policy(env.reset(batch.clone()), env, decode_type="greedy")["reward"]
                if not torch.allclose(g, batch["extra"], rtol=1e-6, atol=1e-6):
                    ctx.disagreement("wrap_dataset: `extra` is not the frozen policy's greedy reward of the same instance",
                                     {"case": c, "kind": kind, "step": t})
            if base == "extra":
                # an arbitrary per-instance baseline value travelling with the batch
                ex = torch.tensor([ctx.rng.gauss(-3, 1) for _ in range(B)], dtype=batch["locs"].dtype)
                batch = TensorDict({**{k: batch[k] for k in batch.keys()}, "extra": ex}, batch_size=[B])
                ctx.count("c16.reinforce.with-extra(synthetic)")
            wit = {"case": c, "kind": kind, "step": t, "B": B, "dtype": "f64" if dbl else "f32", "reward_scale": reward_scale}
            tag = f"REINFORCE[{kind}]"
            loss, out, rep = _reinforce_step(ctx, tag, model, env, batch, dirn, pcap, bltok, dbl, wit, scaler=scaler)
            ctx.case(("reinforce", c, t, kind), nontrivial=B > 1)
            if "state" in rep:
                _check_state(ctx, tag, model.baseline, rep["state"], dbl, wit)
            ctx.sample({"unit": "train", "what": tag, "B": B, "loss": float(loss), "model": rep.get("loss")}, cap=2)
            if not bool(torch.isnan(loss)):
                dirn.sgd_step(loss, lr=0.05)
            # epoch callbacks between steps for the warm-up baselines (alpha moves 0 → 1)
            try:
                if isinstance(model.baseline, WarmupBaseline):
                    model.baseline.epoch_callback(policy, env=env, batch_size=4, device="cpu", epoch=t, dataset_size=8)
                    _after_callback(ctx, tag, bltok, model.baseline, t, wit)
                elif isinstance(model.baseline, RolloutBaseline):
                    model.baseline.epoch_callback(policy, env, batch_size=4, device="cpu", epoch=t, dataset_size=8)
            except Exception as ex:
                ctx.violation("rollout-baseline-update-rule", f"{tag}: epoch_callback raises {type(ex).__name__} ({str(ex)[:60]})", wit)
                break
        pcap.remove()


def _check_state(ctx, tag, bl, state: str, dbl, wit):
    from rl4co.models.rl.reinforce.baselines import ExponentialBaseline, WarmupBaseline

    rt_v, _ = _tol(dbl)
    if state.startswith("ema:") and isinstance(bl, ExponentialBaseline):
        if not close(float(bl.v), Fraction(state[4:]), rt_v):
            ctx.disagreement(f"{tag}: moving-average state after the step", {**wit, "code": float(bl.v), "model": state})
    if state.startswith("warm:") and isinstance(bl, WarmupBaseline):
        f = state.split(":")
        ctx.count(f"c16.warmup-branch.{f[1]}")
        wv = bl.warmup_baseline.v
        if (f[2] == "none") != (wv is None) or (wv is not None and not close(float(wv), Fraction(f[2]), rt_v)):
            ctx.disagreement(f"{tag}: warm-up moving-average state after the step", {**wit, "code": None if wv is None else float(wv), "model": f[2]})


def check_calc_loss(ctx):
    """`REINFORCE.calculate_loss(td, batch, policy_out, reward, log_likelihood)` called directly on hand-made rollouts:
    rewards with exact special values (all zero, zero mean, equal, positive and negative), shapes [B], [B,S] and 0-d,
    every baseline that needs no network, every scaling mode, options left at their defaults, and histories longer
    than the warm-up horizon with an epoch callback after every step.  The log-likelihood is a leaf tensor, so
    θ = ll and θ·grad = Σ ∂loss/∂ll_i · v_i along a random direction v."""
    from rl4co.models.rl import REINFORCE
    from rl4co.models.rl.reinforce.baselines import (ExponentialBaseline, MeanBaseline, NoBaseline, SharedBaseline,
                                                      WarmupBaseline)

    env = _mk_env(4, False)
    policy = tiny_policy("am", "tsp", False)  # never evaluated here
    n_cases = ctx.budget(48, 600)
    kinds = ["exponential-default", "exponential", "mean", "no", "shared", "warmup-default", "warmup-ema-inner",
             "warmup-no-inner", "extra", "warmup-shared-inner"]
    patterns = ["zeros-first", "zero-mean-first", "lands-on-zero", "generic", "generic", "constant", "mixed-sign"]
    for c in range(n_cases):
        rng = ctx.rng
        gen = _seed_torch(ctx)
        kind = kinds[c % len(kinds)]
        pattern = patterns[(c // len(kinds) + c) % len(patterns)]
        reward_scale = rng.choice([None, None, None, "norm", "scale", 3])
        dbl = rng.random() < 0.8
        dtype = torch.float64 if dbl else torch.float32
        beta = rng.choice([0.5, 0.75, 0.25])
        n_ep = rng.choice([1, 2, 3, 4])
        if kind == "exponential-default":
            bl = ExponentialBaseline()
        elif kind == "exponential":
            bl = ExponentialBaseline(beta=beta)
        elif kind == "mean":
            bl = MeanBaseline()
        elif kind == "no":
            bl = NoBaseline()
        elif kind == "shared":
            bl = SharedBaseline()
        elif kind == "warmup-default":
            bl = WarmupBaseline(ExponentialBaseline(beta=0.25))
            bl._verif_cfg = (1, 0.8)
        elif kind == "warmup-ema-inner":
            bl = WarmupBaseline(ExponentialBaseline(beta=0.25), n_epochs=n_ep, warmup_exp_beta=beta)
            bl._verif_cfg = (n_ep, beta)
        elif kind == "warmup-no-inner":
            bl = WarmupBaseline(NoBaseline(), n_epochs=n_ep, warmup_exp_beta=beta)
            bl._verif_cfg = (n_ep, beta)
        elif kind == "warmup-shared-inner":
            bl = WarmupBaseline(SharedBaseline(), n_epochs=n_ep, warmup_exp_beta=beta)
            bl._verif_cfg = (n_ep, beta)
        else:
            bl = ExponentialBaseline()
        model = REINFORCE(env, policy, baseline=bl, reward_scale=reward_scale)
        model.log_dict = _noop
        bltok = _BlTok(ctx, model.baseline, None)
        scaler = _ScalerTrack(reward_scale, dbl)
        two_d = kind in ("shared", "warmup-shared-inner") or rng.random() < 0.35
        B = rng.choice([1, 2, 3, 4])
        S = rng.choice([2, 3, 4])
        if two_d and B == S and rng.random() < 0.5:
            S += 1
        zero_d = (not two_d) and kind in ("no", "exponential", "exponential-default") and rng.random() < 0.15
        epochs = (model.baseline._verif_cfg[0] + 3) if isinstance(model.baseline, WarmupBaseline) else rng.choice([3, 4, 5])
        ctx.count(f"c16.calc.{kind}")
        ctx.count(f"c16.calc.pattern.{pattern}")
        ctx.count(f"c16.calc.scale.{reward_scale}")
        ctx.count("c16.calc.reward-rank." + ("0" if zero_d else "2" if two_d else "1"))
        m0 = _dyadic(rng, 1, 1, 4)
        for e in range(epochs):
            n = 1 if zero_d else (B * S if two_d else B)
            # rewards of this step
            if pattern == "zeros-first" and e < 2:
                vals = [0.0] * n
            elif pattern == "zero-mean-first" and e < 2 and n >= 2:
                half = [_dyadic(rng, 2, 1, 4) for _ in range(n // 2)]
                vals = half + [-x for x in half] + [0.0] * (n - 2 * (n // 2))
            elif pattern == "lands-on-zero" and e < 2:
                # batch means m0 then -beta*m0/(1-beta): a moving average with weight beta is exactly 0 after the second step
                bb = model.baseline._verif_cfg[1] if isinstance(model.baseline, WarmupBaseline) else getattr(model.baseline, "beta", 0.5)
                vals = [m0] * n if e == 0 else [-bb * m0 / (1 - bb)] * n
            elif pattern == "constant":
                vals = [m0] * n
            elif pattern == "mixed-sign":
                vals = [_dyadic(rng, 2, -4, 4) for _ in range(n)]
            else:
                vals = [rng.gauss(-4, 1.5) for _ in range(n)]
            R = torch.tensor(vals, dtype=dtype)
            llv = torch.tensor([-abs(rng.gauss(3, 1)) for _ in range(n)], dtype=dtype)
            v = torch.randn(n, generator=gen, dtype=torch.float64)
            if zero_d:
                R, llv = R.reshape(()), llv.reshape(())
            elif two_d:
                R, llv = R.reshape(B, S), llv.reshape(B, S)
            ll = llv.clone().requires_grad_(True)
            batch = {}
            if kind == "extra":
                batch = {"extra": torch.tensor([rng.gauss(-3, 1) for _ in range(B)], dtype=dtype)}
                if two_d:
                    batch["extra"] = batch["extra"].reshape(B, 1)
            snap = bltok.snapshot()
            wit = {"case": c, "kind": kind, "epoch": e, "reward": R.tolist(), "shape": list(R.shape), "pattern": pattern,
                   "reward_scale": reward_scale, "dtype": "f64" if dbl else "f32"}
            tag = f"calculate_loss[{kind}]"
            try:
                out = model.calculate_loss(None, batch, {}, R, ll)
            except Exception as ex:
                ctx.case(("calc-raises", c, e), nontrivial=True)
                ctx.violation("loss-raises", f"{tag}: calculate_loss raises {type(ex).__name__} on a legal rollout "
                              f"(reward shape {list(R.shape)}, reward_scale={reward_scale!r})", {**wit, "error": str(ex)[:200]})
                break
            loss = out["loss"]
            if bool(torch.isnan(loss)):
                code_dd = float("nan")
            else:
                (g,) = torch.autograd.grad(loss, ll, retain_graph=False, allow_unused=True)
                code_dd = 0.0 if g is None else float((g.double().reshape(-1) * v).sum())
            dll = v.tolist()
            btok = bltok.tokens(model.baseline, snap, None, None, env, "extra" in batch, batch.get("extra"))
            rep = _judge_step(ctx, tag, loss, code_dd, R, ll, dll, out["bl_val"], ten_tokens(R), ten_tokens(llv, dll), btok,
                              scaler, dbl, wit)
            ctx.case(("calc", c, e, kind, pattern), nontrivial=n > 1)
            if "state" in rep:
                _check_state(ctx, tag, model.baseline, rep["state"], dbl, wit)
                st = rep["state"]
                if st.startswith("ema:") and Fraction(st[4:]) == 0 or (st.startswith("warm:") and st.split(":")[2] == "0"):
                    ctx.count("c16.calc.moving-average-exactly-0")
            ctx.sample({"unit": "train", "what": tag, "reward": R.tolist(), "code_loss": float(loss), "code_theta_grad": code_dd,
                        "model_loss;deriv": rep.get("loss")}, cap=3)
            # end of epoch
            model.baseline.epoch_callback(policy, env=env, batch_size=4, device="cpu", epoch=e, dataset_size=8)
            if isinstance(model.baseline, WarmupBaseline):
                _after_callback(ctx, tag, bltok, model.baseline, e, wit)


def check_calc_loss_conditioning(ctx):
    """`calculate_loss` with an active advantage scaler on ILL-CONDITIONED advantages (no baseline, rewards with
    |mean| ≫ std as for un-normalised tour lengths): a small first step then larger ones, float32 and float64.  The
    loss must match the reference within the Welford error bound of the real running std."""
    from rl4co.models.rl import REINFORCE

    env = _mk_env(4, False)
    policy = tiny_policy("am", "tsp", False)
    for rep_i in range(ctx.budget(1, 3)):
        for dbl in (False, True):
            for ratio in (50, 300, 1000):
                rng = ctx.rng
                gen = _seed_torch(ctx)
                dtype = torch.float64 if dbl else torch.float32
                mode = rng.choice(["norm", "scale"])
                std = rng.choice([0.5, 1.0, 2.0])
                mean = -ratio * std
                model = REINFORCE(env, policy, baseline="no", reward_scale=mode)
                model.log_dict = _noop
                bltok = _BlTok(ctx, model.baseline, None)
                scaler = _ScalerTrack(mode, dbl)
                sizes = [rng.choice([2, 4])] + [rng.choice([32, 64]) for _ in range(rng.randint(3, 5))]
                ctx.count(f"c16.calc-cond.{'f64' if dbl else 'f32'}.ratio{ratio}")
                for e, n in enumerate(sizes):
                    R = (torch.randn(n, generator=gen, dtype=torch.float64) * std + mean).to(dtype)
                    llv = -(torch.rand(n, generator=gen, dtype=torch.float64) * 3 + 1).to(dtype)
                    v = torch.randn(n, generator=gen, dtype=torch.float64)
                    if n % 8 == 0 and rng.random() < 0.4:
                        R, llv = R.reshape(8, -1), llv.reshape(8, -1)
                    ll = llv.clone().requires_grad_(True)
                    snap = bltok.snapshot()
                    wit = {"kind": "no baseline, ill-conditioned rewards", "mean": mean, "std": std, "step": e, "sizes": sizes,
                           "reward_scale": mode, "dtype": "f64" if dbl else "f32"}
                    out = model.calculate_loss(None, {}, {}, R, ll)
                    loss = out["loss"]
                    if bool(torch.isnan(loss)):
                        code_dd = float("nan")
                    else:
                        (g,) = torch.autograd.grad(loss, ll)
                        code_dd = float((g.double().reshape(-1) * v).sum())
                    dll = v.tolist()
                    btok = bltok.tokens(model.baseline, snap, None, None, env, False, None)
                    _judge_step(ctx, "calculate_loss[ill-conditioned]", loss, code_dd, R, ll, dll, out["bl_val"], ten_tokens(R),
                                ten_tokens(llv, dll), btok, scaler, dbl, wit)
                    ctx.case(("calc-cond", rep_i, dbl, ratio, e), nontrivial=True)


def _tour_len(locs_row, actions_row) -> float:
    pts = locs_row[actions_row]
    return float((pts - pts.roll(-1, dims=0)).norm(dim=-1).sum())


def check_pomo(ctx):
    """POMO (shared baseline over multi-starts): real `POMO.shared_step(..., 'train')`; the flat `[S·B]` policy
    outputs are handed to the model, which regroups them as the code does (`unbatchify(x, (0, S))`)."""
    from rl4co.models.zoo.pomo import POMO

    n_cases = ctx.budget(10, 120)
    for c in range(n_cases):
        gen = _seed_torch(ctx)
        dbl = ctx.rng.random() < 0.75
        nloc = ctx.rng.choice([4, 5, 6])
        env = _mk_env(nloc, dbl)
        policy = tiny_policy("am", "tsp", dbl)
        S = ctx.rng.choice([None, 2, 3, nloc])
        B = ctx.rng.choice([1, 2, 3, 4])
        reward_scale = ctx.rng.choice([None, None, "norm", "scale", 2])
        model = POMO(env, policy, num_starts=S, reward_scale=reward_scale) if reward_scale is not None else POMO(env, policy, num_starts=S)
        model.log_dict = _noop
        scaler = _ScalerTrack(reward_scale, dbl)
        ctx.count(f"c16.pomo.reward_scale.{reward_scale}")
        S_eff = nloc if S is None else S
        dirn = Direction(list(policy.parameters()), gen)
        pcap = Capture(policy)
        bltok = _BlTok(ctx, model.baseline, None)
        ctx.count(f"c16.pomo.S.{S_eff}")
        ctx.count(f"c16.pomo.B.{B}")
        ctx.count("c16.pomo.S=B" if S_eff == B else "c16.pomo.S≠B")
        for t in range(3):
            batch = gen_batch(env, B, dbl)
            wit = {"case": c, "step": t, "B": B, "S": S_eff, "dtype": "f64" if dbl else "f32", "reward_scale": reward_scale}
            loss, out, rep = _reinforce_step(ctx, "POMO", model, env, batch, dirn, pcap, bltok, dbl, wit, flat_pomo=S_eff,
                                             scaler=scaler)
            ctx.case(("pomo", c, t), nontrivial=True)
            if not out:
                break
            # layout premise of the reference (k = s·B + b): start node and instance of every flat rollout
            acts, R = out["actions"], out["reward"]
            if acts.dim() == 3:  # already regrouped by shared_step in non-train phases; not here
                acts = acts.reshape(-1, acts.shape[-1])
            okl = True
            for k in range(R.numel()):
                b, s_ = k % B, k // B
                if int(acts[k, 0]) != s_ % nloc or abs(_tour_len(batch["locs"][b], acts[k]) + float(R[k])) > 1e-4:
                    okl = False
            if okl:
                ctx.count("c16.pomo.layout-verified")
            else:
                ctx.disagreement("POMO: flat layout of the multi-start batch is not start-outer / instance-inner", wit)
            # shared-baseline advantages sum to zero within each instance
            adv = (out["reward"].reshape(S_eff, B).T - out["bl_val"])
            if float(adv.sum(dim=1).abs().max()) > (1e-9 if dbl else 1e-4):
                ctx.violation("shared-advantage-not-zero-mean", "POMO: advantages do not average to zero within an instance", wit)
            dirn.sgd_step(loss, lr=0.05)
        pcap.remove()


def check_a2c(ctx):
    from rl4co.models.rl import A2C

    n_cases = ctx.budget(8, 100)
    for c in range(n_cases):
        gen = _seed_torch(ctx)
        dbl = ctx.rng.random() < 0.75
        env = _mk_env(ctx.rng.choice([4, 5, 6]), dbl)
        policy = tiny_policy("am", "tsp", dbl)
        B = ctx.rng.choice([1, 2, 3, 5])
        model = A2C(env, policy, critic=_mk_critic(policy, dbl))
        model.log_dict = _noop
        dirn = Direction(list(policy.parameters()) + list(model.baseline.parameters()), gen)
        pcap = Capture(policy)
        bltok = _BlTok(ctx, model.baseline, None)
        ctx.count(f"c16.a2c.B.{B}")
        for t in range(3):
            batch = gen_batch(env, B, dbl)
            wit = {"case": c, "step": t, "B": B, "dtype": "f64" if dbl else "f32"}
            loss, out, rep = _reinforce_step(ctx, "A2C", model, env, batch, dirn, pcap, bltok, dbl, wit)
            ctx.case(("a2c", c, t), nontrivial=True)
            if not out:
                break
            dirn.sgd_step(loss, lr=0.05)
        pcap.remove()


def check_a2c_optimizers(ctx):
    """`A2C.configure_optimizers`: one optimizer with two parameter groups — the policy with the actor's options, the critic
    baseline with its own (defaulting to the actor's); every parameter belongs to exactly one group."""
    from rl4co.models.rl import A2C

    for c in range(ctx.budget(4, 12)):
        _seed_torch(ctx)
        env = _mk_env(4, False)
        policy = tiny_policy("am", "tsp", False)
        a_lr = ctx.rng.choice([1e-3, 2e-4, 5e-2])
        c_lr = ctx.rng.choice([None, 5e-3, 1e-5]) if c else None
        kw = {"actor_optimizer_kwargs": {"lr": a_lr}}
        if c_lr is not None:
            kw["critic_optimizer_kwargs"] = {"lr": c_lr}
        if c == 1:
            kw = {}  # every option at its default
            a_lr = 1e-4
            c_lr = None
        model = A2C(env, policy, critic=_mk_critic(policy, False), **kw)
        opt = model.configure_optimizers()
        groups = opt.param_groups
        rep = parse_fields(ctx.driver.ask(f"train.a2cgroups {fs(fr(a_lr))} " + ("none" if c_lr is None else f"some {fs(fr(c_lr))}")))
        mg = [g.split(":") for g in rep["groups"].split(",")]
        ctx.case(("a2c-optim", c), nontrivial=True)
        ctx.count("c16.a2c.optimizer." + ("critic-lr-default" if c_lr is None else "critic-lr-given"))
        wit = {"actor_lr": a_lr, "critic_lr": c_lr}
        pol_ids = {id(p_) for p_ in policy.parameters()}
        cri_ids = {id(p_) for p_ in model.baseline.parameters()}
        want = [("policy", a_lr, pol_ids), ("critic", a_lr if c_lr is None else c_lr, cri_ids)]
        ok = len(groups) == 2
        for g, (nm, lr, ids) in zip(groups, want):
            ok = ok and {id(p_) for p_ in g["params"]} == ids and g["lr"] == lr
        if not ok:
            ctx.violation("a2c-optimizer-groups", "A2C.configure_optimizers: a network's parameters are not optimised with the "
                          "learning rate configured for it", {**wit, "groups": [(len(g["params"]), g["lr"]) for g in groups]})
        elif [(m_[0], float(Fraction(m_[1]))) for m_ in mg] != [(nm, lr) for nm, lr, _ in want]:
            ctx.disagreement("as-coded A2C group model ≠ reference although the real optimizer matches", wit)
        if pol_ids & cri_ids:
            ctx.violation("a2c-optimizer-groups", "policy and critic share parameters (the critic must own a copy of the encoder)", wit)


def check_ppo(ctx):
    from rl4co.models.rl import PPO

    n_cases = ctx.budget(8, 100)
    for c in range(n_cases):
        gen = _seed_torch(ctx)
        dbl = ctx.rng.random() < 0.75
        dtype = torch.float64 if dbl else torch.float32
        env = _mk_env(ctx.rng.choice([4, 5]), dbl)
        policy = tiny_policy("am", "tsp", dbl)
        critic = _mk_critic(policy, dbl)
        B = ctx.rng.choice([4, 6, 8])
        clip = ctx.rng.choice([0.2, 0.1, 0.05])
        norm_adv = ctx.rng.random() < 0.4
        mbs = ctx.rng.choice([0.5, 1.0, 2, 3, B])
        vf, ent = ctx.rng.choice([0.5, 1.0]), ctx.rng.choice([0.0, 0.01, 0.1])
        if c % 4 == 0:
            # every option left at its default (clip 0.2, 2 inner epochs, mini-batches of a quarter, vf 0.5, no entropy bonus)
            model = PPO(env, policy, critic=critic)
            B = 8
            clip, vf, ent, norm_adv = (model.ppo_cfg[k] for k in ("clip_range", "vf_lambda", "entropy_lambda", "normalize_adv"))
            ctx.count("c16.ppo.default-options")
        else:
            model = PPO(env, policy, critic=critic, clip_range=clip, ppo_epochs=ctx.rng.choice([2, 3]), mini_batch_size=mbs,
                        vf_lambda=vf, entropy_lambda=ent, normalize_adv=norm_adv)
        model.log_dict = _noop
        params = list(policy.parameters()) + list(critic.parameters())
        dirn = Direction(params, gen)
        opt = torch.optim.SGD(params, lr=ctx.rng.choice([0.05, 0.2, 0.5]))
        pcap, ccap = Capture(policy), Capture(critic)
        model.optimizers = lambda opt=opt: opt
        # the harness' own optimisation step: gradient norm clipped to 1 so that parameters stay finite
        model.clip_gradients = lambda *a, params=params, **k: torch.nn.utils.clip_grad_norm_(params, 1.0)
        ctx.count(f"c16.ppo.clip.{clip}")
        ctx.count(f"c16.ppo.normalize_adv.{norm_adv}")
        state = {"n": 0}

        def manual_backward(loss, pcap=pcap, ccap=ccap, c=c):
            # the real loss tensor of this mini-batch, with its graph; everything the model needs was captured
            a, k, pout = pcap.calls[-1]
            sub = a[0]
            vp = ccap.calls[-1][2]
            ll, entr = pout["log_likelihood"], pout["entropy"]
            old, rew = sub["logprobs"], sub["reward"]
            b = rew.numel()
            wit = {"case": c, "minibatch": state["n"], "b": b, "clip": clip, "normalize_adv": norm_adv, "dtype": str(dtype)}
            state["n"] += 1
            if old.requires_grad or rew.requires_grad:
                ctx.violation("grad-through-reward-or-baseline", "PPO: stored reward / old log-prob carries gradient", wit)
            ratio = torch.exp(ll.sum(dim=-1) - old).detach().reshape(-1)
            norm_tok = "nonorm"
            if norm_adv:
                adv0 = (rew.view(-1, 1) - vp.detach())
                if adv0.numel() < 2:
                    # normalize_adv on a one-sample mini-batch: adv.std() is NaN on the real code → NaN loss;
                    # no backward, so that the parameters stay finite for the following mini-batches
                    ctx.count("c16.ppo.normalize-single-sample-loss-nan" if bool(torch.isnan(loss)) else
                              "c16.ppo.normalize-single-sample-loss-finite")
                    return
                norm_tok = f"norm {fs(fr(adv0.std()))} {fs(fr(1e-8))}"
            lo = fr(torch.tensor(1 - clip, dtype=dtype))
            hi = fr(torch.tensor(1 + clip, dtype=dtype))
            dS = None
            lld = dirn.dd_each(ll.sum(dim=-1))
            # per-step derivatives are only needed summed over steps: put the whole derivative on the first step
            T = ll.shape[1]
            llv = ll.detach()
            ll_tok = f"m {b} {T} " + " ".join(
                f"{fs(fr(llv[i, j]))} {fs(fr(lld[i])) if j == 0 else '0'}" for i in range(b) for j in range(T))
            line = (f"train.ppo {fs(lo)} {fs(hi)} {fs(fr(vf))} {fs(fr(ent))} {norm_tok} {ll_tok} "
                    f"{ten_tokens(old, dual=False)} {ten_tokens(rew, dual=False)} {ten_tokens(vp, dirn.dd_each(vp))} "
                    f"{ten_tokens(entr, dirn.dd_each(entr))} {b} " + " ".join(fs(fr(x)) for x in ratio.tolist()))
            rep = parse_fields(ctx.driver.ask(line))
            ctx.case(("ppo", c, state["n"]), nontrivial=True)
            if "error" in rep:
                ctx.disagreement("PPO: model raises a shape error where the code does not", {**wit, "reply": rep})
            else:
                code_dd = dirn.dd(loss)
                scale_d = (sum(abs(d) for d in lld) / max(1, b)) * (float(rew.abs().max()) + 1)
                # normalize_adv subtracts the float mean of the advantages and divides by their float std: for a small
                # mini-batch of nearly equal advantages both are ill-conditioned in the scores' dtype (conditioning
                # r = max|adv| / std); the model subtracts the exact mean (false alarm at thorough seed 4: b = 2, float32,
                # loss off by 1e-3 relative).  The tolerance is widened by the rounding this amplifies.
                xtol_ppo = 0.0
                if norm_adv:
                    u_ = 2.0 ** -24 if dtype == torch.float32 else 2.0 ** -53
                    sd_ = float(adv0.std())
                    r_ = float(adv0.abs().max()) / sd_ if sd_ > 0 else float("inf")
                    xtol_ppo = min(16 * u_ * r_, 0.5)
                okay = _compare_loss(ctx, "PPO", rep, float(loss), code_dd, dbl, wit, scale_d, xtol=xtol_ppo)
                if rep["advshape"] != f"[{b},1]" or rep["ratioshape"] != f"[{b},1]":
                    ctx.violation("advantage-broadcast", f"PPO: advantage {rep['advshape']} / ratio {rep['ratioshape']} not [b,1]", wit)
                if norm_adv:
                    var = float(Fraction(rep["advvar"]))
                    s2 = float(adv0.std()) ** 2
                    if not close(var, s2, 1e-5):
                        ctx.disagreement("PPO: adv.std() oracle inconsistent with the model's variance", {**wit, "var": var, "std2": s2})
                if rep.get("spec", "na") != "na":
                    kinks = int(rep["kinks"])
                    ctx.count("c16.ppo.samples", b)
                    ctx.count("c16.ppo.samples-clipped", int(rep["clipped"]))
                    ctx.count("c16.ppo.samples-active", int(rep["active"]))
                    if kinks:
                        ctx.count("c16.ppo.minibatch-with-kink")
                    _judge_reference(ctx, "PPO", "the clipped-ratio objective with value and entropy terms", pdual(rep["loss"]),
                                     pdual(rep["spec"]), float(loss), code_dd, dbl, wit, scale_d, okay, check_d=(kinks == 0),
                                     xtol=xtol_ppo)
                    ctx.count("c16.reference-evaluated")
            loss.backward()

        model.manual_backward = manual_backward
        batch = gen_batch(env, B, dbl)
        model.shared_step(batch, 0, "train")
        pcap.remove()
        ccap.remove()


def check_symnco(ctx, only=None):
    from rl4co.models.zoo.symnco import SymNCO

    n_cases = ctx.budget(14, 150) if only is None else 3
    combos = [(0, 2), (0, 4), (2, 2), (3, 3), (3, 2), (2, 3), (2, 4), (4, 2), (2, 1), (3, 1), (0, 3), (4, 4), (3, 4), (2, 0)]
    if only is not None:
        combos = [(only[0], only[1])]
    for c in range(n_cases):
        gen = _seed_torch(ctx)
        dbl = ctx.rng.random() < 0.75
        nloc = ctx.rng.choice([4, 5])
        env = _mk_env(nloc, dbl)
        policy = tiny_policy("symnco", "tsp", dbl)
        S, A = combos[c % len(combos)]
        B = ctx.rng.choice([1, 2, 3])
        alpha, beta = ctx.rng.choice([0.2, 0.0, 0.5]), ctx.rng.choice([1, 1, 0.5, 2])
        if only is None and c % 7 == 1:
            model = SymNCO(env, policy)  # defaults: 4 augmentations, no multi-start, alpha 0.2, beta 1
            S, A, alpha, beta = model.num_starts, model.num_augment, model.alpha, model.beta
            ctx.count("c16.symnco.default-options")
        else:
            model = SymNCO(env, policy, num_augment=A, num_starts=S, alpha=alpha, beta=beta)
        model.log_dict = _noop
        dirn = Direction(list(policy.parameters()), gen)
        pcap = Capture(policy)
        ctx.count(f"c16.symnco.S{S}.A{A}")
        batch = gen_batch(env, B, dbl)
        wit = {"case": c, "n_start": S, "n_aug": A, "B": B, "alpha": alpha, "beta": beta, "dtype": "f64" if dbl else "f32"}
        try:
            res = model.shared_step(batch, 0, "train")
        except Exception as e:  # configurations the code itself rejects
            ctx.count(f"c16.symnco.raises.S{S}.A{A}")
            ctx.note(f"SymNCO(num_starts={S}, num_augment={A}) raises {type(e).__name__}: {str(e)[:80]}")
            pcap.remove()
            continue
        loss = res["loss"]
        a, k, out = pcap.calls[0]
        td_aug = a[0]
        R, ll = out["reward"], out["log_likelihood"]
        N = R.numel()
        S_eff, A_eff = max(S, 1), max(A, 1)
        ctx.case(("symnco", c, S, A, B), nontrivial=True)
        if N != S_eff * A_eff * B:
            ctx.disagreement("SymNCO: flat batch size", {**wit, "N": N})
            pcap.remove()
            continue
        # layout premise (k = (s·A + a)·B + b): start node, augmented instance and original instance of every rollout
        acts = out["actions"]
        D0 = torch.cdist(batch["locs"], batch["locs"])
        okl = True
        for kk in range(N):
            b, f = kk % B, kk // B
            s_, a_ = f // A_eff, f % A_eff
            row = a_ * B + b
            if S > 1 and int(acts[kk, 0]) != s_ % nloc:
                okl = False
            if abs(_tour_len(td_aug["locs"][row], acts[kk]) + float(R[kk])) > 1e-4:
                okl = False
            if not torch.allclose(torch.cdist(td_aug["locs"][row][None], td_aug["locs"][row][None])[0], D0[b], atol=1e-4):
                okl = False
        if okl:
            ctx.count("c16.symnco.layout-verified")
        else:
            ctx.disagreement("SymNCO: flat layout is not start-outer / augmentation-middle / instance-inner", wit)
        if A > 1 and "proj_embeddings" in out and torch.is_tensor(out["loss_inv"]):
            # which rows of the projected embeddings `invariance_loss` compares: as coded vs. same-instance pairs
            pe = out["proj_embeddings"].detach()
            cos = torch.nn.functional.cosine_similarity
            repi = parse_fields(ctx.driver.ask(f"train.invrows {A} {B}"))
            prs = [tuple(int(x) for x in p_.split("-")) for p_ in repi["pairs"].split(",")]
            coded = sum(cos(pe[r0], pe[r1], dim=-1).mean() for r0, r1 in prs) / B
            sem = sum(cos(pe[0 * B + b_], pe[i_ * B + b_], dim=-1).mean() for b_ in range(B) for i_ in range(1, A)) / B
            rt_v0, _ = _tol(dbl)
            if close(float(out["loss_inv"]), float(coded), max(rt_v0, 1e-6)):
                ctx.count("c16.symnco.invariance-term=rows-as-coded(b·A, b·A+i)")
            elif close(float(out["loss_inv"]), float(sem), max(rt_v0, 1e-6)):
                ctx.count("c16.symnco.invariance-term=same-instance-pairs")
                ctx.disagreement("invariance_loss compares same-instance rows, the as-coded index model does not", wit)
            else:
                ctx.disagreement("invariance_loss matches neither index model", wit)
        inv = out["loss_inv"]
        inv_v, inv_d = (float(inv), dirn.dd(inv)) if torch.is_tensor(inv) else (float(inv), 0.0)
        dll = dirn.dd_each(ll)
        line = (f"train.symnco {S} {A} {N} {fs(fr(alpha))} {fs(fr(beta))} "
                + " ".join(f"{fs(fr(v))} 0" for v in R.tolist()) + " "
                + " ".join(f"{fs(fr(v))} {fs(fr(d))}" for v, d in zip(ll.tolist(), dll)) + f" {fs(fr(inv_v))} {fs(fr(inv_d))}")
        rep = parse_fields(ctx.driver.ask(line))
        if R.requires_grad:
            ctx.violation("grad-through-reward-or-baseline", "SymNCO: reward carries gradient", wit)
        code_dd = dirn.dd(loss)
        scale_d = (sum(abs(d) for d in dll) / max(1, N)) * (float(R.abs().max()) + 1)
        okay = _compare_loss(ctx, "SymNCO", rep, float(loss), code_dd, dbl, wit, scale_d)
        rt_v, _ = _tol(dbl)
        for nm, key in (("loss_ps", "ps"), ("loss_ss", "ss")):
            if not close(float(out[nm]), pdual(rep[key])[0], rt_v):
                ctx.disagreement(f"SymNCO: {nm}", {**wit, "code": float(out[nm]), "model": float(pdual(rep[key])[0])})
                okay = False
        if rep["sumzero"] != "1":
            ctx.violation("shared-advantage-not-zero-mean", "SymNCO: advantages of a shared-baseline group do not sum to zero", wit)
        m = pdual(rep["loss"])
        x, y = pdual(rep["refX"]), pdual(rep["refY"])
        ctx.count("c16.reference-evaluated")
        rt_v, rt_d = _tol(dbl)

        def matches(ref):
            return close(float(loss), ref[0], rt_v) and close(code_dd, ref[1], rt_d, atol=rt_d * scale_d)

        if matches(x):
            ctx.count("c16.symnco.loss=reference(model.py axis labels)")
        if matches(y):
            ctx.count("c16.symnco.loss=reference(losses.py docstrings)")
        if okay and ((m == x and not matches(x)) or (m == y and not matches(y))):
            ctx.disagreement("SymNCO: the model equals a reference exactly but the code does not match it", wit)
        if not matches(x) and not matches(y):
            mixed = okay and S > 1 and A > 1 and S != A
            ctx.violation("symnco-regroup-mixed-groups" if mixed else "loss-not-reference-surrogate",
                          "SymNCO: unbatchify(x, (n_start, n_aug)) on a start-outer/aug-inner batch mixes starts and augmentations; "
                          "the shared baselines average over mixed groups, so the loss is not the reference surrogate under either "
                          "reading of the axes" if mixed else
                          "SymNCO: loss / gradient differ from the shared-baseline reference surrogate under both readings of the axes",
                          {**wit, "code": [float(loss), code_dd], "reference_startaxis_augaxis": [float(x[0]), float(x[1])],
                           "reference_swapped": [float(y[0]), float(y[1])]})
        pcap.remove()


class _LinPolicy(torch.nn.Module):
    """A deterministic row-wise stand-in policy for the greedy-rollout baseline: the "greedy reward" of an instance is a
    fixed function of its coordinates (scaled by `w`, shifted by `c`), so that candidates can be made better / worse /
    equal by a chosen margin.  It is a real `nn.Module` (deep-copied, `.eval()`, `.to(device)` as the code does)."""

    def __init__(self, w, c=0.0, noise=0.0):
        super().__init__()
        self.w = torch.nn.Parameter(torch.tensor(float(w)))
        self.c, self.noise = float(c), float(noise)

    def forward(self, td, env=None, decode_type=None, **kw):
        locs = td["locs"]
        r = -(locs[..., 0] * self.w).sum(-1) + self.c
        if self.noise:
            r = r + self.noise * torch.sin(37.0 * locs[..., 1].sum(-1))
        return {"reward": r}


def _per_instance(policy, env, dataset):
    """reward of every instance of a data set, one instance at a time (no batching involved)"""
    out = []
    policy.eval()  # the baseline rolls policies out in eval mode (`policy.eval()` in RolloutBaseline.rollout)
    with torch.inference_mode():
        for i in range(len(dataset)):
            td = env.reset(dataset.collate_fn([dataset[i]]))
            out.append(float(policy(td, env, decode_type="greedy")["reward"][0]))
    return out


def check_rollout_baseline(ctx):
    """`RolloutBaseline.setup / epoch_callback / wrap_dataset` over training histories: the stored baseline values are the
    frozen policy's rewards instance by instance, the policy is replaced exactly when the candidate is better on average
    and significant (one-sided paired t-test recomputed by the harness), and `wrap_dataset` attaches to item i the frozen
    policy's reward on instance i for every evaluation batch size."""
    import math

    from scipy import stats
    from rl4co.models.rl.reinforce.baselines import RolloutBaseline

    n_cases = ctx.budget(10, 120)
    for c in range(n_cases):
        rng = ctx.rng
        _seed_torch(ctx)
        env = _mk_env(rng.choice([4, 5]), False)
        N = rng.choice([3, 5, 8, 13])
        bs = rng.choice([1, 2, 3, 4, N, N + 3])
        alpha = rng.choice([0.05, 0.05, 0.5, 0.9]) if c % 3 else None
        bl = RolloutBaseline() if alpha is None else RolloutBaseline(bl_alpha=alpha)
        alpha = 0.05 if alpha is None else alpha
        real = c % 4 == 3
        pol = tiny_policy("am", "tsp", False) if real else _LinPolicy(rng.choice([1.0, 2.0]), noise=0.3)
        bl.setup(pol, env, batch_size=bs, device="cpu", dataset_size=N)
        ctx.count(f"c16.rollout.N.{N}")
        ctx.count("c16.rollout.policy." + ("real" if real else "stub"))
        wit0 = {"case": c, "dataset_size": N, "eval_batch_size": bs, "bl_alpha": alpha}

        def consistent(tag):
            ref = _per_instance(bl.policy, env, bl.dataset)
            vals = [float(x) for x in bl.bl_vals.tolist()]
            if len(vals) != len(ref) or not all(close(a, b, 1e-5) for a, b in zip(vals, ref)) or \
                    not close(float(bl.mean), sum(ref) / len(ref), 1e-5):
                ctx.violation("rollout-baseline-values", f"{tag}: bl_vals / mean are not the frozen policy's rewards on its "
                              "evaluation set, instance by instance", {**wit0, "code": vals[:6], "reference": ref[:6]})
                return False
            return True

        if not consistent("setup"):
            continue
        for e in range(rng.choice([2, 3, 4])):
            kind = rng.choice(["better", "better-small", "worse", "same", "better-noisy", "real"] if real else
                              ["better", "better-small", "worse", "same", "better-noisy"])
            if kind == "real":
                cand = tiny_policy("am", "tsp", False)
            elif kind == "same":
                import copy
                cand = copy.deepcopy(bl.policy)
            else:
                base_w = float(bl.policy.w) if isinstance(bl.policy, _LinPolicy) else 1.0
                cand = _LinPolicy({"better": 0.5, "better-small": 0.98, "worse": 1.5, "better-noisy": 0.9}[kind] * base_w,
                                  noise=rng.choice([0.0, 0.3, 1.0]) if kind == "better-noisy" else 0.3)
            old_ds, old_vals, old_mean = bl.dataset, [float(x) for x in bl.bl_vals.tolist()], float(bl.mean)
            cand_vals = _per_instance(cand, env, old_ds)
            # one-sided paired t-test on costs, recomputed: d = (-cand) - (-bl)
            d = [b - a for a, b in zip(cand_vals, old_vals)]
            n = len(d)
            md = sum(d) / n
            sd = math.sqrt(sum((x - md) ** 2 for x in d) / (n - 1)) if n > 1 else float("nan")
            if sd == 0 or sd != sd:
                pv = 0.0 if md < 0 else (1.0 if md > 0 else float("nan"))
            else:
                pv = float(stats.t.sf(abs(md / (sd / math.sqrt(n))), n - 1))
            better = (sum(cand_vals) / n - old_mean) > 0
            margin = min(abs(sum(cand_vals) / n - old_mean), abs(pv - alpha) if pv == pv else 1.0)
            try:
                bl.epoch_callback(cand, env, batch_size=bs, device="cpu", epoch=e, dataset_size=N)
            except Exception as ex:
                ctx.case(("rollout-raises", c, e), nontrivial=True)
                ctx.violation("rollout-baseline-update-rule", f"RolloutBaseline.epoch_callback raises {type(ex).__name__} "
                              f"({str(ex)[:60]}) for a {kind} candidate",
                              {**wit0, "epoch": e, "candidate": kind, "candidate_mean": sum(cand_vals) / n,
                               "baseline_mean": old_mean, "p_one_sided": pv})
                break
            updated = bl.dataset is not old_ds
            ctx.case(("rollout", c, e, kind), nontrivial=True)
            ctx.count(f"c16.rollout.candidate.{kind}")
            ctx.count("c16.rollout.replaced" if updated else "c16.rollout.kept")
            wit = {**wit0, "epoch": e, "candidate": kind, "candidate_mean": sum(cand_vals) / n, "baseline_mean": old_mean,
                   "p_one_sided": pv}
            if margin < 1e-6 or pv != pv:
                ctx.count("c16.rollout.decision-tie-skipped")
            else:
                fresh_vals = _per_instance(cand, env, bl.dataset) if updated else [0.0]
                line = (f"train.rolloutcb {fs(fr(alpha))} {fs(fr(pv))} {n} " + " ".join(fs(fr(x)) for x in old_vals) + f" {n} "
                        + " ".join(fs(fr(x)) for x in cand_vals) + f" {len(fresh_vals)} " + " ".join(fs(fr(x)) for x in fresh_vals))
                rep = parse_fields(ctx.driver.ask(line))
                accept = rep["refaccept"] == "1"   # REFERENCE decision; rep["accept"] is the as-coded model
                if accept != (better and pv < alpha):
                    ctx.disagreement("rollout reference decision ≠ (better ∧ p < alpha)", wit)
                if updated != accept:
                    ctx.violation("rollout-baseline-update-rule",
                                  "RolloutBaseline.epoch_callback replaced / kept the frozen policy against the rule "
                                  "'candidate better on average and one-sided p-value < bl_alpha'", {**wit, "replaced": updated})
                    break
                if updated and not close(float(bl.mean), float(Fraction(rep["mean"])), 1e-5):
                    ctx.violation("rollout-baseline-values", "mean after replacement is not the candidate's mean on the fresh set", wit)
                    break
                if not updated and (bl.bl_vals.tolist() != old_vals or float(bl.mean) != old_mean):
                    ctx.violation("rollout-baseline-values", "state changed although the candidate was rejected", wit)
                    break
                if (rep["accept"] == "1") != accept:
                    ctx.disagreement("as-coded rollout decision ≠ reference although the real object follows the reference", wit)
            # frozen policy = candidate after a replacement, unchanged otherwise (behaviourally, on a probe set)
            probe = env.dataset(4)
            want = _per_instance(cand if updated else bl.policy, env, probe)
            got = _per_instance(bl.policy, env, probe)
            if not all(close(a, b, 1e-5) for a, b in zip(want, got)):
                ctx.violation("rollout-baseline-update-rule", "the frozen policy after the callback is not the candidate", wit)
                break
            if not consistent(f"epoch {e}"):
                break
        # wrap_dataset: item i carries the frozen policy's reward on instance i, any evaluation batch size
        M = rng.choice([1, 4, 7])
        wbs = rng.choice([1, 2, 3, 5, 8])
        ds = env.dataset(M)
        wrapped = bl.wrap_dataset(ds, env, batch_size=wbs, device="cpu")
        ref = _per_instance(bl.policy, env, ds)
        extra = [float(wrapped[i]["extra"]) for i in range(M)]
        same_inst = all(torch.equal(wrapped[i]["locs"], ds[i]["locs"]) for i in range(M))
        ctx.count("c16.rollout.wrap_dataset")
        if not same_inst or not all(close(a, b, 1e-5) for a, b in zip(extra, ref)):
            ctx.violation("rollout-baseline-values", "wrap_dataset: `extra` of item i is not the frozen policy's reward on instance i",
                          {**wit0, "wrap_batch_size": wbs, "code": extra[:6], "reference": ref[:6]})
        ctx.sample({"unit": "train", "what": "RolloutBaseline history", "dataset_size": N, "bl_alpha": alpha,
                    "bl_vals_head": [float(x) for x in bl.bl_vals.tolist()][:3], "wrap_extra_head": extra[:3], "reference_head": ref[:3]}, cap=4)


def _td_equal(a, b, keys):
    for k in keys:
        if k in a.keys() and k in b.keys():
            x, y = a[k], b[k]
            if x.shape != y.shape or not torch.equal(x, y):
                return k
    return None


def check_nstep_ppo(ctx):
    """`n_step_PPO.shared_step` (improvement models DACT / N2S / NeuOpt) in the training phase without a Trainer: a plain
    optimizer with lr = 0 freezes the parameters, the dropout layers that `nn/mlp.py` keeps in a plain Python list are
    switched off explicitly, so every inner PPO epoch must reproduce the rollout.  Per n-step block, inner epoch k and
    stored step t: (a) the state the stored action is re-evaluated in is the state it was sampled in; (b) its re-evaluated
    log-probability equals the stored one (ratio 1); (c) the loss (and θ·grad) equals the reference clipped surrogate +
    value term recomputed from the rollout with the n-step returns `R_t = r_t + γ·R_{t+1}` bootstrapped by the critic."""
    from rl4co.envs import PDPRuinRepairEnv, TSPkoptEnv
    from rl4co.models import DACT, N2S, NeuOpt

    kinds = ["dact", "n2s", "neuopt"]
    for c in range(ctx.budget(6, 30)):
        rng = ctx.rng
        gen = _seed_torch(ctx)
        kind = kinds[c % 3]
        nloc = rng.choice([6, 8])
        if kind == "dact":
            env, cls = TSPkoptEnv(generator_params=dict(num_loc=nloc), k_max=2), DACT
        elif kind == "n2s":
            env, cls = PDPRuinRepairEnv(generator_params=dict(num_loc=nloc)), N2S
        else:
            env, cls = TSPkoptEnv(generator_params=dict(num_loc=nloc), k_max=4), NeuOpt
        n_step = rng.choice([2, 3])
        blocks = rng.choice([1, 2])
        K_in = rng.choice([1, 2, 3, 3]) if c >= 3 else 3
        gamma = rng.choice([0.999, 0.9, 0.5])
        clip = rng.choice([0.1, 0.2])
        vf = rng.choice([1.0, 0.5])
        kw = dict(n_step=n_step, T_train=n_step * blocks, T_test=2, ppo_epochs=K_in, gamma=gamma, clip_range=clip, vf_lambda=vf,
                  CL_best=rng.random() < 0.5)
        if c % 6 == 5:
            kw = dict(n_step=n_step, T_train=n_step * blocks, T_test=2)  # ppo_epochs, gamma, clip_range, vf_lambda at their defaults
        model = cls(env, **kw)
        cfg = model.ppo_cfg
        K_in, gamma, clip, vf = cfg["ppo_epochs"], cfg["gamma"], cfg["clip_range"], cfg["vf_lambda"]
        model.log_dict = _noop
        for mod in model.modules():  # dropouts kept in a plain list are not reached by .eval() / .train()
            if hasattr(mod, "dropouts"):
                for d_ in mod.dropouts:
                    d_.eval()
        params = list(model.policy.parameters()) + list(model.critic.parameters())
        opt = torch.optim.SGD(params, lr=0.0)
        model.optimizers = lambda opt=opt: opt
        model.clip_gradients = _noop
        dirn = Direction(params, gen)
        # N2SPolicy and NeuOptPolicy cannot handle a batch of ONE instance on the unchanged tree (a squeezed tensor loses its
        # batch dimension: IndexError) — outside this routine's subject, so they are driven with B ≥ 2
        B = rng.choice([1, 2, 3]) if kind == "dact" else rng.choice([2, 3])
        ctx.count(f"c16.nstep.{kind}")
        ctx.count(f"c16.nstep.ppo_epochs.{K_in}")
        # --- recording: every policy / critic call with a deep copy of the state it receives -------------------------
        calls = []
        pol_fwd, cri_fwd = model.policy.forward, model.critic.forward

        def pfwd(td, *a, **k):
            snap = td.clone()
            out = pol_fwd(td, *a, **k)
            kind_ = "reeval" if k.get("actions") is not None else ("boot" if k.get("only_return_embed") else "rollout")
            calls.append({"who": "policy", "kind": kind_, "state": snap, "out": out, "actions": k.get("actions")})
            return out

        def cfwd(*a, **k):
            out = cri_fwd(*a, **k)
            calls.append({"who": "critic", "out": out})
            return out

        model.policy.forward, model.critic.forward = pfwd, cfwd
        epochs = []  # one record per manual_backward: the calls since the previous one

        def manual_backward(loss):
            # directional derivatives of everything the loss was built from, BEFORE backward frees the graphs
            for rec_ in calls:
                o_ = rec_["out"]
                if rec_["who"] == "critic":
                    rec_["dv"] = dirn.dd_each(o_)
                elif rec_["kind"] != "boot" and "log_likelihood" in o_:
                    rec_["dll"] = dirn.dd_each(o_["log_likelihood"])
            epochs.append({"loss": loss, "dd": dirn.dd(loss), "calls": list(calls)})
            calls.clear()
            loss.backward()

        model.manual_backward = manual_backward
        batch = env.generator(batch_size=[B])
        wit0 = {"model": kind, "num_loc": nloc, "B": B, "n_step": n_step, "T_train": n_step * blocks, "ppo_epochs": K_in,
                "gamma": gamma, "clip_range": clip, "vf_lambda": vf}
        try:
            model.shared_step(batch, 0, "train")
        except Exception as ex:
            ctx.violation("loss-raises", f"n_step_PPO[{kind}].shared_step(…, 'train') raises {type(ex).__name__}", {**wit0, "error": str(ex)[:200]})
            continue
        finally:
            del model.policy.forward, model.critic.forward
        if len(epochs) != blocks * K_in:
            ctx.disagreement("n-step PPO: number of optimisation steps", {**wit0, "steps": len(epochs)})
            continue
        state_keys = ["rec_current", "cost_current", "cost_bsf", "rec_best", "action", "visited_time", "i", "locs"]
        for blk in range(blocks):
            eps_ = epochs[blk * K_in:(blk + 1) * K_in]
            first = eps_[0]["calls"]
            roll = [x for x in first if x["who"] == "policy" and x["kind"] == "rollout"][-n_step:]
            roll_states = [x["state"] for x in roll]
            roll_actions = [x["out"]["actions"] for x in roll]
            old_ll = [x["out"]["log_likelihood"].detach() for x in roll]
            # critic values of the rollout: the critic call following each rollout policy call
            def critic_after(seq, pol_call, what="out"):
                j = next(idx_ for idx_, y in enumerate(seq) if y is pol_call)
                return seq[j + 1][what]
            rewards = None
            old_value = None
            flagged = False
            for k, ep in enumerate(eps_):
                seq = ep["calls"]
                wit = {**wit0, "block": blk, "inner_epoch": k}
                ctx.case(("nstep", c, blk, k), nontrivial=True)
                if k == 0:
                    ll_t = [x["out"]["log_likelihood"] for x in roll]
                    bl_t = [critic_after(seq, x) for x in roll]
                    dll = [d_ for x in roll for d_ in x["dll"]]
                    dbl = [d_ for x in roll for d_ in critic_after(seq, x, "dv")]
                else:
                    re = [x for x in seq if x["who"] == "policy" and x["kind"] == "reeval"]
                    if len(re) != n_step:
                        ctx.disagreement("n-step PPO: number of re-evaluations", {**wit, "found": len(re)})
                        flagged = True
                        break
                    for t, x in enumerate(re):
                        bad = _td_equal(x["state"], roll_states[t], state_keys)
                        if bad is not None or not torch.equal(x["actions"], roll_actions[t]):
                            ctx.violation("nstep-memory-state", f"n_step_PPO[{kind}]: in inner epoch {k} the stored action of step {t} is "
                                          f"re-evaluated in a state that differs from the one it was sampled in (key '{bad or 'actions'}'): "
                                          "the rollout memory does not hold the rollout states",
                                          {**wit, "step": t, "key": bad or "actions",
                                           "rollout_state": roll_states[t][bad].tolist()[:1] if bad else None,
                                           "reevaluated_state": x["state"][bad].tolist()[:1] if bad else None})
                            flagged = True
                            break
                        new_ll = x["out"]["log_likelihood"].detach()
                        if not torch.allclose(new_ll, old_ll[t], rtol=1e-4, atol=1e-5):
                            ctx.violation("nstep-reeval-logprob", f"n_step_PPO[{kind}]: with frozen parameters the re-evaluated log-probability "
                                          f"of the stored action of step {t} (inner epoch {k}) differs from the stored one (ratio ≠ 1)",
                                          {**wit, "step": t, "stored": old_ll[t].tolist(), "reevaluated": new_ll.tolist()})
                            flagged = True
                            break
                    if flagged:
                        break
                    ctx.count("c16.nstep.reevaluations-checked", n_step)
                    ll_t = [x["out"]["log_likelihood"] for x in re]
                    bl_t = [critic_after(seq, x) for x in re]
                    dll = [d_ for x in re for d_ in x["dll"]]
                    dbl = [d_ for x in re for d_ in critic_after(seq, x, "dv")]
                boot = [x for x in seq if x["who"] == "policy" and x["kind"] == "boot"]
                if len(boot) != 1:
                    ctx.disagreement("n-step PPO: bootstrap evaluation", wit)
                    flagged = True
                    break
                V = critic_after(seq, boot[0]).detach().reshape(-1)
                if rewards is None:
                    # rewards of the block: cost_bsf improvement as the env defines it, read from the state AFTER each step =
                    # the state the next rollout call (or the bootstrap call) received
                    nxt = roll_states[1:] + [boot[0]["state"]]
                    rewards = [s_["reward"].reshape(-1) for s_ in nxt]
                ll_f = torch.stack(ll_t).reshape(-1).detach()
                bl_f = torch.stack(bl_t).reshape(-1).detach()
                ol_f = torch.stack(old_ll).reshape(-1)
                ratio = torch.exp(ll_f - ol_f).detach()
                ov = old_value
                ents = []
                for i in range(ll_f.numel()):
                    e_ = f"{fs(fr(ll_f[i]))} {fs(fr(dll[i]))} {fs(fr(ol_f[i]))} {fs(fr(bl_f[i]))} {fs(fr(dbl[i]))} "
                    if ov is not None:
                        e_ += f"{fs(fr(ov[i]))} "
                    ents.append(e_ + fs(fr(ratio[i])))
                dt = ll_f.dtype
                line = (f"train.nstep {fs(fr(gamma))} {fs(fr(torch.tensor(1 - clip, dtype=dt)))} {fs(fr(torch.tensor(1 + clip, dtype=dt)))} "
                        f"{fs(fr(clip))} {fs(fr(vf))} {n_step} {B} " + " ".join(fs(fr(v)) for r_ in rewards for v in r_.tolist()) + " "
                        + " ".join(fs(fr(v)) for v in V.tolist()) + f" {0 if ov is None else 1} " + " ".join(ents))
                rep = parse_fields(ctx.driver.ask(line))
                if rep["returns"] != rep["refreturns"]:
                    ctx.disagreement("as-coded n-step returns ≠ closed form", wit)
                code_loss, code_dd = float(ep["loss"]), ep["dd"]
                mv, md = pdual(rep["loss"])
                sv = Fraction(rep["spec"])
                scale_d = (sum(abs(d) for d in dll) + sum(abs(d) for d in dbl)) / max(1, len(dll)) * (float(V.abs().max()) + 1)
                if not close(code_loss, sv, 2e-4, atol=1e-5):
                    ctx.violation("loss-not-reference-surrogate", f"n_step_PPO[{kind}]: loss of inner epoch {k} differs from the clipped surrogate "
                                  "+ value term recomputed from the rollout (n-step returns bootstrapped by the critic)",
                                  {**wit, "code": code_loss, "reference": float(sv)})
                    flagged = True
                    break
                if not close(code_loss, mv, 2e-4, atol=1e-5) or not close(code_dd, md, 5e-3, atol=5e-3 * (scale_d + 1e-3)):
                    ctx.disagreement("n-step PPO: model loss / θ·grad", {**wit, "code": [code_loss, code_dd], "model": [float(mv), float(md)]})
                if k == 0:
                    old_value = bl_f.detach().clone()
                ctx.count("c16.reference-evaluated")
            if not flagged and K_in > 1:
                ctx.count("c16.nstep.blocks-consistent-over-inner-epochs")
        ctx.sample({"unit": "train", "what": f"n_step_PPO[{kind}]", **wit0, "losses": [float(e["loss"]) for e in epochs][:6]}, cap=6)


def run_c16(ctx):
    check_calc_loss(ctx)
    check_calc_loss_conditioning(ctx)
    check_reinforce(ctx)
    check_pomo(ctx)
    check_a2c(ctx)
    check_a2c_optimizers(ctx)
    check_ppo(ctx)
    check_symnco(ctx)
    check_rollout_baseline(ctx)
    check_nstep_ppo(ctx)


C16_NOTE = ("losses modelled over dual numbers (value, directional derivative) and shaped tensors with PyTorch broadcasting "
            "(Rl4co/Train/Dual.lean, Loss.lean, Baselines.lean); that autograd implements the dual-number rules is trusted; "
            "neural networks are oracles: the recorded reward / log-likelihood / critic value and their directional "
            "derivatives (autograd, Σ grad·v along a random direction) are the model's inputs; exp is an uninterpreted function")

C16_MODULES = ["Rl4co.Props.C16.TrainReinforce", "Rl4co.Props.C16.TrainPpo", "Rl4co.Props.C16.TrainSymnco",
               "Rl4co.Props.C16.TrainCoded", "Rl4co.Props.C20.TrainCoded", "Rl4co.Props.C16.TrainSymncoFlat",
               "Rl4co.Props.C16.TrainPpoKink", "Rl4co.Props.C16.TrainRollout", "Rl4co.Props.C16.TrainPpoNorm",
               "Rl4co.Props.C16.TrainSymncoInv", "Rl4co.Props.C20.TrainSpecSanity", "Rl4co.Props.C16.TrainNStep"]
C16_THEOREMS = [
    Theorem("Rl4co.Train.reinforce_vec", "proved",
            "REINFORCE, per-instance baseline [n] (critic, rollout `extra`, warm-up mixtures), any advantage scaling: loss = "
            "−mean(sc(R−b)·ll) + bl_loss, advantage shape [n], and (R, b gradient-free) d loss = −mean(sc(R−b)·d ll) + d bl_loss"),
    Theorem("Rl4co.Train.reinforce_scalar", "proved", "the same for a scalar baseline (none, exponential, mean)"),
    Theorem("Rl4co.Train.reinforce_shared", "proved",
            "shared baseline (POMO) on [B,S]: advantage shape [B,S] (no B×B), loss and derivative = shared-baseline surrogate"),
    Theorem("Rl4co.Train.shared_adv_sum_zero", "proved", "Σ_s (R_s − mean R) = 0 within an instance"),
    Theorem("Rl4co.Train.shared_adv_sum_zero_ten", "proved", "… for the rows of reward − reward.mean(dim=1, keepdims=True) as the code computes them"),
    Theorem("Rl4co.Train.pomo_regroup_index", "proved", "unbatchify(x,(0,S)) of a start-outer flat batch: entry [b,s] = x[s·B+b]"),
    Theorem("Rl4co.Train.critic_eval", "proved",
            "CriticBaseline.eval: value detached whatever the critic's gradient; loss = mse(v, R.detach()) with derivative (2/n)Σ(v−R)·dv"),
    Theorem("Rl4co.Train.shared_val_no_grad", "proved", "gradient-free reward ⇒ gradient-free shared baseline value"),
    Theorem("Rl4co.Train.warmup_val_no_grad", "proved", "gradient-free wrapped value ⇒ gradient-free warm-up mixture"),
    Theorem("Rl4co.Train.a2c_loss", "proved", "A2C: loss = −mean((R−v)·ll) + mse(v,R); derivative = −mean((R−v)·d ll) + (2/n)Σ(v−R)·dv"),
    Theorem("Rl4co.Train.mixup_broadcasts", "proved", "the model is shape-sensitive: [n] − [n,1] gives [n,n] as in PyTorch"),
    Theorem("Rl4co.Train.ppo_loss", "proved",
            "PPO mini-batch: ratio/advantage shape [B,1]; loss = clipped-ratio objective + vf·Huber − ent·entropy; at non-kink points "
            "its derivative is that of the reference (rewards, old log-probs, value inside the advantage: no gradient)"),
    Theorem("Rl4co.Train.surrElem_d", "proved", "one sample: derivative of min(r·A, clamp(r)·A) away from the clip bounds"),
    Theorem("Rl4co.Train.huberD_d", "proved", "one sample: derivative of the Huber term"),
    Theorem("Rl4co.Train.symnco_regroup_index", "proved",
            "SymNCO regrouping: entry [b,q,r] = x[(r·S+q)·B+b] — stays within instance b, flat group index r·S+q"),
    Theorem("Rl4co.Train.symnco_dim1", "proved", "SymNCO dim-1 term: shared-baseline surrogate over the code's own groups, value and derivative"),
    Theorem("Rl4co.Train.symnco_dimLast", "proved", "SymNCO last-dim term, value and derivative"),
    Theorem("Rl4co.Train.symnco_total", "proved", "loss = ps + beta·ss + alpha·inv with the code's guards"),
    Theorem("Rl4co.Train.symnco_adv_sum_zero_dim1", "proved", "advantages of every dim-1 group sum to zero"),
    Theorem("Rl4co.Train.symnco_adv_sum_zero_dimLast", "proved", "advantages of every last-dim group sum to zero"),
    Theorem("Rl4co.Train.symnco_groups_counterexample", "proved",
            "FINDING: ¬(groups are semantic for all S, A ≥ 2) — S = 3, A = 2 mixes starts and augmentations"),
    Theorem("Rl4co.Train.symnco_loss_counterexample", "proved",
            "FINDING: ¬(SymNCO loss = reference surrogate under either reading of the axes) — concrete S=3, A=2, B=1 instance"),
    # translator tie (see the C20 list): obligations on the tokens extracted from reinforce.py / baselines.py / ppo.py / a2c.py / pomo / symnco
    Theorem("Rl4co.Train.calcLossC_eq", "proved", "obligation: `reward − bl_val`, `−(adv·ll).mean()`, `+ bl_loss` as coded = reference calculate_loss"),
    Theorem("Rl4co.Train.sharedEvalC_eq", "proved", "obligation: shared baseline `mean(dim, keepdims=True)` as coded = reference"),
    Theorem("Rl4co.Train.Critic.evalC_eq", "proved", "obligation: critic value squeezed and detached, target detached, as coded = reference"),
    Theorem("Rl4co.Train.a2c_uses_critic_baseline", "proved", "obligation: A2C passes baseline=CriticBaseline(critic) to REINFORCE"),
    Theorem("Rl4co.Train.ppoLossC_eq", "proved", "obligation: torch.min of the two PRODUCTS, two-sided clamp, Huber, −entropy, detached value as coded = reference PPO block"),
    Theorem("Rl4co.Train.symncoRegroupC_eq", "proved", "obligation: SymNCO's unbatchify tuple is (n_start, n_aug) (the modelled — defective — order)"),
    Theorem("Rl4co.Train.symncoLossC_eq", "proved", "obligation: SymNCO loss as coded = modelled loss"),
    Theorem("Rl4co.Train.Warmup.epochCallbackC_eq", "proved", "obligation (state carried across epochs): warm-up schedule as coded = reference"),
    Theorem("Rl4co.Train.Warmup.evalC_eq", "proved", "obligation: warm-up mixture as coded = reference"),
    Theorem("Rl4co.Train.Ema.evalC_eq", "proved", "obligation: exponential baseline as coded = reference"),
    Theorem("Rl4co.Train.Welford.callC_eq", "proved", "obligation: the advantage scaler inside calculate_loss as coded = reference"),
    Theorem("Rl4co.Train.pomo_regroup3_index", "proved", "POMO's unbatchify(x,(n_aug,n_start)) as coded: entry [b,a,s] = x[(s·A+a)·B+b] — every axis semantic"),
    Theorem("Rl4co.Train.reinforce_vec_coded", "proved", "reinforce_vec for the as-coded calculate_loss"),
    Theorem("Rl4co.Train.reinforce_scalar_coded", "proved", "reinforce_scalar for the as-coded calculate_loss"),
    Theorem("Rl4co.Train.reinforce_shared_coded", "proved", "reinforce_shared for the as-coded calculate_loss and shared baseline"),
    Theorem("Rl4co.Train.a2c_loss_coded", "proved", "a2c_loss for the as-coded critic baseline and calculate_loss"),
    Theorem("Rl4co.Train.ppo_loss_coded", "proved", "ppo_loss (value and gradient) for the as-coded PPO block"),
    Theorem("Rl4co.Train.symnco_dim1_flat", "proved", "SymNCO dim-1 term on the flat rollout, all S, A ≥ 1: baseline = mean over the block of S consecutive (start,aug) pairs (value and gradient)"),
    Theorem("Rl4co.Train.symnco_dimLast_flat", "proved", "SymNCO last-dim term: baseline = mean over the pairs congruent modulo S"),
    Theorem("Rl4co.Train.symnco_loss_flat", "proved", "the whole SymNCO loss as an equation with the mixed groups named, all S, A ≥ 2 (the exact content of the finding)"),
    Theorem("Rl4co.Train.symnco_loss_eq_reference_of_eq", "partial", "n_start = n_aug ≥ 2 ⇒ SymNCO loss AND gradient = reference surrogate (docstring reading), every B, alpha, beta"),
    Theorem("Rl4co.Train.surrG_d", "proved", "per-sample derivative of min(r·A, clamp(r)·A) at EVERY point, sub-gradient convention of clamp at its bounds as a parameter"),
    Theorem("Rl4co.Train.ppo_loss_all", "proved", "PPO mini-batch gradient at ALL points (kinks weigh 1/2: PyTorch's convention), only clipLo ≤ clipHi assumed"),
    Theorem("Rl4co.Train.RolloutBl.epochCallback_policy", "proved", "RolloutBaseline.epoch_callback replaces the frozen policy iff candidate mean > baseline mean ∧ one-sided p < bl_alpha; else nothing changes"),
    Theorem("Rl4co.Train.RolloutBl.acceptsC_eq", "proved", "obligation: `candidate_mean − mean > 0`, `p/2 < bl_alpha` as coded = reference decision"),
    Theorem("Rl4co.Train.RolloutBl.epochCallbackC_eq", "proved", "obligation: epoch_callback as coded (the CANDIDATE is rolled out) = reference"),
    Theorem("Rl4co.Train.RolloutBl.accepts_iff", "proved", "the decision stated outright: replace ⇔ baseline mean < candidate mean ∧ one-sided p < bl_alpha"),
    Theorem("Rl4co.Train.RolloutBl.tstat_neg", "proved", "whenever the test is run (candidate better) with positive standard error the paired t statistic is negative: `assert t < 0` never fires"),
    Theorem("Rl4co.Train.ppoAdv_norm_sum_zero", "proved", "normalize_adv: the normalised advantages sum to zero over the mini-batch, for every value of the std oracle"),
    Theorem("Rl4co.Train.ppoAdv_norm_sumsq", "proved", "normalize_adv: if std² is the unbiased variance (eps = 0) their sum of squares is B − 1"),
    Theorem("Rl4co.Train.A2C.groupsC_eq", "proved", "obligation + statement: A2C optimizer groups = (policy, actor lr), (critic, critic lr defaulting to the actor's)"),
    Theorem("Rl4co.Train.invRowsC_eq", "proved", "obligation: invariance_loss compares rows b·A and b·A+i (pattern '(b a) …')"),
    Theorem("Rl4co.Train.invariance_pairs_counterexample", "proved", "observation outside C16's clauses: those rows are NOT the same instance (A=2, B=3)"),
    Theorem("Rl4co.Train.invariance_rows_in_range", "proved", "the rows compared lie inside the augmented batch"),
    Theorem("Rl4co.Spec.Train.surrogate_add", "proved", "Spec sanity: the surrogate is linear in the log-likelihood direction"),
    Theorem("Rl4co.Spec.Train.sharedSurrogate_shift", "proved", "Spec sanity: shifting all rewards of an instance by a constant leaves the shared-baseline surrogate unchanged"),
    Theorem("Rl4co.Spec.Train.ppo_at_ratio_one", "proved", "Spec sanity: at ratio 1 the PPO reference is −mean A + vf·mean huber − ent·mean h"),
    Theorem("Rl4co.Train.NStep.rolloutMemC_eq", "proved", "obligation (token `memory.tds.append(td.clone())`): the n-step rollout memory holds the rollout states"),
    Theorem("Rl4co.Train.NStep.reeval_state", "proved", "n-step PPO: the state re-evaluated at inner epoch k, step t is the state the action was sampled in"),
    Theorem("Rl4co.Train.NStep.rolloutMem_alias", "proved", "the recognised negative case: without the clone every stored state aliases the final state"),
    Theorem("Rl4co.Train.NStep.memory_copies", "proved", "obligation: actions / log-probs / rewards stored as copies, re-evaluation on a copy, adv = Reward − bl.detach(), ratio = exp(ll − old_ll)"),
    Theorem("Rl4co.Train.NStep.returnsC_eq", "proved", "obligation (token `R = R * gamma + r`): the return recursion as coded = reference"),
    Theorem("Rl4co.Train.NStep.returns_cons", "proved", "n-step returns: R_t = r_t + γ·R_{t+1}, R_n = critic value of the state after the block"),
    Theorem("Rl4co.Train.NStep.returns_closed_form", "proved", "closed form R_t = Σ_{j≥t} γ^{j−t} r_j + γ^{n−t} V for every block length"),
    Theorem("Rl4co.Train.NStep.nstep_value", "proved", "n-step PPO loss of an inner epoch = clipped surrogate + vf·(clipped) value loss, first and later inner epochs"),
    Theorem("Rl4co.Train.RolloutBl.consistent_run", "proved", "after setup and ANY history of callbacks: bl_vals = frozen policy's rewards on its evaluation set, instance by instance; mean = their mean"),
    Theorem("Rl4co.Train.RolloutBl.policy_mem_run", "proved", "the frozen policy is always the initial one or one of the candidates seen"),
    Theorem("Rl4co.Train.RolloutBl.wrap_value", "proved", "wrap_dataset: item i carries the frozen policy's reward on instance i, any evaluation batch size (via Ops.wrap_aligned)"),
    Theorem("Rl4co.Train.RolloutBl.reinforce_rollout", "proved", "REINFORCE on a wrapped batch: loss / gradient = −mean((R_i − g(x_i))·(d)ll_i)"),
    Theorem("Rl4co.Train.symnco_groups_partial", "partial", "n_start = n_aug ⇒ dim-1 groups share the start, last-dim groups the augmentation"),
]


def replay_c16(ctx, witness):
    """Replays a SymNCO witness (configuration) on the real code."""
    if "n_start" in witness:
        check_symnco(ctx, only=(witness["n_start"], witness["n_aug"], witness.get("B", 1)))


register(Unit("C16", "train", run_c16, drivers=["drv_train"], lean_modules=C16_MODULES, theorems=C16_THEOREMS,
              replay=replay_c16,
              assumptions=[C16_NOTE,
                           "n_step_PPO (DACT / N2S / NeuOpt) is driven without a Trainer with a plain optimizer of lr = 0; the dropout "
                           "layers that rl4co/models/nn/mlp.py keeps in a plain Python list (not reached by .eval()) are switched off "
                           "explicitly so that inner PPO epochs are comparable; N2S / NeuOpt are driven with batch size ≥ 2 (their "
                           "policies raise an IndexError on a batch of one instance on the unchanged tree); normalize_adv of n-step PPO is "
                           "left at its default (off)",
                           "besides the real policies, `REINFORCE.calculate_loss` is also driven directly with hand-made rollouts "
                           "(leaf log-likelihood tensor, rewards with exact special values, shapes [B] / [B,S] / 0-d, every scaling mode, "
                           "default-constructed baselines, epochs beyond the warm-up horizon); the warm-up weight fed to the model is "
                           "the reference schedule min(1,(e+1)/n), not the real object's alpha",
                           "SymNCO reference: flat layout k = (s·A + a)·B + b (verified on every run from start nodes, augmented "
                           "instances and tour lengths); the loss is accepted if it equals the reference under either reading of "
                           "the regrouped axes (model.py labels / losses.py docstrings)"]))
