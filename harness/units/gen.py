"""Generator and persistence units (C18, C19): rl4co's instance generators and save/load paths vs the Lean
models in `Rl4co/Gen/*.lean`.

C18 — every unit does two things on the REAL generators:
  (tape)  torch's random sources are replaced by the harness' own dyadic draws (`gen_draws.Tape`), the
          generator's output is compared field by field with the Lean model of its post-processing evaluated
          on the same draws (`drv_gen`);
  (range) the generator runs on torch's own PRNG (seeded from `ctx.rng`) over sizes (incl. off-table),
          distributions, capacity overrides, presets … and the documented keys / shapes / ranges and the
          well-formedness the environments rely on are evaluated on the output.
`gen_solvable` runs a mask-confined episode (the harness' own loop) on generated instances of every env.

C19 — real save → load round trips compared with the originals and with the Lean parser / normalisation
models; npz / pickle / torch.save containers are not modelled (correspondence only; C19 is partial).
"""
from __future__ import annotations

import copy
import math
import os
import pickle
import shutil
import tempfile
from fractions import Fraction
from typing import List

import numpy as np

import geom
import gen_lib as G
import rl
from common import LEAN_DIR, Theorem, Unit, register
from gen_draws import Tape
from gen_lib import SC, ask, f32, frac_pair, ints, parse_frac, quiet, seed_all
from rl import TensorDict, torch

DYADIC_BOUNDS = [(0.0, 1.0), (0.0, 1.0), (-1.0, 3.0), (0.5, 2.5), (2.0, 3.0), (0.0, 150.0)]


# =================================================================================================
# shared checks
# =================================================================================================

def check_keys(ctx, gen_name, td, expected: dict, B: int, params):
    """documented keys and shapes: `expected` maps key → shape without the batch dimension"""
    got = set(td.keys())
    if got != set(expected):
        V(ctx, f"{gen_name}-keys", f"{gen_name} generator: keys {sorted(got)} differ from the documented {sorted(expected)}",
                      {"params": params})
        return False
    ok = True
    for k, shp in expected.items():
        if tuple(td[k].shape) != (B, *shp):
            V(ctx, f"{gen_name}-shape-{k}", f"{gen_name} generator: `{k}` has shape {tuple(td[k].shape)}, documented {(B, *shp)}",
                          {"params": params})
            ok = False
    return ok


def check_bounds(ctx, gen_name, field, t, lo, hi, params, strict_hi=False):
    t = t.double()
    bad = ~torch.isfinite(t) | (t < lo) | ((t >= hi) if strict_hi else (t > hi))
    if bool(bad.any()):
        idx = bad.nonzero()[0].tolist()
        V(ctx, f"{gen_name}-{field}-out-of-range",
                      f"{gen_name} generator: `{field}` = {t[tuple(idx)].item()} outside [{lo}, {hi}]",
                      {"params": params, "index": idx})
        return False
    return True


def tape_coords(ctx, name, tape_entry, t, lo, hi, params, sample=12):
    """`t` must be exactly lo + (k/q)(hi − lo) for the taped numerators k; a sample goes through the Lean model"""
    ks, q = tape_entry["k"], tape_entry["q"]
    flat = t.flatten().tolist()
    if len(flat) != len(ks):
        ctx.disagreement(f"{name}: number of coordinate draws", {"params": params, "draws": len(ks), "values": len(flat)})
        return
    lo_t, hi_t = rl.ticks(lo), rl.ticks(hi)
    # full comparison in exact integer arithmetic (same formula as Gen.affNum), sample through the driver
    for j, (k, v) in enumerate(zip(ks, flat)):
        if Fraction(v) * SC * q != lo_t * q + k * (hi_t - lo_t):
            ctx.disagreement(f"{name}: coordinate ≠ lo + u(hi−lo)", {"params": params, "j": j, "k": k, "q": q, "real": v})
            return
    pick = ctx.rng.sample(range(len(ks)), min(sample, len(ks)))
    reps = ask(ctx, [f"gen.aff {lo_t} {hi_t} {ks[j]} {q}" for j in pick])
    for j, r in zip(pick, reps):
        if int(r["num"]) != Fraction(flat[j]) * SC * q:
            ctx.disagreement(f"{name}: coordinate vs Gen.affNum", {"params": params, "j": j, "model": r["num"], "real": flat[j]})


def V(ctx, key, what, witness):
    """report a violation, at most 3 times per key and run: `Ctx` keeps only the first 20 records, and a flood of one
    (known) class must not crowd out another class; further occurrences are counted"""
    seen = ctx.__dict__.setdefault("_gen_seen", {})
    seen[key] = seen.get(key, 0) + 1
    if seen[key] <= 3:
        ctx.violation(key, what, witness)
    else:
        ctx.count(f"violation-repeats:{key}")


def guarded(ctx, what, fn, *args):
    """a generator (or loader) that raises on a configuration inside the stated parameter conditions is a property violation,
    not a harness crash; the exception text is part of the witness"""
    import traceback
    try:
        fn(ctx, *args)
    except Exception as e:  # noqa: BLE001
        tb = traceback.format_exc().splitlines()
        where = [ln.strip() for ln in tb if "/rl4co/" in ln][-1:] or [ln.strip() for ln in tb if "File" in ln][-1:]
        V(ctx, f"{what}-raises:{type(e).__name__}", f"{what}: {type(e).__name__}: {str(e)[:160]}", {"where": where, "seed": ctx.seed})


# =================================================================================================
# C18 gen_routing: tsp, cvrp, op, pctsp, pdp, mtsp, svrp, mdcpdp, ffsp, smtwtp, flp
# =================================================================================================

CVRP_SIZES = [3, 5, 10, 12, 13, 17, 20, 33, 50, 62, 100, 137, 200]
CVRP_SIZES_BIG = [350, 500, 700, 1000, 1500]


def routing_cvrp(ctx, taped: bool):
    from rl4co.envs.routing.cvrp.generator import CVRPGenerator

    rng = ctx.rng
    n = rng.choice(CVRP_SIZES + (CVRP_SIZES_BIG if rng.random() < 0.15 else []))
    lo, hi = rng.choice(DYADIC_BOUNDS)
    minD, maxD = rng.choice([(1, 10), (1, 10), (1, 1), (3, 7), (1, 2), (5, 5), (1, 17)])
    override = rng.choice([None, None, None, 32.0, 20.0, 17.5, float(maxD)])
    if override is not None and override < maxD:
        override = float(maxD)
    depot_dist = rng.choice([None, None, "uniform"])
    B = rng.choice([1, 2, 3])
    params = dict(num_loc=n, min_loc=lo, max_loc=hi, min_demand=minD, max_demand=maxD, capacity=override,
                  depot_distribution=depot_dist)
    ctx.count(f"cvrp:{'table' if n in (10, 15, 20, 30, 40, 50, 60, 75, 100, 125, 150, 200, 500, 1000) else 'off-table'}"
              f":{'override' if override else 'default-cap'}:{'tape' if taped else 'real'}")
    with quiet():
        g = CVRPGenerator(**params)
    ov = (1, *frac_pair(override)) if override is not None else (0, 0, 1)
    if taped:
        with Tape(rng) as tp:
            td = g([B])
        e_loc = [e for e in tp.log if e["kind"] == "rand"]
        if depot_dist is None:
            if len(e_loc) != 2:
                ctx.disagreement("cvrp: sequence of random calls", {"params": params, "seq": tp.seq()})
                return
            allc = torch.cat((td["depot"][:, None, :], td["locs"]), dim=1)
            tape_coords(ctx, "cvrp", e_loc[0], allc, lo, hi, params)
            e_dem = e_loc[1]
        else:
            if len(e_loc) != 3:
                ctx.disagreement("cvrp: sequence of random calls", {"params": params, "seq": tp.seq()})
                return
            tape_coords(ctx, "cvrp", e_loc[0], td["depot"], lo, hi, params)
            tape_coords(ctx, "cvrp", e_loc[1], td["locs"], lo, hi, params)
            e_dem = e_loc[2]
        r = ask(ctx, [f"gen.cvrp {minD} {maxD} {e_dem['q']} {ov[0]} {ov[1]} {ov[2]} {n} | " + " ".join(map(str, e_dem["k"]))])[0]
        cap = parse_frac(r["cap"])
        dm = ints(r["demand"])
        real = td["demand"].flatten().tolist()
        capf = f32(cap)
        exp = [float(np.float32(d) / np.float32(capf)) for d in dm]
        if real != exp:
            j = next(j for j in range(len(real)) if real[j] != exp[j])
            ctx.disagreement("cvrp: demand/capacity vs Gen.cvrpDemand", {"params": params, "j": j, "real": real[j], "model": exp[j],
                                                                         "k": e_dem["k"][j], "q": e_dem["q"]})
        if set(td["capacity"].flatten().tolist()) != {capf}:
            ctx.disagreement("cvrp: capacity vs Gen.cvrpCapacity", {"params": params, "real": td["capacity"].flatten().tolist()[:3],
                                                                    "model": str(cap)})
        if r["fits"] != "1":
            V(ctx, "cvrp-demand-above-capacity", "model: a generated demand exceeds the capacity", {"params": params, "reply": r["_raw"]})
        ctx.sample({"case": "CVRPGenerator on taped dyadic draws vs Gen.cvrpDemand / cvrpCapacity", "params": params, "draws u=k/q": [e_dem["k"][:4], e_dem["q"]],
                    "model_demand": dm[:4], "model_capacity": str(cap), "real_demand/capacity": real[:4]}, cap=1)
        ctx.case(("cvrp-tape", n, lo, hi, minD, maxD, override, tuple(e_dem["k"][:8])))
    else:
        seed = rng.randrange(1 << 30)
        seed_all(seed)
        td = g([B])
        params = dict(params, seed=seed)
        check_keys(ctx, "cvrp", td, {"locs": (n, 2), "depot": (2,), "demand": (n,), "capacity": (1,)}, B, params)
        check_bounds(ctx, "cvrp", "locs", td["locs"], lo, hi, params)
        check_bounds(ctx, "cvrp", "depot", td["depot"], lo, hi, params)
        cap = parse_frac(ask(ctx, [f"gen.cvrp {minD} {maxD} 1 {ov[0]} {ov[1]} {ov[2]} {n} | 0"])[0]["cap"])
        raw = (td["demand"].double() * float(cap))
        if not torch.allclose(raw, raw.round(), atol=1e-4):
            V(ctx, "cvrp-demand-not-integer", "demand·capacity is not an integer", {"params": params})
        check_bounds(ctx, "cvrp", "demand·capacity", raw.round(), minD, maxD, params)
        check_bounds(ctx, "cvrp", "demand", td["demand"], 0.0, 1.0, params)
        ctx.case(("cvrp-real", n, seed))


def routing_simple(ctx, taped: bool):
    """tsp / pdp / mtsp / mdcpdp / flp / smtwtp / ffsp / svrp / pctsp: affine samplers and integer ranges"""
    rng = ctx.rng
    which = rng.choice(["tsp", "pdp", "mtsp", "mdcpdp", "flp", "smtwtp", "ffsp", "svrp", "pctsp"])
    lo, hi = rng.choice(DYADIC_BOUNDS[:5])
    B = rng.choice([1, 2, 3])
    n = rng.choice([1, 2, 3, 5, 8, 13, 20, 21, 50])
    ctx.count(f"{which}:{'tape' if taped else 'real'}")
    tp = Tape(rng)
    seed = rng.randrange(1 << 30)

    def run(g):
        if taped:
            with tp:
                return g([B])
        seed_all(seed)
        return g([B])

    if which == "tsp":
        from rl4co.envs.routing.tsp.generator import TSPGenerator
        params = dict(num_loc=n, min_loc=lo, max_loc=hi)
        td = run(TSPGenerator(**params))
        check_keys(ctx, which, td, {"locs": (n, 2)}, B, params)
        check_bounds(ctx, which, "locs", td["locs"], lo, hi, params)
        if taped:
            tape_coords(ctx, which, tp.take("rand"), td["locs"], lo, hi, params)
    elif which == "pdp":
        from rl4co.envs.routing.pdp.generator import PDPGenerator
        params = dict(num_loc=n, min_loc=lo, max_loc=hi)
        with quiet():
            g = PDPGenerator(**params)
        td = run(g)
        n2 = n + (n % 2)
        check_keys(ctx, which, td, {"locs": (n2, 2), "depot": (2,)}, B, params)
        if td["locs"].shape[1] % 2 != 0:
            V(ctx, "pdp-odd-num-loc", "PDP generator emitted an odd number of customers: pickups and deliveries cannot be paired", {"params": params})
        check_bounds(ctx, which, "locs", td["locs"], lo, hi, params)
        if taped:
            tape_coords(ctx, which, tp.take("rand"), torch.cat((td["depot"][:, None], td["locs"]), 1), lo, hi, params)
    elif which == "mtsp":
        from rl4co.envs.routing.mtsp.generator import MTSPGenerator
        a = rng.choice([1, 2, 5])
        b = a + rng.choice([0, 1, 3])
        params = dict(num_loc=max(n, 2), min_loc=lo, max_loc=hi, min_num_agents=a, max_num_agents=b)
        td = run(MTSPGenerator(**params))
        check_keys(ctx, which, td, {"locs": (max(n, 2), 2), "num_agents": ()}, B, params)
        check_bounds(ctx, which, "num_agents", td["num_agents"], a, b, params)
        check_bounds(ctx, which, "locs", td["locs"], lo, hi, params)
        if taped:
            e = tp.take("randint")
            if td["num_agents"].flatten().tolist() != e["v"] or (e["lo"], e["hi"]) != (a, b + 1):
                ctx.disagreement("mtsp: num_agents vs randint(min, max+1)", {"params": params, "tape": e})
    elif which == "mdcpdp":
        from rl4co.envs.routing.mdcpdp.generator import MDCPDPGenerator
        nd = rng.choice([1, 2, 5])
        mode = rng.choice(["single", "multiple"])
        a = rng.choice([1, 2])
        b = a + rng.choice([0, 2, 4])
        lw0, lw1 = rng.choice([(1.0, 1.0), (0.5, 2.0), (2.0, 4.0)])
        params = dict(num_loc=n, min_loc=lo, max_loc=hi, num_depot=nd, depot_mode=mode, min_capacity=a, max_capacity=b,
                      min_lateness_weight=lw0, max_lateness_weight=lw1)
        with quiet():
            g = MDCPDPGenerator(**params)
        td = run(g)
        n2 = n + (n % 2)
        check_keys(ctx, which, td, {"locs": (n2, 2), "depot": (nd, 2), "capacity": (1,), "lateness_weight": (1,)}, B, params)
        check_bounds(ctx, which, "capacity", td["capacity"], a, b, params)
        check_bounds(ctx, which, "lateness_weight", td["lateness_weight"], lw0, lw1, params)
        check_bounds(ctx, which, "locs", td["locs"], lo, hi, params)
        check_bounds(ctx, which, "depot", td["depot"], lo, hi, params)
        if mode == "single" and not bool((td["depot"] == td["depot"][:, :1]).all()):
            V(ctx, "mdcpdp-single-depot-differs", "depot_mode='single' but the depots differ", {"params": params})
        if taped:
            e = tp.take("randint")
            if td["capacity"].flatten().tolist() != e["v"] or (e["lo"], e["hi"]) != (a, b + 1):
                ctx.disagreement("mdcpdp: capacity vs randint(min, max+1)", {"params": params, "tape": e})
            tape_coords(ctx, which, tp.take("rand", 0), td["locs"], lo, hi, params)
    elif which == "flp":
        from rl4co.envs.graph.flp.generator import FLPGenerator
        k = rng.choice([1, 2, 3])
        params = dict(num_loc=max(n, 3), min_loc=lo, max_loc=hi, to_choose=k)
        td = run(FLPGenerator(**params))
        m = max(n, 3)
        check_keys(ctx, which, td, {"locs": (m, 2), "orig_distances": (m, m), "distances": (m,), "chosen": (m,), "to_choose": ()}, B, params)
        check_bounds(ctx, which, "locs", td["locs"], lo, hi, params)
        check_bounds(ctx, which, "orig_distances", td["orig_distances"], 0.0, math.sqrt(2) * (hi - lo) * (1 + 1e-6), params)
        if bool((td["orig_distances"] > td["distances"][:, None, :] * (1 + 1e-6)).any()):
            V(ctx, "flp-initial-distance-too-small", "initial `distances` below an actual distance", {"params": params})
        if bool(td["chosen"].any()) or set(td["to_choose"].flatten().tolist()) != {k}:
            V(ctx, "flp-initial-state", "`chosen` not empty or `to_choose` wrong", {"params": params})
        if taped:
            tape_coords(ctx, which, tp.take("rand"), td["locs"], lo, hi, params)
    elif which == "smtwtp":
        from rl4co.envs.scheduling.smtwtp.generator import SMTWTPGenerator
        span = rng.choice([None, 4.0, 8.0])
        top_ = n / 2 if span is None else span            # the generator's default `max_time_span = num_job / 2`
        s0 = rng.choice([0, 0, 1.0])
        if s0 >= top_:                                     # only legal parameterisations: min_time_span < max_time_span
            s0 = 0
        w0, w1 = rng.choice([(0, 1), (0, 1), (0.5, 2.0), (1.0, 1.0)])
        p0, p1 = rng.choice([(0, 1), (0, 1), (0.25, 0.75), (2.0, 4.0)])
        params = dict(num_job=n, min_time_span=s0, max_time_span=span, min_job_weight=w0, max_job_weight=w1, min_process_time=p0, max_process_time=p1)
        td = run(SMTWTPGenerator(**params))
        check_keys(ctx, which, td, {"job_due_time": (n + 1,), "job_weight": (n + 1,), "job_process_time": (n + 1,)}, B, params)
        top = n / 2 if span is None else span
        rngs = {"job_due_time": (s0, top), "job_weight": (w0, w1), "job_process_time": (p0, p1)}
        for k_, (l_, h_) in rngs.items():
            check_bounds(ctx, which, k_, td[k_][:, 1:], min(l_, h_), max(l_, h_), params)
            if bool((td[k_][:, 0] != 0).any()):
                V(ctx, "smtwtp-dummy-job-nonzero", f"`{k_}` of the dummy job 0 is not 0", {"params": params})
        if taped:
            es = [e for e in tp.log if e["kind"] == "uniform_"]
            for e, key in zip(es, ("job_due_time", "job_weight", "job_process_time")):
                l_, h_ = rngs[key] if key != "job_due_time" else (s0, n / 2 if span is None else span)
                exp = [0.0 if (j % (n + 1)) == 0 else float(np.float32(l_) + np.float32(k / e["q"]) * np.float32(h_ - l_)) for j, k in enumerate(e["k"])]
                if td[key].flatten().tolist() != exp:
                    ctx.disagreement(f"smtwtp: {key} vs lo + u·(hi − lo)", {"params": params})
    elif which == "ffsp":
        from rl4co.envs.scheduling.ffsp.generator import FFSPGenerator
        a = rng.choice([1, 2])
        b = a + rng.choice([1, 3, 8])
        st, ma, jb = rng.choice([1, 2, 3]), rng.choice([1, 2, 4]), max(1, min(n, 8))
        params = dict(num_stage=st, num_machine=ma, num_job=jb, min_time=a, max_time=b)
        td = run(FFSPGenerator(**params))
        check_keys(ctx, which, td, {"run_time": (jb, ma * st)}, B, params)
        check_bounds(ctx, which, "run_time", td["run_time"], a, b, params)
        if taped:
            e = tp.take("randint")
            if td["run_time"].flatten().tolist() != e["v"] or (e["lo"], e["hi"]) != (a, b):
                ctx.disagreement("ffsp: run_time vs randint(min, max)", {"params": params, "lo": e["lo"], "hi": e["hi"]})
    elif which == "svrp":
        from rl4co.envs.routing.svrp.generator import SVRPGenerator
        a, b = rng.choice([(1.0, 10.0), (1.0, 1.0), (2.0, 4.0)])
        costs = rng.choice([[1, 2, 3], [1], [1, 2]])
        params = dict(num_loc=n, min_loc=lo, max_loc=hi, min_skill=a, max_skill=b, tech_costs=costs)
        td = run(SVRPGenerator(**params))
        check_keys(ctx, which, td, {"locs": (n, 2), "depot": (2,), "techs": (len(costs), 1), "skills": (n, 1)}, B, params)
        check_bounds(ctx, which, "techs", td["techs"], a, b, params)
        if bool((td["techs"][:, 1:] < td["techs"][:, :-1]).any()):
            V(ctx, "svrp-techs-unsorted", "technician levels are not ascending", {"params": params})
        if bool((td["skills"] > td["techs"].max(dim=1, keepdim=True).values).any()) or bool((td["skills"] < 0).any()):
            V(ctx, "svrp-skill-above-best-technician", "a customer requires more skill than any technician has", {"params": params})
        if taped:
            es = [e for e in tp.log if e["kind"] == "uniform_"]
            q = es[0]["q"]
            for bi in range(B):
                tk = sorted(es[0]["k"][bi * len(costs):(bi + 1) * len(costs)])
                # techs over q (in ticks): a + k/q (b − a)
                rep = ask(ctx, [f"gen.aff {rl.ticks(a)} {rl.ticks(b)} {k} {q}" for k in tk])
                real = td["techs"][bi].flatten().tolist()
                if [int(r["num"]) for r in rep] != [int(Fraction(v) * SC * q) for v in real]:
                    ctx.disagreement("svrp: techs vs sorted affine draws", {"params": params, "real": real})
                mx = max(real)
                sk = es[1]["k"][bi * n:(bi + 1) * n]
                exp = [float(np.float32(mx) * np.float32(k / q)) for k in sk]
                if td["skills"][bi].flatten().tolist() != exp:
                    ctx.disagreement("svrp: skills vs max(techs)·u", {"params": params})
    elif which == "pctsp":
        from rl4co.envs.routing.pctsp.generator import PCTSPGenerator
        pf = rng.choice([3.0, 1.0, 2.0])
        dd = rng.choice([None, None, "uniform"])
        params = dict(num_loc=n, min_loc=lo, max_loc=hi, penalty_factor=pf, depot_distribution=dd)
        with quiet():
            g = PCTSPGenerator(**params)
        td = run(g)
        check_keys(ctx, which, td, {"locs": (n, 2), "depot": (2,), "penalty": (n,), "deterministic_prize": (n,), "stochastic_prize": (n,)}, B, params)
        mp = parse_frac(ask(ctx, [f"gen.pctsp {n} {frac_pair(pf)[0]} {frac_pair(pf)[1]}"])[0]["maxpen"])
        if abs(float(mp) - g.max_penalty) > 1e-9 * max(1.0, float(mp)):
            ctx.disagreement("pctsp: max_penalty vs Gen.pctspMaxPenalty", {"params": params, "model": str(mp), "real": g.max_penalty})
        check_bounds(ctx, which, "penalty", td["penalty"], 0.0, float(mp) * (1 + 1e-6), params)
        check_bounds(ctx, which, "deterministic_prize", td["deterministic_prize"], 0.0, 4.0 / n * (1 + 1e-6), params)
        if bool((td["stochastic_prize"] > 2 * td["deterministic_prize"] * (1 + 1e-6)).any()) or bool((td["stochastic_prize"] < 0).any()):
            V(ctx, "pctsp-stochastic-prize-range", "stochastic prize outside [0, 2·deterministic prize]", {"params": params})
        check_bounds(ctx, which, "locs", td["locs"], lo, hi, params)
        check_bounds(ctx, which, "depot", td["depot"], lo, hi, params)
        if taped and dd is None:
            tape_coords(ctx, which, tp.take("rand", 0), torch.cat((td["depot"][:, None], td["locs"]), 1), lo, hi, params)
        elif taped:
            tape_coords(ctx, which, tp.take("rand", 0), td["depot"], lo, hi, params)
            tape_coords(ctx, which, tp.take("rand", 1), td["locs"], lo, hi, params)
    ctx.case((which, taped, n, lo, hi, seed if not taped else tuple(tp.log[0].get("k", tp.log[0].get("v"))[:6])))


def routing_op(ctx, taped: bool):
    from rl4co.envs.routing.op.generator import OPGenerator

    rng = ctx.rng
    n = rng.choice([2, 3, 5, 8, 20, 33, 50, 100])
    ptype = rng.choice(["dist", "dist", "const", "unif"])
    ml = rng.choice([None, None, 2.5])
    B = rng.choice([1, 2])
    params = dict(num_loc=n, prize_type=ptype, max_length=ml)
    ctx.count(f"op:{ptype}:{'tape' if taped else 'real'}")
    if taped and ptype in ("const", "unif"):
        with quiet():
            g = OPGenerator(**params)
        with Tape(rng) as tp:
            with quiet():
                td = g([B])
        if ptype == "const":
            draws = [0] * (B * n)
            if any(e["kind"] == "randint" for e in tp.log):
                ctx.disagreement("op: prize_type='const' draws integers", {"params": params, "seq": tp.seq()})
        else:
            es = [e for e in tp.log if e["kind"] == "randint"]
            if len(es) != 1 or (es[0]["lo"], es[0]["hi"]) != (0, 100) or len(es[0]["v"]) != B * n:
                ctx.disagreement("op: prize_type='unif' vs randint(0, 100)", {"params": params, "seq": tp.seq()})
                return
            draws = es[0]["v"]
        r = ask(ctx, [f"gen.opprize {0 if ptype == 'const' else 1} | " + " ".join(map(str, draws))])[0]
        exp = [float(np.float32(v) / np.float32(100)) for v in ints(r["prize"])]
        if td["prize"].flatten().tolist() != exp:
            ctx.disagreement(f"op: prize ({ptype}) vs Gen.opPrize100", {"params": params, "real": td["prize"].flatten().tolist()[:5], "model": exp[:5]})
        check_keys(ctx, "op", td, {"locs": (n, 2), "depot": (2,), "prize": (n,), "max_length": ()}, B, params)
        check_bounds(ctx, "op", "prize", td["prize"], 0.01 - 1e-7, 1.0, params)
        tape_coords(ctx, "op", tp.take("rand"), torch.cat((td["depot"][:, None], td["locs"]), 1), 0.0, 1.0, params)
        ctx.case(("op-tape", ptype, n, tuple(draws[:6]), tuple(tp.take("rand")["k"][:4])))
        return
    if taped and ptype == "dist":
        # integral point sets: exact distances; prize = (1 + int(d/dmax·99)) / 100
        pts = [geom.gen_points(rng, n + 1) for _ in range(B)]
        locs = torch.tensor([geom.to_unit(p) for p in pts], dtype=torch.float32)

        class S:
            def sample(self, shape):
                assert tuple(shape) == tuple(locs.shape), (shape, locs.shape)
                return locs.clone()
        with quiet():
            g = OPGenerator(loc_sampler=S(), **params)
        td = g([B])
        for bi in range(B):
            d = geom.dist_matrix(pts[bi])[0][1:]
            if max(d) == 0:
                continue
            r = ask(ctx, ["gen.opprize 2 | " + " ".join(map(str, d))])[0]
            model = ints(r["prize"])
            real = [round(v * 100) for v in td["prize"][bi].tolist()]
            dmax = max(d)
            for j in range(n):
                exact = Fraction(99 * d[j], dmax)
                near_int = min(exact - math.floor(exact), math.ceil(exact) - exact) < Fraction(1, 10000) and exact.denominator != 1
                if real[j] != model[j]:
                    if near_int or (exact.denominator == 1 and d[j] != dmax and abs(real[j] - model[j]) == 1):
                        ctx.count("op:tie-skipped")
                    else:
                        ctx.disagreement("op: prize vs Gen.opPrize100", {"params": params, "d": d[j], "dmax": dmax, "real": real[j], "model": model[j]})
        ctx.case(("op-tape", n, tuple(pts[0][:4])))
        return
    seed = rng.randrange(1 << 30)
    seed_all(seed)
    params = dict(params, seed=seed)
    try:
        with quiet():
            g = OPGenerator(**{k: v for k, v in params.items() if k != "seed"})
            td = g([B])
        err = None
    except Exception as e:  # noqa: BLE001
        err = f"{type(e).__name__}: {e}"
    if err is not None:   # the model (Gen.opPrize100) is total: every documented prize type yields prizes
        V(ctx, f"op-prize-type-{ptype}-raises",
                      f"OPGenerator(prize_type='{ptype}') raises {err}: a documented prize type cannot be generated",
                      {"params": params})
        ctx.case(("op-real-err", ptype, n))
        return
    check_keys(ctx, "op", td, {"locs": (n, 2), "depot": (2,), "prize": (n,), "max_length": ()}, B, params)
    check_bounds(ctx, "op", "prize", td["prize"], 0.01 - 1e-7, 1.0, params)
    check_bounds(ctx, "op", "locs", td["locs"], 0.0, 1.0, params)
    exp_ml = ml if ml is not None else float(parse_frac(ask(ctx, [f"gen.tbl 1 {n}"])[0]["val"]))
    if set(td["max_length"].flatten().tolist()) != {f32(exp_ml)}:
        ctx.disagreement("op: max_length vs Gen.opMaxLength", {"params": params, "real": td["max_length"].flatten().tolist()[:2], "model": exp_ml})
    # every customer can be reached and the depot regained within max_length?  (not claimed by the generator: reported as a count)
    d0 = (td["locs"] - td["depot"][:, None]).norm(dim=-1)
    ctx.count("op:customers-beyond-half-budget", int((2 * d0 > td["max_length"][:, None]).sum()))
    ctx.case(("op-real", ptype, n, seed))


def routing_tables(ctx):
    """capacity / max-length tables: Python's lookup incl. nearest-key fallback vs `Gen.tblLookup`"""
    from rl4co.envs.routing.cvrp.generator import CVRPGenerator
    from rl4co.envs.routing.op.generator import OPGenerator
    from rl4co.envs.routing.pctsp.generator import PCTSPGenerator

    sizes = list(range(1, 60)) + [61, 62, 67, 68, 74, 75, 76, 87, 88, 99, 100, 101, 112, 113, 137, 138, 150, 174, 175, 176, 199, 200, 201,
                                   349, 350, 351, 500, 749, 750, 751, 1000, 1001, 5000]
    reps = ask(ctx, [f"gen.tbl {w} {n}" for n in sizes for w in (0, 1, 2)])
    it = iter(reps)
    for n in sizes:
        with quiet():
            c = CVRPGenerator(num_loc=n).capacity
            o = OPGenerator(num_loc=n).max_length
            p = PCTSPGenerator(num_loc=n, penalty_factor=1.0).max_penalty * n
        for real, what in ((c, "cvrp CAPACITIES"), (o, "op MAX_LENGTHS"), (p, "pctsp MAX_LENGTHS")):
            m = parse_frac(next(it)["val"])
            if m is None or abs(float(m) - real) > 1e-9:
                ctx.disagreement(f"table lookup {what} vs Gen.tblLookup", {"num_loc": n, "real": real, "model": str(m)})
        ctx.case(("tbl", n))
    ctx.count("tables:sizes", len(sizes))


SPECIAL_DISTS = [("cluster", dict(n_cluster=3)), ("cluster", dict(n_cluster=1)), ("mixed", dict(n_cluster_mix=1)), ("mixed", dict(n_cluster_mix=2)),
                 ("mix_distribution", dict(n_cluster=3, n_cluster_mix=1)), ("gaussian_mixture", dict(num_modes=0, cdist=0)),
                 ("gaussian_mixture", dict(num_modes=1, cdist=1)), ("gaussian_mixture", dict(num_modes=3, cdist=10)),
                 ("gaussian_mixture", dict(num_modes=7, cdist=50)), ("mix_multi_distributions", {})]


def samplers_steered(ctx):
    """every special location sampler through every generator that takes `loc_distribution`, with the Gaussian draws
    steered into the tails (±6 … ±40 σ, `Tape.tail`): the documented unit square must hold for *every* draw, which
    i.i.d. sampling would need ~10⁴ instances to probe (a tail leaves [0,1] with probability ≈ 1.5e-4 per coordinate)"""
    from rl4co.envs.routing.tsp.generator import TSPGenerator
    from rl4co.envs.routing.cvrp.generator import CVRPGenerator
    from rl4co.envs.routing.op.generator import OPGenerator
    from rl4co.envs.routing.pctsp.generator import PCTSPGenerator
    from rl4co.envs.routing.pdp.generator import PDPGenerator
    from rl4co.envs.routing.mtsp.generator import MTSPGenerator
    from rl4co.envs.routing.svrp.generator import SVRPGenerator
    from rl4co.envs.routing.mdcpdp.generator import MDCPDPGenerator
    from rl4co.envs.graph.flp.generator import FLPGenerator

    rng = ctx.rng
    gens = [("tsp", TSPGenerator), ("cvrp", CVRPGenerator), ("op", OPGenerator), ("pctsp", PCTSPGenerator), ("pdp", PDPGenerator),
            ("mtsp", MTSPGenerator), ("svrp", SVRPGenerator), ("mdcpdp", MDCPDPGenerator), ("flp", FLPGenerator)]
    reps = ctx.budget(2, 12)
    for dname, kw in SPECIAL_DISTS:
        for gname, G_ in gens:
            for rep in range(reps):
                n = rng.choice([4, 6, 9, 20])
                B = rng.choice([1, 3, 6])
                params = dict(generator=gname, num_loc=n, loc_distribution=dname, B=B, **kw)
                tp = Tape(rng, bits=6)
                tp.tail = rng.choice([0.1, 0.3, 0.6])
                try:
                    with tp:
                        with quiet():
                            td = G_(num_loc=n, loc_distribution=dname, **kw)([B])
                except Exception as e:  # noqa: BLE001
                    V(ctx, f"sampler-{dname}-raises", f"{gname} generator with loc_distribution={dname!r} raises {type(e).__name__}: {str(e)[:120]}", {"params": params})
                    continue
                zs = [z for e in tp.log if e["kind"] == "normal" for z in e["z"]]
                locs = td["locs"] if "depot" not in td.keys() or td["depot"].dim() != 2 else torch.cat((td["depot"][:, None], td["locs"]), 1)
                ok = check_bounds(ctx, f"{gname}[{dname}]", "locs", locs, 0.0, 1.0, dict(params, extreme_normal_draws=sorted(set(zs))[:3] + sorted(set(zs))[-3:]))
                ctx.count(f"sampler-steered:{dname}:{'tail-draws' if any(abs(z) >= 6 for z in zs) else 'no-normal-draws' if not zs else 'body-only'}")
                if ok and rep == 0 and gname == "tsp":
                    ctx.sample({"case": "special sampler, Gaussian draws steered into the tails", "params": params,
                                "normal_draws(σ)": zs[:6], "locs_min_max": [float(locs.min()), float(locs.max())], "checked": "0 ≤ locs ≤ 1"}, cap=1)
                ctx.case(("steered", dname, gname, n, B, tuple(zs[:4])))


GEO_SIZES = [3, 12, 25, 26, 40, 100]
GEO_BOXES = [(0.0, 1.0), (10.0, 11.0), (100.0, 101.0), (-1.0, 3.0), (1000.0, 1001.0)]


def exact_dist64(locs):
    """pairwise Euclidean distances recomputed in float64 from the emitted float32 coordinates"""
    x = locs.double()
    return (x[..., :, None, :] - x[..., None, :, :]).pow(2).sum(-1).sqrt()


def routing_geometry(ctx):
    """generators that emit *derived geometric fields* (FLP `orig_distances`, OP distance prizes), at sizes beyond 25 points
    and in coordinate boxes away from the origin — where fast pairwise-distance kernels lose digits — checked against an
    exact recomputation: zero diagonal, symmetry, relative error of a few float32 ulps; on integral point sets bit-exact"""
    from rl4co.envs.graph.flp.generator import FLPGenerator
    from rl4co.envs.routing.op.generator import OPGenerator

    rng = ctx.rng
    combos = [(n, bx) for n in GEO_SIZES for bx in GEO_BOXES]
    rng.shuffle(combos)
    for n, (lo, hi) in combos[: ctx.budget(14, 30)]:
        B = rng.choice([1, 2])
        seed = rng.randrange(1 << 30)
        seed_all(seed)
        params = dict(num_loc=n, min_loc=lo, max_loc=hi, seed=seed)
        with quiet():
            td = FLPGenerator(num_loc=n, min_loc=lo, max_loc=hi, to_choose=min(3, n))([B])
        D = td["orig_distances"].double()
        E = exact_dist64(td["locs"])
        ctx.count(f"geometry:flp:n={'≤25' if n <= 25 else '>25'}:box={'unit' if lo == 0 else 'shifted'}")
        diag = torch.diagonal(D, dim1=-2, dim2=-1)
        if bool((diag != 0).any()):
            V(ctx, "flp-orig-distances-diagonal-nonzero", f"FLP generator: a location is at distance {float(diag.abs().max()):.3g} from itself "
              f"(n={n}, box [{lo},{hi}])", {"params": params})
        if bool((D != D.transpose(-1, -2)).any()):
            V(ctx, "flp-orig-distances-asymmetric", f"FLP generator: orig_distances is not symmetric (n={n}, box [{lo},{hi}])", {"params": params})
        err = (D - E).abs()
        tol = 4e-7 * E + 1e-12
        if bool((err > tol).any()):
            idx = (err - tol).flatten().argmax().item()
            V(ctx, "flp-orig-distances-inexact", f"FLP generator: orig_distances deviates from the Euclidean distance of the emitted coordinates by "
              f"{float(err.flatten()[idx]):.3g} (true {float(E.flatten()[idx]):.6g}; n={n}, box [{lo},{hi}])", {"params": params})
        ctx.case(("geo-flp", n, lo, hi, seed))
        # OP distance prizes recomputed from the emitted coordinates
        if lo in (0.0, 10.0, 100.0):
            with quiet():
                tdo = OPGenerator(num_loc=n, min_loc=lo, max_loc=hi, prize_type="dist")([B])
            d = (tdo["locs"].double() - tdo["depot"].double()[:, None]).pow(2).sum(-1).sqrt()
            frac = d / d.max(-1, keepdim=True).values * 99
            exp = (1 + frac.floor()) / 100
            near = (frac - frac.round()).abs() < 1e-3
            bad = ((tdo["prize"].double() - exp).abs() > 1e-6) & ~near
            if bool(bad.any()):
                V(ctx, "op-prize-not-distance-rank", f"OP generator (dist prizes): prize differs from (1+⌊99·d/dmax⌋)/100 of the emitted coordinates "
                  f"(n={n}, box [{lo},{hi}])", {"params": params})
            ctx.count("geometry:op-dist-prize", 1)
            ctx.case(("geo-op", n, lo, hi, seed))
    # integral point sets (all pairwise distances whole grid units), shifted by whole numbers: bit-exact
    for n in ([26, 40] if ctx.tier == "quick" else [5, 26, 40, 100]):
        for off in (0, 10, 100):
            pts = [geom.gen_points(rng, n, family="cross") for _ in range(2)]
            locs = torch.tensor([[[x / geom.GRID + off, y / geom.GRID + off] for (x, y) in p_] for p_ in pts], dtype=torch.float64).float()

            class S_:
                def sample(self, shape):
                    return locs.clone()
            with quiet():
                td = FLPGenerator(num_loc=n, min_loc=float(off), max_loc=float(off + 1), to_choose=2, loc_sampler=S_())([2])
            exp = torch.tensor([geom.dist_matrix(p_) for p_ in pts], dtype=torch.float64) / geom.GRID
            # (coordinates off + k/1024 are exact in float32 for off ≤ 100: differences and norms are exact)
            if not torch.equal(td["orig_distances"].double(), exp):
                V(ctx, "flp-orig-distances-inexact", f"FLP generator on an integral point set shifted by {off}: orig_distances is not the exact integer "
                  f"distance matrix (max error {float((td['orig_distances'].double() - exp).abs().max()):.3g}, n={n})", {"n": n, "offset": off, "points": pts[0][:4]})
            ctx.count("geometry:flp:integral-point-set")
            ctx.case(("geo-flp-int", n, off, tuple(pts[0][:3])))


def run_routing(ctx):
    routing_tables(ctx)
    guarded(ctx, "geometry", routing_geometry)
    N = ctx.budget(240, 12000)
    for it in range(N):
        taped = it % 2 == 0
        r = it % 6
        if r in (0, 1):
            guarded(ctx, "cvrp-generator", routing_cvrp, taped)
        elif r in (2, 3):
            guarded(ctx, "routing-generator", routing_simple, taped)
        else:
            guarded(ctx, "op-generator", routing_op, taped)
    samplers_steered(ctx)
    # special samplers: documented to live in the unit square
    from rl4co.envs.routing.tsp.generator import TSPGenerator
    from rl4co.envs.routing.cvrp.generator import CVRPGenerator
    dists = [("cluster", dict(n_cluster=3)), ("mixed", dict(n_cluster_mix=1)), ("mix_distribution", dict(n_cluster=3, n_cluster_mix=1)),
             ("gaussian_mixture", dict(num_modes=0, cdist=0)), ("gaussian_mixture", dict(num_modes=1, cdist=1)),
             ("gaussian_mixture", dict(num_modes=3, cdist=10)), ("mix_multi_distributions", {}), ("center", {}), ("corner", {}), (0.5, {})]
    for dname, kw in dists:
        for n in ([6, 20] if ctx.tier == "quick" else [4, 6, 20, 50]):
            seed = ctx.rng.randrange(1 << 30)
            seed_all(seed)
            params = dict(num_loc=n, loc_distribution=dname, seed=seed, **kw)
            try:
                with quiet():
                    td = TSPGenerator(num_loc=n, loc_distribution=dname, **kw)([3])
                    td2 = CVRPGenerator(num_loc=n, loc_distribution=dname, **kw)([3])
            except Exception as e:  # noqa: BLE001
                V(ctx, f"sampler-{dname}-raises", f"loc_distribution={dname!r} raises {type(e).__name__}: {e}", {"params": params})
                continue
            check_bounds(ctx, f"tsp[{dname}]", "locs", td["locs"], 0.0, 1.0, params)
            check_bounds(ctx, f"cvrp[{dname}]", "locs", td2["locs"], 0.0, 1.0, params)
            if dname in ("center", "corner"):
                # a box that does not start at 0: the constant must still lie inside it
                with quiet():
                    td3 = CVRPGenerator(num_loc=n, min_loc=2.0, max_loc=3.0, depot_distribution=dname)([2])
                check_bounds(ctx, f"cvrp[depot={dname}]", "depot", td3["depot"], 2.0, 3.0, dict(params, min_loc=2.0, max_loc=3.0, depot_distribution=dname))
                m = Fraction(td3["depot"][0, 0].item()) * 2
                if dname == "center" and m != 3 + 2:   # Gen.centerTwice lo hi = hi + lo
                    ctx.disagreement("center sampler vs Gen.centerTwice", {"real": float(m) / 2, "model": 2.5})
            ctx.count(f"sampler:{dname}")
            ctx.case(("sampler", str(dname), n, seed))




# =================================================================================================
# C18 gen_tw: CVRPTW windows (steps 1–8) and MTVRP (capacity, demands, windows, distance limit, presets)
# =================================================================================================

TRIPLES = [(3, 4), (4, 3), (5, 12), (12, 5), (8, 15), (15, 8), (7, 24), (24, 7), (20, 21), (21, 20), (0, 1), (1, 0), (0, 0), (9, 40), (40, 9)]


def cvrptw_points(rng, n, max_loc):
    """integer points in [0, max_loc]² whose distance to the first one (the depot) is an integer"""
    L = int(max_loc)
    while True:
        x0, y0 = rng.randrange(0, L + 1), rng.randrange(0, L + 1)
        pts = [(x0, y0)]
        for _ in range(n):
            for _try in range(200):
                a, b = rng.choice(TRIPLES)
                k = rng.choice([1, 1, 2, 3, 5, 7, 10])
                sx, sy = rng.choice([1, -1]), rng.choice([1, -1])
                x, y = x0 + sx * a * k, y0 + sy * b * k
                if 0 <= x <= L and 0 <= y <= L:
                    pts.append((x, y))
                    break
            else:
                pts.append((x0, y0))
        return pts


def tw_cvrptw(ctx, taped: bool):
    from rl4co.envs.routing.cvrptw.generator import CVRPTWGenerator

    rng = ctx.rng
    n = rng.choice([1, 2, 3, 5, 8, 13, 20, 33, 26, 40] + ([100] if rng.random() < 0.2 else []))   # > 25 points included
    scale = rng.random() < 0.4
    max_loc, max_time = rng.choice([(150.0, 480), (150.0, 480), (100.0, 300), (16.0, 64), (1.0, 480), (150.0, 426)])
    B = rng.choice([1, 2, 3])
    params = dict(num_loc=n, max_loc=max_loc, max_time=max_time, scale=scale)
    min_loc = 0.0
    if not taped and rng.random() < 0.5:   # further options the taped stream leaves at their defaults
        min_loc = rng.choice([0.0, max_loc / 4, max_loc / 2])
        mnd, mxd = rng.choice([(1, 10), (2, 4), (5, 5)])
        params.update(min_loc=min_loc, min_demand=mnd, max_demand=mxd, capacity=rng.choice([None, float(mxd), 64.0]),
                      depot_distribution=rng.choice([None, "uniform"]))
    ctx.count(f"cvrptw:{'scaled' if scale else 'unscaled'}:{'tape' if taped else 'real'}")
    S = 1 << 40  # ticks per time unit for the model (every float32 distance ≥ 2^-16 is a whole number of ticks)
    if taped:
        integral = rng.random() < 0.6 and max_loc >= 16
        if integral:
            pts = [cvrptw_points(rng, n, max_loc) for _ in range(B)]
            locs = torch.tensor(pts, dtype=torch.float32)
        else:
            grid = 64
            locs = torch.tensor([[[rng.randrange(0, grid + 1) * max_loc / grid for _ in range(2)] for _ in range(n + 1)] for _ in range(B)],
                                dtype=torch.float32)

        class Smp:
            def sample(self, shape):
                assert tuple(shape) == tuple(locs.shape), (shape, locs.shape)
                return locs.clone()
        with quiet():
            g = CVRPTWGenerator(loc_sampler=Smp(), **params)
        with Tape(rng, bits=rng.choice([3, 6, 10])) as tp:
            td = g([B])
        es = [e for e in tp.log if e["kind"] == "rand"]
        if len(es) != 3:
            ctx.disagreement("cvrptw: sequence of random calls", {"params": params, "seq": tp.seq()})
            return
        q = es[1]["q"]
        dist = (locs[:, 1:] - locs[:, :1]).norm(p=2, dim=-1)  # glue: the same float32 distance the generator computes
        for bi in range(B):
            secs = []
            for j in range(n):
                d = Fraction(dist[bi, j].item())
                k1, k2 = es[1]["k"][bi * (n + 1) + j + 1], es[2]["k"][bi * (n + 1) + j + 1]
                secs.append(f"{int(d * S)} {k1} {k2}")
            r = ask(ctx, [f"gen.cvrptw {S} {max_time * S} 0 {q} | " + " | ".join(secs)])[0]
            lo_m, hi_m = ints(r["lo"]), ints(r["hi"])
            tw = td["time_windows"][bi]
            for j in range(n):
                d = Fraction(dist[bi, j].item())
                up = max_time - d
                k1, k2 = es[1]["k"][bi * (n + 1) + j + 1], es[2]["k"][bi * (n + 1) + j + 1]
                vals = [d + (up - d) * Fraction(k, q) for k in (k1, k2)] + [d, up]
                margin = min(min(v - math.floor(v), math.ceil(v) - v) for v in vals)  # 0 when an exact value is a whole number
                if scale:
                    exp = (float(np.float32(lo_m[j]) / np.float32(max_time)), float(np.float32(hi_m[j]) / np.float32(max_time)))
                else:
                    exp = (float(lo_m[j]), float(hi_m[j]))
                real = (tw[j + 1, 0].item(), tw[j + 1, 1].item())
                if real != exp:
                    if margin < Fraction(1, 1000) and not integral:
                        ctx.count("cvrptw:tie-skipped")
                    else:
                        ctx.disagreement("cvrptw: window vs Gen.Cvrptw.window",
                                         {"params": params, "d": float(d), "k1": k1, "k2": k2, "q": q, "real": real, "model": exp})
                if r["ok"][j] != "1":
                    V(ctx, "cvrptw-window-not-wf", "model window violates ordered/reachable/return (parameters satisfy 2·dist+1 ≤ max_time)",
                                  {"params": params, "d": float(d), "k1": k1, "k2": k2, "q": q, "window": (lo_m[j], hi_m[j])})
            dep = tuple(tw[0].tolist())
            dm = tuple(int(x) for x in r["depot"].split(","))
            expd = (0.0, float(np.float32(dm[1]) / np.float32(max_time))) if scale else (0.0, float(dm[1]))
            if dep != expd:
                ctx.disagreement("cvrptw: depot window", {"params": params, "real": dep, "model": expd})
        ctx.sample({"case": "CVRPTWGenerator windows on taped draws vs Gen.Cvrptw.window", "params": params, "dist": [round(float(x), 3) for x in dist[0][:3]],
                    "draws k1,k2 / q": [es[1]["k"][1:4], es[2]["k"][1:4], q], "model_windows": list(zip(lo_m[:3], hi_m[:3])),
                    "real_windows": td["time_windows"][-1][1:4].tolist(), "WindowOk": r["ok"][:3]}, cap=1)
        ctx.case(("cvrptw-tape", n, scale, max_loc, max_time, tuple(es[1]["k"][:6])))
    else:
        seed = rng.randrange(1 << 30)
        seed_all(seed)
        params = dict(params, seed=seed)
        with quiet():
            g = CVRPTWGenerator(**{k: v for k, v in params.items() if k != "seed"})
            td = g([B])
        check_keys(ctx, "cvrptw", td, {"locs": (n, 2), "depot": (2,), "demand": (n,), "capacity": (1,), "durations": (n + 1,),
                                       "time_windows": (n + 1, 2)}, B, params)
        f = max_time if scale else 1.0
        locs = torch.cat((td["depot"][:, None], td["locs"]), 1).double() * f
        check_bounds(ctx, "cvrptw", "locs", locs, min_loc * (1 - 1e-6), max_loc * (1 + 1e-6), params)
        tw = td["time_windows"].double() * f
        dur = td["durations"].double() * f
        d = (locs - locs[:, :1]).norm(dim=-1)
        tol = 1e-3
        lo_, hi_ = tw[..., 0], tw[..., 1]
        bad_order = ~(lo_ < hi_)
        bad_reach = d > hi_ + tol
        bad_ret = hi_ + dur + d > max_time + tol
        bad_int = ((tw - tw.round()).abs() > 1e-3).any(-1)
        for nm, bad in (("not-ordered", bad_order), ("unreachable", bad_reach), ("no-time-to-return", bad_ret), ("not-integer", bad_int)):
            if bool(bad.any()):
                idx = bad.nonzero()[0].tolist()
                V(ctx, f"cvrptw-window-{nm}", f"CVRPTW generator: time window {tw[tuple(idx)].tolist()} of node {idx[1]} "
                              f"(distance {d[tuple(idx)].item():.4f}, max_time {max_time}) is {nm}", {"params": params, "index": idx})
        if bool((tw[:, 0, 0] != 0).any()) or bool(((tw[:, 0, 1] - max_time).abs() > 1e-3).any()):
            V(ctx, "cvrptw-depot-window", "depot window is not [0, max_time]", {"params": params})
        check_bounds(ctx, "cvrptw", "demand", td["demand"], 0.0, 1.0, params)
        ctx.case(("cvrptw-real", n, scale, max_loc, max_time, seed))


MTVRP_PRESETS = ["all", "single_feat", "single_feat_otw", "cvrp", "ovrp", "vrpb", "vrpl", "vrptw", "ovrptw", "ovrpb", "ovrpl", "vrpbl",
                 "vrpbtw", "vrpltw", "ovrpbl", "ovrpbtw", "ovrpltw", "vrpbltw", "ovrpbltw"]


def preset_allows(preset: str, keep: str) -> bool:
    """is the feature bit-string O,TW,L,B admissible for the requested preset?"""
    o, tw, l, b = (c == "1" for c in keep)
    cnt = sum((o, tw, l, b))
    if preset == "all":
        return True
    if preset == "cvrp":
        return cnt == 0
    if preset == "single_feat":
        return cnt <= 1
    if preset == "single_feat_otw":
        return cnt <= 1 or (o and tw and not l and not b)
    name = ("o" if o else "") + "vrp" + ("b" if b else "") + ("l" if l else "") + ("tw" if tw else "")
    return name == preset


def mtvrp_config(rng):
    """a legal non-default MTVRP generator configuration inside the parameter conditions of the window / limit theorems
    (2·√2·(max_loc−min_loc)/speed ≤ max_time − 0.38, 2·√2·(max_loc−min_loc) < distance_limit); half of the time the defaults"""
    if rng.random() < 0.4:
        return {}
    while True:
        lo, hi = rng.choice([(0.0, 1.0), (0.0, 0.5), (0.25, 0.75), (0.0, 2.0)])
        speed = rng.choice([1.0, 2.0, 0.5, 4.0])
        T = rng.choice([4.6, 6.0, 8.0, 16.0])
        L = rng.choice([3.0, 4.0, 10.0])
        dmax = math.sqrt(2) * (hi - lo)
        if 2 * dmax / speed <= T - 0.38 - 1e-6 and 2 * dmax < L - 1e-6:
            break
    minD, maxD = rng.choice([(1, 10), (1, 5), (3, 3), (2, 9)])
    minB, maxB = rng.choice([(1, 10), (2, 4), (7, 7)])
    cfg = dict(min_loc=lo, max_loc=hi, speed=speed, max_time=T, distance_limit=L, min_demand=minD, max_demand=maxD,
               min_backhaul=minB, max_backhaul=maxB, backhaul_ratio=rng.choice([0.2, 0.5, 0.75]),
               capacity=rng.choice([None, 50.0, 16.0]), scale_demand=rng.random() < 0.7)
    return cfg


def tw_mtvrp(ctx, taped: bool):
    from rl4co.envs.routing.mtvrp.generator import MTVRPGenerator, get_vehicle_capacity

    rng = ctx.rng
    n = rng.choice([1, 2, 3, 5, 8, 13, 20, 21, 26, 50] + ([100] if rng.random() < 0.2 else []))
    preset = rng.choice(MTVRP_PRESETS + [None])
    B = rng.choice([1, 2, 4])
    use_comb = True if preset != "all" else rng.random() < 0.7
    cfg = mtvrp_config(rng)
    params = dict(num_loc=n, variant_preset=preset, use_combinations=use_comb, **cfg)
    if preset is None:
        params["subsample"] = False   # every feature present (OVRPBLTW), no subsampling
    ctx.count(f"mtvrp:{preset}:{'tape' if taped else 'real'}:{'default' if not cfg else 'non-default'}")
    with quiet():
        g = MTVRPGenerator(**params)
    lo, hi = cfg.get("min_loc", 0.0), cfg.get("max_loc", 1.0)
    speed, Tmax, limit = cfg.get("speed", 1.0), cfg.get("max_time", 4.6), cfg.get("distance_limit", 3.0)
    minD, maxD, minB, maxB = cfg.get("min_demand", 1), cfg.get("max_demand", 10), cfg.get("min_backhaul", 1), cfg.get("max_backhaul", 10)
    ratio = Fraction(str(cfg.get("backhaul_ratio", 0.2)))
    scale = cfg.get("scale_demand", True)
    cap = cfg.get("capacity") or get_vehicle_capacity(n)
    capm = int(ask(ctx, [f"gen.mtvrpcap {n}"])[0]["cap"])
    if capm != get_vehicle_capacity(n):
        ctx.disagreement("mtvrp: vehicle capacity vs Gen.Mtvrp.vehicleCapacity", {"n": n, "real": get_vehicle_capacity(n), "model": capm})
    T, v = Fraction(str(Tmax)), Fraction(str(speed))
    if taped:
        with Tape(rng, bits=rng.choice([4, 6, 8])) as tp:
            with quiet():
                td = g([B])
        kinds = tp.seq()
        base = ["uniform_"] * 3 + ["rand"] * 4
        if kinds[:7] != base:
            ctx.disagreement("mtvrp: sequence of random calls", {"params": params, "seq": kinds})
            return
        e_loc, e_l, e_b, e_is, e_s, e_len, e_t = tp.log[:7]
        sub = tp.log[7] if len(tp.log) > 7 else None
        q = e_loc["q"]
        exp_locs = [float(np.float32(lo) + np.float32(k / q) * np.float32(hi - lo)) for k in e_loc["k"]]
        if td["locs"].flatten().tolist() != exp_locs:
            ctx.disagreement("mtvrp: locs vs min + u·(max−min)", {"params": params})
        # keep mask per row from the model
        lines = []
        for bi in range(B):
            if preset is None:
                lines.append("gen.keep ovrpbltw named")
            elif preset == "all" and use_comb:
                ps = sub["k"][bi * 4:(bi + 1) * 4]
                lines.append(f"gen.keep {preset} comb {sub['q']} " + " ".join(map(str, ps)))
            elif preset in ("all", "cvrp", "single_feat", "single_feat_otw"):
                lines.append(f"gen.keep {preset} cat {sub['v'][bi]}")
            else:
                lines.append(f"gen.keep {preset} named")
        reps = ask(ctx, lines)
        keeps = [r["keep"] for r in reps]
        for bi, r in enumerate(reps):
            if "support" in r and sub is not None and sub["kind"] == "multinomial":
                supp_model = ints(r["support"])
                supp_real = [k for k, w in enumerate(sub["probs"][bi]) if w > 0]
                if supp_model != supp_real:
                    ctx.disagreement("mtvrp: Categorical support vs Gen.Mtvrp.catSupport", {"params": params, "real": supp_real, "model": supp_model})
            if preset not in ("all", "single_feat", "single_feat_otw", None) and r["name"] != preset:
                V(ctx, "mtvrp-preset-name-mismatch", f"preset {preset!r} enables the features of {r['name']!r}", {"params": params})
        # demands
        for bi in range(B):
            sl = slice(bi * n, (bi + 1) * n)
            trip = " | ".join(f"{pl} {pb} {pr}" for pl, pb, pr in zip(e_l["k"][sl], e_b["k"][sl], e_is["k"][sl]))
            remove_b = 0 if keeps[bi][3] == "1" else 1
            r = ask(ctx, [f"gen.mtvrpdem {minD} {maxD} {minB} {maxB} {ratio.numerator} {ratio.denominator} {q} {remove_b} | {trip}"])[0]
            for key, fld in (("demand_linehaul", "line"), ("demand_backhaul", "back")):
                if scale:
                    exp = [0.0] + [float(np.float32(x) / np.float32(cap)) for x in ints(r[fld])]
                else:
                    exp = [0.0] + [float(x) for x in ints(r[fld])]
                if td[key][bi].tolist() != exp:
                    ctx.disagreement(f"mtvrp: {key} vs Gen.Mtvrp.demands/defaultBackhaul",
                                     {"params": params, "row": bi, "real": td[key][bi].tolist(), "model": exp, "keep": keeps[bi]})
            exp_vc = 1.0 if scale else float(cap)
            if td["vehicle_capacity"][bi].item() != exp_vc or td["capacity_original"][bi].item() != float(cap):
                ctx.disagreement("mtvrp: vehicle_capacity / capacity_original", {"params": params, "real": [td["vehicle_capacity"][bi].item(), td["capacity_original"][bi].item()]})
        if set(td["speed"].flatten().tolist()) != {f32(speed)}:
            ctx.disagreement("mtvrp: speed", {"params": params})
        # windows (float32 arithmetic with non-dyadic constants: relative tolerance), features
        d0 = (td["locs"][:, 1:] - td["locs"][:, :1]).norm(p=2, dim=-1)
        for bi in range(B):
            k = keeps[bi]
            if bool(td["open_route"][bi].item()) != (k[0] == "1"):
                ctx.disagreement("mtvrp: open_route vs keep mask", {"params": params, "row": bi, "keep": k})
            lim = td["distance_limit"][bi].item()
            if (lim != float("inf")) != (k[2] == "1") or (k[2] == "1" and lim != f32(limit)):
                ctx.disagreement("mtvrp: distance_limit vs keep mask", {"params": params, "row": bi, "keep": k, "real": lim})
            tw = td["time_windows"][bi]
            if k[1] == "0":
                if not (bool((tw[:, 0] == 0).all()) and bool((tw[:, 1] == float("inf")).all()) and bool((td["service_time"][bi] == 0).all())):
                    ctx.disagreement("mtvrp: removed time windows are not (0, inf)/service 0", {"params": params, "row": bi})
                continue
            secs = []
            js = [j for j in range(n) if d0[bi, j].item() > 0]
            for j in js:
                d = Fraction(d0[bi, j].item())
                secs.append(f"{d.numerator} {d.denominator} {e_s['k'][bi * n + j]} {q} {e_len['k'][bi * n + j]} {q} {e_t['k'][bi * n + j]} {q}")
            if not secs:
                continue
            r, rg = ask(ctx, [f"gen.mtvrptw 3 20 9 50 1 5 {T.numerator} {T.denominator} {v.numerator} {v.denominator} | " + " | ".join(secs),
                              f"gen.mtvrptwgen {T.numerator} {T.denominator} {v.numerator} {v.denominator} | " + " | ".join(secs)])
            if r["tw"] != rg["tw"]:   # the definition translated from the source statements (Generated/GenMtvrpTw.lean) vs the hand-written model
                ctx.disagreement("mtvrp: Generated.twGen ≠ Gen.Mtvrp model", {"params": params, "model": r["tw"][:120], "generated": rg["tw"][:120]})
            r = rg   # the real code is compared with the generated definition
            for j, item in zip(js, r["tw"].split(",")):
                st, en, sv = (Fraction(int(x.split("/")[0]), int(x.split("/")[1])) for x in item.split(":"))
                real = (tw[j + 1, 0].item(), tw[j + 1, 1].item(), td["service_time"][bi, j + 1].item())
                for nm, m_, r_ in zip(("start", "end", "service"), (st, en, sv), real):
                    if abs(float(m_) - r_) > 3e-5 * max(1.0, abs(float(m_))):
                        ctx.disagreement(f"mtvrp: tw {nm} vs Gen.Mtvrp model", {"params": params, "row": bi, "j": j, "real": r_, "model": float(m_)})
                # the property on the real outcome (witness): reachable and leaving time to return, in travel-time units d/v
                dv = float(Fraction(d0[bi, j].item()) / v)
                if not (real[0] < real[1]) or dv > real[1] + 1e-4 or real[1] + real[2] + dv > Tmax + 1e-4:
                    V(ctx, "mtvrp-window-not-wf", f"window [{real[0]:.5f},{real[1]:.5f}] service {real[2]:.5f}, travel time {dv:.5f}, max_time {Tmax}: "
                      "not ordered / unreachable / no time to return", {"params": params, "row": bi, "j": j})
            if tuple(tw[0].tolist()) != (0.0, f32(Tmax)):
                ctx.disagreement("mtvrp: depot window", {"params": params, "real": tw[0].tolist()})
        ctx.sample({"case": "MTVRPGenerator on taped draws vs Gen.Mtvrp (demands, keep mask, windows)", "params": params, "keep O,TW,L,B": keeps,
                    "tw_row0": td["time_windows"][0][:3].tolist(), "speed": speed, "max_time": Tmax}, cap=2)
        ctx.case(("mtvrp-tape", n, preset, use_comb, tuple(sorted((k_, str(v_)) for k_, v_ in cfg.items())), tuple(e_l["k"][:6])))
    else:
        seed = rng.randrange(1 << 30)
        seed_all(seed)
        params = dict(params, seed=seed)
        with quiet():
            td = g([B])
        keys = {"locs": (n + 1, 2), "demand_backhaul": (n + 1,), "demand_linehaul": (n + 1,), "distance_limit": (1,),
                "time_windows": (n + 1, 2), "service_time": (n + 1,), "vehicle_capacity": (1,), "capacity_original": (1,),
                "open_route": (1,), "speed": (1,)}
        check_keys(ctx, "mtvrp", td, keys, B, params)
        check_bounds(ctx, "mtvrp", "locs", td["locs"], lo, hi, params)
        vc = td["vehicle_capacity"][:, :1].double()
        for key in ("demand_linehaul", "demand_backhaul"):
            raw = td[key].double() * (cap if scale else 1.0)
            if not torch.allclose(raw, raw.round(), atol=1e-4):
                V(ctx, "mtvrp-demand-not-integer", f"{key}·capacity is not an integer", {"params": params})
            if bool((td[key].double() > vc + 1e-9).any()) or bool((td[key] < 0).any()):
                V(ctx, "mtvrp-demand-above-vehicle-capacity", f"{key} outside [0, vehicle_capacity]", {"params": params})
        lraw = (td["demand_linehaul"].double() * (cap if scale else 1.0)).round()
        braw = (td["demand_backhaul"].double() * (cap if scale else 1.0)).round()
        both = (lraw[:, 1:] > 0) & (braw[:, 1:] > 0)
        none_ = (lraw[:, 1:] == 0) & (braw[:, 1:] == 0)
        if bool(both.any()) or bool(none_.any()):
            V(ctx, "mtvrp-customer-demand-kind", "a customer has both or neither of linehaul / backhaul demand", {"params": params})
        # ranges: a linehaul value is a linehaul draw in [minD, maxD] or (backhaul removed) a backhaul draw in [minB, maxB]
        okL = ((lraw >= minD) & (lraw <= maxD)) | ((lraw >= minB) & (lraw <= maxB)) | (lraw == 0)
        okB = ((braw >= minB) & (braw <= maxB)) | (braw == 0)
        if not bool(okL.all()) or not bool(okB.all()):
            V(ctx, "mtvrp-demand-out-of-range", "integer demand outside the configured ranges", {"params": params})
        d0 = (td["locs"] - td["locs"][:, :1]).norm(dim=-1).double()
        for bi in range(B):
            o = bool(td["open_route"][bi].item())
            tw = td["time_windows"][bi].double()
            twf = bool(torch.isfinite(tw[1:, 1]).all()) if n > 0 else False
            lf = math.isfinite(td["distance_limit"][bi].item())
            bk = bool((td["demand_backhaul"][bi] > 0).any())
            keep_min = f"{int(o)}{int(twf)}{int(lf)}{int(bk)}"
            keep_max = f"{int(o)}{int(twf)}{int(lf)}1"
            if preset is None:
                if keep_max != "1111":
                    V(ctx, "mtvrp-features-inconsistent-with-preset", f"subsample=False: instance has features O,TW,L,B = {keep_min}", {"params": params, "row": bi})
            elif not (preset_allows(preset, keep_min) or preset_allows(preset, keep_max)):
                V(ctx, "mtvrp-features-inconsistent-with-preset",
                              f"preset {preset!r}: instance has features O,TW,L,B = {keep_min}", {"params": params, "row": bi})
            ctx.count(f"mtvrp:features:{keep_min}")
            if twf:
                sv = td["service_time"][bi].double()
                st, en = tw[:, 0], tw[:, 1]
                tol = 1e-5 * max(1.0, Tmax)
                dv = d0[bi] / speed
                bad = (~(st < en)) | (dv > en + tol) | (en + sv + dv > Tmax + tol)
                bad[0] = False
                if bool(bad.any()):
                    j = int(bad.nonzero()[0])
                    V(ctx, "mtvrp-window-not-wf", f"window [{st[j].item():.5f},{en[j].item():.5f}] service {sv[j].item():.5f} "
                                  f"travel time {dv[j].item():.5f} (speed {speed}), max_time {Tmax}: not ordered / unreachable / no time to return",
                      {"params": params, "row": bi, "j": j})
                if abs(tw[0, 1].item() - Tmax) > 1e-5 or tw[0, 0].item() != 0:
                    V(ctx, "mtvrp-depot-window", "depot window is not [0, max_time]", {"params": params})
            if lf and (abs(td["distance_limit"][bi].item() - limit) > 1e-6 or bool((2 * d0[bi] >= td["distance_limit"][bi].item()).any())):
                V(ctx, "mtvrp-distance-limit-too-low", "distance limit differs from the configured one or a customer cannot be served within it", {"params": params})
        ctx.case(("mtvrp-real", n, preset, seed))


def tw_probes(ctx):
    """the hypotheses of the window theorems are needed on the real code too (counted, never reported as violations):
    (1) CVRPTW with max_loc too large for max_time; (2) an MTVRP customer located exactly at the depot"""
    from rl4co.envs.routing.cvrptw.generator import CVRPTWGenerator
    from rl4co.envs.routing.mtvrp.generator import MTVRPGenerator

    for seed in range(6):
        seed_all(1000 + seed)
        try:
            with quiet():
                td = CVRPTWGenerator(num_loc=20, max_loc=300.0, max_time=480)([4])
            locs = torch.cat((td["depot"][:, None], td["locs"]), 1)
            d = (locs - locs[:, :1]).norm(dim=-1)
            tw = td["time_windows"]
            bad = (d > tw[..., 1]) | (tw[..., 1] + d > 480)
            bad[:, 0] = False
            ctx.count("cvrptw:outside-room-condition:" + ("bad-window" if bool(bad.any()) else "ok"))
        except AssertionError:
            ctx.count("cvrptw:outside-room-condition:generator-asserts")
    tp = Tape(ctx.rng, bits=1, boundary=0.0)
    with tp:
        with quiet():
            td = MTVRPGenerator(num_loc=6, variant_preset="vrptw")([4])
    d0 = (td["locs"][:, 1:] - td["locs"][:, :1]).norm(dim=-1)
    at_depot = d0 == 0
    if bool(at_depot.any()):
        nan = torch.isnan(td["time_windows"][:, 1:][at_depot]).any()
        ctx.count("mtvrp:customer-at-depot:" + ("nan-window" if bool(nan) else "finite-window"), int(at_depot.sum()))


def run_tw(ctx):
    from rl4co.envs.routing.mtvrp.generator import get_vehicle_capacity

    tw_probes(ctx)

    ns = list(range(1, 60)) + [100, 999, 1000, 1001, 1033, 1034, 1333, 1666, 1999, 2000, 2331, 2332, 2333, 5000, 9990, 9991, 10000, 33300]
    reps = ask(ctx, [f"gen.mtvrpcap {n}" for n in ns])
    for n, r in zip(ns, reps):
        if int(r["cap"]) != get_vehicle_capacity(n):
            ctx.disagreement("mtvrp: get_vehicle_capacity vs Gen.Mtvrp.vehicleCapacity", {"n": n, "real": get_vehicle_capacity(n), "model": r["cap"]})
        ctx.case(("mtvrpcap", n), nontrivial=False)
    N = ctx.budget(300, 16000)
    for it in range(N):
        taped = it % 2 == 0
        if it % 4 < 2:
            guarded(ctx, "cvrptw-generator", tw_cvrptw, taped)
        else:
            guarded(ctx, "mtvrp-generator", tw_mtvrp, taped)
# =================================================================================================
# C18 gen_atsp: min-plus closure loop
# =================================================================================================

def tri_slack(D: torch.Tensor) -> float:
    """max over a,b,c of D[a,c] − D[a,b] − D[b,c] (≤ 0 iff the triangle inequality holds), batched"""
    via = D.unsqueeze(-1) + D.unsqueeze(-3)          # [.., a, b, c] = D[a,b] + D[b,c]
    best = via.min(dim=-2).values                     # min over b
    return float((D - best).max())


def run_atsp(ctx):
    from rl4co.envs.routing.atsp.generator import ATSPGenerator
    from rl4co.data.generate_data import generate_atsp_data

    rng = ctx.rng
    N = ctx.budget(160, 8000)
    for it in range(N):
        taped = it % 2 == 0
        tmat = rng.random() < 0.8
        mn, mx = rng.choice([(0.0, 1.0), (0.0, 1.0), (0.0, 4.0), (1.0, 3.0), (0.5, 0.5)])
        B = rng.choice([1, 2])
        if taped:
            n = rng.choice([1, 2, 3, 4, 5, 6, 7, 8, 12, 20])
            params = dict(num_loc=n, min_dist=mn, max_dist=mx, tmat_class=tmat)
            ctx.count(f"atsp:tape:n={n}:{'tmat' if tmat else 'raw'}")
            with quiet():
                g = ATSPGenerator(**params)
            with Tape(rng, bits=rng.choice([2, 4, 6])) as tp:
                with quiet():
                    td = g([B])
            e = tp.take("rand")
            q = e["q"]
            for bi in range(B):
                ks = e["k"][bi * n * n:(bi + 1) * n * n]
                ent = [rl.ticks(mn) + (k * (rl.ticks(mx) - rl.ticks(mn))) // q for k in ks]
                slow = 1 if n <= 7 else 0
                lines = [f"gen.atsp {n} {int(tmat)} {slow} | " + " ".join(map(str, ent))]
                if slow:
                    lines.append(f"gen.atsp {n} {int(tmat)} 0 | " + " ".join(map(str, ent)))
                rs = ask(ctx, lines)
                if slow and rs[0]["out"] != rs[1]["out"]:
                    ctx.disagreement("atsp: Gen.Atsp.genList ≠ genListFast", {"n": n, "entries": ent})
                model = ints(rs[0]["out"])
                real = [rl.ticks(v) for v in td["cost_matrix"][bi].flatten().tolist()]
                if model != real:
                    ctx.disagreement("atsp: cost matrix vs Gen.Atsp.gen", {"params": params, "entries": ent, "real": real, "model": model})
                if tmat and rs[0]["tri"] != "1":
                    V(ctx, "atsp-triangle-violated", "the closure loop's output violates the triangle inequality (exact arithmetic)",
                                  {"params": params, "entries": ent})
                if not tmat:
                    ctx.count("atsp:raw-triangle-holds" if rs[0]["tri"] == "1" else "atsp:raw-triangle-fails")
            ctx.sample({"case": "ATSPGenerator on taped draws vs Gen.Atsp.gen", "params": params, "raw_entries(ticks)": ent[:6], "model_out(ticks)": model[:6],
                        "real_out(ticks)": real[:6], "triangle_ok": rs[0]["tri"]}, cap=2)
            ctx.case(("atsp-tape", n, tmat, mn, mx, tuple(e["k"][:8])))
        else:
            n = rng.choice([2, 3, 5, 10, 20, 50])
            seed = rng.randrange(1 << 30)
            seed_all(seed)
            params = dict(num_loc=n, min_dist=mn, max_dist=mx, tmat_class=tmat, seed=seed)
            ctx.count(f"atsp:real:{'tmat' if tmat else 'raw'}")
            with quiet():
                td = ATSPGenerator(num_loc=n, min_dist=mn, max_dist=mx, tmat_class=tmat)([B])
            D = td["cost_matrix"]
            check_keys(ctx, "atsp", td, {"cost_matrix": (n, n)}, B, params)
            check_bounds(ctx, "atsp", "cost_matrix", D, 0.0, mx, params)
            if bool((torch.diagonal(D, dim1=-2, dim2=-1) != 0).any()):
                V(ctx, "atsp-diagonal-nonzero", "cost matrix diagonal is not zero", {"params": params})
            if tmat:
                sl = tri_slack(D.double())
                if sl > 1e-6 * max(1.0, mx):   # a few float32 ulps of the largest entry
                    V(ctx, "atsp-triangle-violated", f"triangle inequality violated by {sl}", {"params": params})
                elif sl > 0:
                    ctx.count("atsp:float32-triangle-slack-below-1e-6")
            ctx.case(("atsp-real", n, tmat, seed))
    # numpy twin used for the dataset files
    for n in (3, 10, 20):
        np.random.seed(rng.randrange(1 << 30))
        D = torch.tensor(generate_atsp_data(4, n)["cost_matrix"]).double()
        if tri_slack(D) > 1e-6:
            V(ctx, "atsp-data-triangle-violated", "generate_atsp_data violates the triangle inequality", {"n": n})
        ctx.case(("atsp-data", n), nontrivial=False)
    ddir = os.path.join(rl.REPO if hasattr(rl, "REPO") else "/repo", "data", "atsp")
    if os.path.isdir(ddir):
        for fn in sorted(os.listdir(ddir)):
            D = torch.tensor(G.npz_head(os.path.join(ddir, fn), "cost_matrix", 8)).double()
            sl = tri_slack(D)
            if sl > 1e-6:
                V(ctx, "atsp-dataset-file-triangle-violated", f"{fn}: triangle inequality violated by {sl}", {"file": fn})
            ctx.count("atsp:dataset-files")
            ctx.case(("atsp-file", fn), nontrivial=False)


# =================================================================================================
# C18 gen_sched: FJSP / JSSP generators
# =================================================================================================

def sched_common(ctx, name, td, n_ope, n_ops_max, J, params):
    """start/end op ids and pad mask vs Gen.Sched; returns pad list"""
    B = td.batch_size[0]
    pads = []
    for bi in range(B):
        r = ask(ctx, [f"gen.ops {n_ops_max} | " + " ".join(map(str, n_ope[bi]))])[0]
        if td["start_op_per_job"][bi].tolist() != ints(r["start"]) or td["end_op_per_job"][bi].tolist() != ints(r["end"]):
            ctx.disagreement(f"{name}: start/end op ids vs Gen.Sched.startOps/endOps",
                             {"params": params, "n_ope": n_ope[bi], "real": [td['start_op_per_job'][bi].tolist(), td['end_op_per_job'][bi].tolist()],
                              "model": [r["start"], r["end"]]})
        pad = "".join("1" if b else "0" for b in td["pad_mask"][bi].tolist())
        if pad != r["pad"]:
            ctx.disagreement(f"{name}: pad mask vs Gen.Sched.padMask", {"params": params, "real": pad, "model": r["pad"]})
        pads.append(pad)
    return pads


def sched_wf(ctx, name, td, params, min_pt, max_pt, one_machine=False):
    """what the scheduling environments need: ids consistent, every real operation eligible on ≥ 1 machine with a
    positive time within the documented range"""
    B = td.batch_size[0]
    pt = td["proc_times"]
    pad = td["pad_mask"]
    s, e = td["start_op_per_job"], td["end_op_per_job"]
    for bi in range(B):
        nreal = int((~pad[bi]).sum())
        if s[bi, 0].item() != 0 or bool((s[bi, 1:] != e[bi, :-1] + 1).any()) or bool((e[bi] < s[bi] - 1).any()) \
                or e[bi, -1].item() != nreal - 1:
            V(ctx, f"{name}-op-index-inconsistent", "start/end op ids do not partition the real operations", {"params": params, "row": bi})
        nel = (pt[bi, :, :nreal] > 0).sum(0)
        if nreal and bool((nel < 1).any()):
            op = int((nel < 1).nonzero()[0])
            V(ctx, f"{name}-operation-without-machine", f"operation {op} has no machine with positive processing time",
                          {"params": params, "row": bi, "op": op})
        if one_machine and nreal and bool((nel != 1).any()):
            V(ctx, f"{name}-operation-machine-count", "a JSSP operation is not on exactly one machine", {"params": params, "row": bi})
        pos = pt[bi][pt[bi] > 0]
        if pos.numel() and (pos.min() < min_pt or pos.max() > max_pt):
            V(ctx, f"{name}-proc-time-out-of-range", f"processing time outside [{min_pt}, {max_pt}]", {"params": params, "row": bi})
        if bool((pt[bi] != pt[bi].round()).any()) or bool((pt[bi] < 0).any()):
            V(ctx, f"{name}-proc-time-not-integer", "processing times are not non-negative integers", {"params": params, "row": bi})


def sched_fjsp(ctx, taped: bool):
    from rl4co.envs.scheduling.fjsp.generator import FJSPGenerator

    rng = ctx.rng
    J, M = rng.choice([1, 2, 3, 5, 10]), rng.choice([1, 2, 3, 5])
    a = rng.choice([1, 1, 2, 4])
    b = a + rng.choice([0, 1, 2])
    mn_pt, mx_pt = rng.choice([(1, 20), (1, 20), (1, 2), (5, 9), (1, 99), (3, 4)])
    mn_el = rng.choice([1, 1, min(2, M)])
    mx_el = rng.choice([None, None, mn_el, M])
    same = rng.random() < 0.7
    B = rng.choice([1, 2, 3])
    params = dict(num_jobs=J, num_machines=M, min_ops_per_job=a, max_ops_per_job=b, min_processing_time=mn_pt, max_processing_time=mx_pt,
                  min_eligible_ma_per_op=mn_el, max_eligible_ma_per_op=mx_el, same_mean_per_op=same)
    ctx.count(f"fjsp:{'same-mean' if same else 'plain'}:{'tape' if taped else 'real'}")
    g = FJSPGenerator(**params)
    nmax = b * J
    if taped:
        with Tape(rng, bits=8, distinct_rows=True) as tp:
            td = g([B])
        kinds = tp.seq()
        want = ["randint", "randint", "rand_like", "randint", "randint"] if same else ["randint", "randint", "rand_like", "randint"]
        if kinds != want:
            ctx.disagreement("fjsp: sequence of random calls", {"params": params, "seq": kinds})
            return
        e_n, e_el, e_sh = tp.log[0], tp.log[1], tp.log[2]
        n_ope = [e_n["v"][bi * J:(bi + 1) * J] for bi in range(B)]
        pads = sched_common(ctx, "fjsp", td, n_ope, nmax, J, params)
        lines, where = [], []
        for bi in range(B):
            for op in range(nmax):
                ne = 0 if pads[bi][op] == "1" else e_el["v"][bi * nmax + op]
                ks = e_sh["k"][(bi * nmax + op) * M:(bi * nmax + op + 1) * M]
                idx = sorted(range(M), key=lambda m: ks[m])
                if same:
                    mean = tp.log[3]["v"][bi * nmax + op]
                    raws = [tp.log[4]["v"][(bi * M + m) * nmax + op] for m in range(M)]
                    lines.append(f"gen.fjspcol {M} {mn_pt} {mx_pt} {ne} {mean} 0 | " + " ".join(map(str, idx)) + " | " + " ".join(map(str, raws)))
                else:
                    times = [tp.log[3]["v"][(bi * M + m) * nmax + op] for m in range(M)]
                    lines.append(f"gen.fjspcol {M} {mn_pt} {mx_pt} {ne} 0 1 | " + " ".join(map(str, idx)) + " | " + " ".join(map(str, times)))
                where.append((bi, op, ne))
        for (bi, op, ne), r in zip(where, ask(ctx, lines)):
            real = [int(x) for x in td["proc_times"][bi, :, op].tolist()]
            if real != ints(r["col"]):
                ctx.disagreement("fjsp: proc_times column vs Gen.Sched.fjspColumn", {"params": params, "row": bi, "op": op, "real": real, "model": r["col"]})
            if int(r["nelig"]) != ne:
                V(ctx, "fjsp-operation-eligible-count", f"model: operation has {r['nelig']} machines with positive time, drawn {ne}",
                              {"params": params, "row": bi, "op": op})
        if same and (tp.log[3]["lo"], tp.log[3]["hi"]) != (mn_pt, mx_pt):
            ctx.disagreement("fjsp: range of proc_time_means", {"params": params, "lo": tp.log[3]["lo"], "hi": tp.log[3]["hi"]})
        sched_wf(ctx, "fjsp", td, params, mn_pt, mx_pt)
        ctx.sample({"case": "FJSPGenerator on taped draws vs Gen.Sched (op ids, eligibility, processing times)", "params": params, "n_ope_per_job": n_ope[0],
                    "start/end": [td["start_op_per_job"][0].tolist(), td["end_op_per_job"][0].tolist()], "proc_times_op0": td["proc_times"][0, :, 0].tolist()}, cap=1)
        ctx.case(("fjsp-tape", J, M, a, b, mn_pt, mx_pt, same, tuple(e_n["v"][:6])))
    else:
        seed = rng.randrange(1 << 30)
        seed_all(seed)
        td = g([B])
        params = dict(params, seed=seed)
        check_keys(ctx, "fjsp", td, {"start_op_per_job": (J,), "end_op_per_job": (J,), "proc_times": (M, nmax), "pad_mask": (nmax,)}, B, params)
        sched_wf(ctx, "fjsp", td, params, mn_pt, mx_pt)
        nel = (td["proc_times"] > 0).sum(1)
        real_ops = ~td["pad_mask"]
        hi_el = mx_el or M
        if bool(((nel < mn_el) | (nel > hi_el))[real_ops].any()):
            V(ctx, "fjsp-eligible-count-out-of-range", f"number of eligible machines outside [{mn_el}, {hi_el}]", {"params": params})
        if bool((td["proc_times"].transpose(1, 2)[td["pad_mask"]] != 0).any()):
            V(ctx, "fjsp-padded-op-has-times", "a padded operation has processing times", {"params": params})
        ctx.case(("fjsp-real", J, M, a, b, seed))


def sched_jssp(ctx, taped: bool):
    from rl4co.envs.scheduling.jssp.generator import JSSPGenerator

    rng = ctx.rng
    J, M = rng.choice([1, 2, 3, 6, 10]), rng.choice([1, 2, 3, 6])
    one2one = rng.random() < 0.6
    mn_pt, mx_pt = rng.choice([(1, 99), (1, 99), (1, 1), (5, 9)])
    if one2one:
        a = b = None
    else:
        a = rng.choice([1, 2, M])
        b = a + rng.choice([0, 1, 2])
    B = rng.choice([1, 2, 3])
    params = dict(num_jobs=J, num_machines=M, min_ops_per_job=a, max_ops_per_job=b, min_processing_time=mn_pt, max_processing_time=mx_pt,
                  one2one_ma_map=one2one)
    ctx.count(f"jssp:{'one2one' if one2one else 'free'}:{'tape' if taped else 'real'}")
    g = JSSPGenerator(**params)
    nmax = (b or M) * J
    if taped:
        with Tape(rng, bits=8, distinct_rows=True) as tp:
            td = g([B])
        want = ["randint", "rand", "randint"] if one2one else ["randint", "randint", "randint"]
        if tp.seq() != want:
            ctx.disagreement("jssp: sequence of random calls", {"params": params, "seq": tp.seq()})
            return
        n_ope = [tp.log[0]["v"][bi * J:(bi + 1) * J] for bi in range(B)]
        sched_common(ctx, "jssp", td, n_ope, nmax, J, params)
        lines, where = [], []
        for bi in range(B):
            for op in range(nmax):
                if one2one:
                    j, pos = divmod(op, M)
                    ks = tp.log[1]["k"][(bi * J + j) * M:(bi * J + j + 1) * M]
                    ma = sorted(range(M), key=lambda m: ks[m])[pos]
                else:
                    ma = tp.log[1]["v"][bi * nmax + op]
                times = [tp.log[2]["v"][(bi * M + m) * nmax + op] for m in range(M)]
                lines.append(f"gen.jsspcol {M} {ma} | " + " ".join(map(str, times)))
                where.append((bi, op))
        for (bi, op), r in zip(where, ask(ctx, lines)):
            real = [int(x) for x in td["proc_times"][bi, :, op].tolist()]
            if real != ints(r["col"]):
                ctx.disagreement("jssp: proc_times column vs Gen.Sched.jsspColumn", {"params": params, "row": bi, "op": op, "real": real, "model": r["col"]})
        sched_wf(ctx, "jssp", td, params, mn_pt, mx_pt, one_machine=True)
        ctx.sample({"case": "JSSPGenerator on taped draws vs Gen.Sched.jsspColumn", "params": params, "n_ope_per_job": n_ope[0],
                    "proc_times_op0": td["proc_times"][0, :, 0].tolist()}, cap=1)
        ctx.case(("jssp-tape", J, M, one2one, a, b, tuple(tp.log[0]["v"][:6])))
    else:
        seed = rng.randrange(1 << 30)
        seed_all(seed)
        td = g([B])
        params = dict(params, seed=seed)
        check_keys(ctx, "jssp", td, {"start_op_per_job": (J,), "end_op_per_job": (J,), "proc_times": (M, nmax), "pad_mask": (nmax,)}, B, params)
        sched_wf(ctx, "jssp", td, params, mn_pt, mx_pt, one_machine=True)
        if one2one:
            # every job visits every machine exactly once
            ids = td["proc_times"].argmax(1).reshape(B, J, M)
            if bool((ids.sort(-1).values != torch.arange(M)).any()):
                V(ctx, "jssp-one2one-not-permutation", "one2one_ma_map: a job does not visit every machine exactly once", {"params": params})
        ctx.case(("jssp-real", J, M, one2one, seed))


def sched_file_generators(ctx):
    """`FJSPFileGenerator` / `JSSPFileGenerator` (generators too): directories of files whose instances have DIFFERENT numbers of
    operations, so that padding is really applied — the loaded batch must mark exactly the real operations as non-padded and
    every non-padded operation must be eligible on a machine with positive time"""
    from rl4co.envs.scheduling.fjsp.env import FJSPEnv
    from rl4co.envs.scheduling.fjsp.generator import FJSPFileGenerator, FJSPGenerator
    from rl4co.envs.scheduling.fjsp.parser import write
    from rl4co.envs.scheduling.jssp.generator import JSSPFileGenerator

    rng = ctx.rng
    for rep in range(ctx.budget(3, 20)):
        J, M = rng.choice([2, 3, 4]), rng.choice([1, 2, 3])
        B = rng.choice([2, 3, 4])
        tmp = tempfile.mkdtemp(prefix="gen_schedfiles_")
        try:
            # FJSP: generated instances with 1..4 operations per job (totals differ), written by the repo's writer
            seed_all(rng.randrange(1 << 30))
            td = FJSPGenerator(num_jobs=J, num_machines=M, min_ops_per_job=1, max_ops_per_job=4, max_processing_time=9)([B])
            totals = (~td["pad_mask"]).sum(1).tolist()
            with quiet():
                env = FJSPEnv(generator_params=dict(num_jobs=J, num_machines=M, min_ops_per_job=1, max_ops_per_job=4))
                write(os.path.join(tmp, "f"), env.reset(td.clone()))
                g = FJSPFileGenerator(os.path.join(tmp, "f"))
                tdf = g([B])
            params = dict(kind="fjsp-files", num_jobs=J, num_machines=M, operation_totals=totals)
            ctx.count(f"sched-files:fjsp:{'different' if len(set(totals)) > 1 else 'equal'}-operation-counts")
            got = sorted((~tdf["pad_mask"]).sum(1).tolist())
            if got != sorted(totals):
                V(ctx, "fjsp-file-generator-pad-mask", f"FJSPFileGenerator: numbers of non-padded operations {got} differ from the instances' {sorted(totals)}",
                  {"params": params})
            sched_wf(ctx, "fjsp-file-generator", tdf, params, 1, 9)
            ctx.case(("fjsp-files", J, M, tuple(totals)))
            # JSSP: files in the parser's format with different numbers of operations per instance
            os.makedirs(os.path.join(tmp, "j"))
            jt = []
            for b in range(B):
                n_ope, proc = build_sched_instance(rng, J, M, 4, "jssp")
                total = sum(n_ope)
                ma = [max(range(M), key=lambda m: proc[m][o]) for o in range(total)]
                du = [proc[ma[o]][o] for o in range(total)]
                r = ask(ctx, [f"gen.jsspwrite {M} | " + " ".join(map(str, n_ope)) + " | " + " ".join(map(str, ma)) + " | " + " ".join(map(str, du))])[0]
                with open(os.path.join(tmp, "j", f"{b:04d}.txt"), "w") as fh:
                    fh.write("\n".join(ln.replace(",", " ") for ln in r["lines"].split(";")))
                jt.append(total)
            with quiet():
                tdj = JSSPFileGenerator(os.path.join(tmp, "j"))([B])
            ctx.count(f"sched-files:jssp:{'different' if len(set(jt)) > 1 else 'equal'}-operation-counts")
            gotj = sorted((~tdj["pad_mask"]).sum(1).tolist())
            if gotj != sorted(jt):
                V(ctx, "jssp-file-generator-pad-mask", f"JSSPFileGenerator: numbers of non-padded operations {gotj} differ from the instances' {sorted(jt)}",
                  {"kind": "jssp-files", "operation_totals": jt})
            sched_wf(ctx, "jssp-file-generator", tdj, dict(kind="jssp-files", operation_totals=jt), 1, 1000, one_machine=True)
            ctx.case(("jssp-files", J, M, tuple(jt)))
        finally:
            shutil.rmtree(tmp, ignore_errors=True)


def run_sched(ctx):
    guarded(ctx, "sched-file-generators", sched_file_generators)
    N = ctx.budget(250, 12000)
    for it in range(N):
        if it % 4 < 2:
            guarded(ctx, "fjsp-generator", sched_fjsp, it % 2 == 0)
        else:
            guarded(ctx, "jssp-generator", sched_jssp, it % 2 == 0)


# =================================================================================================
# C18 gen_mcp: MCP generator (membership rows, weights) — includes the `cutoffs_masks` shape defect
# =================================================================================================

def run_mcp(ctx):
    from rl4co.envs.graph.mcp.generator import MCPGenerator

    rng = ctx.rng
    N = ctx.budget(200, 10000)
    for it in range(N):
        taped = it % 2 == 0
        n_items = rng.choice([5, 12, 30, 200])
        n_sets = rng.choice([1, 2, 3, 3, 5, 10, 30, 100])
        mn, mx = rng.choice([(5, 15), (5, 15), (1, 4), (2, 2), (1, 1), (3, 8)])
        wl, wh = rng.choice([(1, 10), (1, 1), (2, 5)])
        B = rng.choice([1, 2])
        params = dict(num_items=n_items, num_sets=n_sets, min_size=mn, max_size=mx, min_weight=wl, max_weight=wh, n_sets_to_choose=min(2, n_sets))
        g = MCPGenerator(**params)
        tp = Tape(rng, bits=6)
        seed = rng.randrange(1 << 30)
        err, td = None, None
        try:
            if taped:
                with tp:
                    td = g([B])
            else:
                seed_all(seed)
                td = g([B])
        except RuntimeError as e:
            err = str(e)
        if taped:
            es = [e for e in tp.log if e["kind"] == "rand"]
            q = es[0]["q"]
            sizes = [int(r["val"]) for r in ask(ctx, [f"gen.mcpclamp {mn} {mx} {k} {q}" for k in es[1]["k"]])]
            m = max(sizes)
            ctx.count(f"mcp:tape:sampled-max{'=' if m == mx else '<'}max_size")
            items_e = tp.take("randint") if any(e["kind"] == "randint" for e in tp.log) else None
            if items_e is None or items_e["shape"][-1] != m:
                ctx.disagreement("mcp: membership width vs max of Gen.mcpClampFloor", {"params": params, "sizes": sizes})
                continue
            lines = []
            for r_ in range(B * n_sets):
                items = items_e["v"][r_ * m:(r_ + 1) * m]
                lines.append(f"gen.mcprow {sizes[r_]} | " + " ".join(map(str, items)))
            reps = ask(ctx, lines)   # the model (Gen.mcpRow) is total: a raise of the real generator is a violation, reported below
            if err is None:
                mem = td["membership"].reshape(B * n_sets, -1)
                for r_, r in enumerate(reps):
                    real = sorted(int(x) for x in mem[r_].tolist())
                    if r["err"] == "0" and real != sorted(ints(r["row"])):
                        ctx.disagreement("mcp: membership row (as multiset) vs Gen.mcpRow", {"params": params, "real": real, "model": r["row"]})
                wts = [int(r["val"]) for r in ask(ctx, [f"gen.mcpclamp {wl} {wh} {k} {q}" for k in es[0]["k"]])]
                if [int(x) for x in td["weights"].flatten().tolist()] != wts:
                    ctx.disagreement("mcp: weights vs Gen.mcpClampFloor", {"params": params})
        else:
            ctx.count("mcp:real:" + ("raises" if err else "ok"))
        if err is not None:
            V(ctx, "mcp-generator-shape-error",
                          f"MCPGenerator raises for a valid configuration: {err[:120]}",
                          {"params": params, "seed": None if taped else seed, "taped": taped})
        else:
            S = td["membership"].shape[-1]
            check_keys(ctx, "mcp", td, {"membership": (n_sets, S), "weights": (n_items,), "n_sets_to_choose": (1,)}, B, params)
            mem = td["membership"]
            check_bounds(ctx, "mcp", "membership", mem, 0, n_items, params)
            check_bounds(ctx, "mcp", "weights", td["weights"], wl, wh, params)
            cnt = (mem > 0).sum(-1)
            if bool((cnt < 1).any()) or bool((cnt > mx).any()):
                V(ctx, "mcp-set-size-out-of-range", "a set is empty or larger than max_size", {"params": params})
            srt = mem.sort(-1).values
            dup = (srt[..., 1:] == srt[..., :-1]) & (srt[..., 1:] > 0)
            if bool(dup.any()):
                V(ctx, "mcp-duplicate-item-in-set", "a set lists an item twice", {"params": params})
        if taped and err is None:
            ctx.sample({"case": "MCPGenerator on taped draws vs Gen.mcpRow (rows as multisets)", "params": params, "set_sizes": sizes[:4],
                        "items_row0": items_e["v"][:m], "model_row0": reps[0].get("row"), "real_row0": td["membership"].reshape(B * n_sets, -1)[0].tolist()}, cap=2)
        ctx.case(("mcp", taped, n_items, n_sets, mn, mx, seed if not taped else tuple(tp.log[0]["k"][:5]) if tp.log else 0))


# =================================================================================================
# C18 gen_solvable: a mask-confined episode from every generated instance completes
# =================================================================================================

SOLV_PARAMS = {
    "tsp": [dict(num_loc=5), dict(num_loc=20)],
    "atsp": [dict(num_loc=5), dict(num_loc=12, tmat_class=False)],
    "cvrp": [dict(num_loc=7), dict(num_loc=20), dict(num_loc=13, capacity=10.0), dict(num_loc=33),
             dict(num_loc=9, min_demand=3, max_demand=7, capacity=7.0, min_loc=2.0, max_loc=3.0, depot_distribution="center")],
    "sdvrp": [dict(num_loc=7), dict(num_loc=20)],
    "cvrptw": [dict(num_loc=7), dict(num_loc=20, scale=True), dict(num_loc=13, max_loc=100.0, max_time=300),
               dict(num_loc=9, min_loc=50.0, max_loc=150.0, max_time=300, min_demand=2, max_demand=4, capacity=8.0)],
    "op": [dict(num_loc=7), dict(num_loc=20), dict(num_loc=33), dict(num_loc=9, prize_type="const", max_length=1.5),
           dict(num_loc=9, prize_type="unif")],
    "pctsp": [dict(num_loc=7), dict(num_loc=20)],
    "spctsp": [dict(num_loc=7), dict(num_loc=20)],
    "pdp": [dict(num_loc=6), dict(num_loc=7), dict(num_loc=20)],
    "mtsp": [dict(num_loc=7, min_num_agents=2, max_num_agents=3), dict(num_loc=12, min_num_agents=1, max_num_agents=5)],
    "svrp": [dict(num_loc=7), dict(num_loc=15, tech_costs=[1])],
    "mdcpdp": [dict(num_loc=6, num_depot=1), dict(num_loc=8, num_depot=2), dict(num_loc=10, num_depot=3, depot_mode="single")],
    "mtvrp": [dict(num_loc=7, variant_preset=p) for p in MTVRP_PRESETS] + [
        dict(num_loc=7, variant_preset="vrptw", speed=2.0), dict(num_loc=9, variant_preset="ovrpbltw", speed=0.5, max_time=8.0),
        dict(num_loc=7, variant_preset="vrpbltw", max_loc=0.5, distance_limit=4.0, capacity=16.0, max_demand=5),
        dict(num_loc=7, variant_preset="vrpltw", speed=4.0, max_time=6.0, scale_demand=False),
        dict(num_loc=6, variant_preset=None, subsample=False, speed=2.0, backhaul_ratio=0.5)],
    "fjsp": [dict(num_jobs=3, num_machines=2, min_ops_per_job=1, max_ops_per_job=3), dict(num_jobs=5, num_machines=3)],
    "jssp": [dict(num_jobs=3, num_machines=3), dict(num_jobs=4, num_machines=2, min_ops_per_job=1, max_ops_per_job=3, one2one_ma_map=False)],
    "ffsp": [dict(num_job=3, num_machine=2, num_stage=2), dict(num_job=5, num_machine=3, num_stage=3)],
    "smtwtp": [dict(num_job=5), dict(num_job=12)],
    "flp": [dict(num_loc=8, to_choose=3), dict(num_loc=20, to_choose=1)],
    "mcp": [dict(num_items=12, num_sets=60, n_sets_to_choose=3), dict(num_items=30, num_sets=80, n_sets_to_choose=1)],
}


def run_episode_any(env, td0, choose, max_steps):
    """the harness' own loop (as rl.run_episode) with the per-row `done` read off a possibly broadcast tensor
    (MCPEnv compares `i` [B] with `n_sets_to_choose` [B,1] → `done` [B,B]; row r's own flag is the diagonal)"""
    td = env.reset(td0.clone())
    B = td.batch_size[0]
    steps = 0
    while True:
        mask = td["action_mask"].reshape(B, -1)
        if "done" in td.keys():
            d = td["done"]
            done = torch.diagonal(d.reshape(B, B)) if d.numel() == B * B and B > 1 else d.reshape(B, -1)[:, 0]
        else:
            done = torch.zeros(B, dtype=torch.bool)
        if bool(done.all()):
            return "done", steps, None
        if steps >= max_steps:
            return "cap", steps, None
        acts = []
        for r in range(B):
            feas = [j for j, b in enumerate(mask[r].tolist()) if b]
            if not feas:
                if bool(done[r]):
                    acts.append(0)
                    continue
                return "empty-mask", steps, r
            acts.append(choose(r, steps, feas))
        td.set("action", torch.tensor(acts, dtype=torch.long))
        td = env.step(td)["next"]
        steps += 1


def run_solvable(ctx):
    rng = ctx.rng
    cat = G.env_catalogue()
    reps = ctx.budget(4, 80)
    for name, plist in SOLV_PARAMS.items():
        for gp in plist:
            for rep in range(reps):
                seed = rng.randrange(1 << 30)
                seed_all(seed)
                witness = {"env": name, "generator_params": gp, "seed": seed}
                try:
                    env = cat[name](**gp)
                    with quiet():
                        td = env.generator([3])
                except Exception as e:  # noqa: BLE001
                    if name == "mcp":
                        V(ctx, "mcp-generator-shape-error", f"MCPGenerator raises: {str(e)[:100]}", witness)
                    else:
                        V(ctx, f"{name}-generator-raises", f"{type(e).__name__}: {str(e)[:200]}", witness)
                    continue
                policy = rng.choice(["uniform", "first", "last"])
                choose = {"uniform": lambda r, t, f: rng.choice(f), "first": lambda r, t, f: f[0], "last": lambda r, t, f: f[-1]}[policy]
                cap = 60 * (max(int(v) for v in gp.values() if isinstance(v, (int, float)) and not isinstance(v, bool)) + 5)
                try:
                    with quiet():
                        status, steps, row = run_episode_any(env, td, choose, cap)
                except Exception as e:  # noqa: BLE001
                    status, steps, row = "raises", 0, f"{type(e).__name__}: {str(e)[:200]}"
                if status != "done":
                    # decide per instance: batch padding artefacts (a finished row idling next to a running one) belong to C02/C04
                    solo = []
                    for r_ in range(td.batch_size[0]):
                        try:
                            with quiet():
                                solo.append(run_episode_any(env, td[r_:r_ + 1].clone(), choose, cap)[0])
                        except Exception as e:  # noqa: BLE001
                            solo.append(f"raises {type(e).__name__}: {str(e)[:120]}")
                    if all(s_ == "done" for s_ in solo):
                        ctx.count(f"solvable:{name}:batch-only-{status}")
                        ctx.note(f"{name} {gp}: batched episode {status} ({row}) while every instance completes solo (batch padding; C02/C04)")
                        status = "done"
                    else:
                        row = solo
                ctx.count(f"solvable:{name}:{status}")
                if status != "done":
                    key = f"{name}-episode-{status}"
                    if name == "svrp" and status == "raises" and len(gp.get("tech_costs", [1, 2, 3])) == 1 and "out of bounds" in str(row):
                        key += ":single-technician:index-out-of-bounds"   # the one listed environment defect; anything else stays unlisted
                    V(ctx, key, f"mask-confined episode ({policy} policy) on a generated {name} instance: {status} "
                                f"after {steps} steps ({row})", dict(witness, policy=policy))
                if rep == 0 and gp is plist[-1]:
                    ctx.sample({"case": "mask-confined episode on generated instances", "env": name, "generator_params": gp, "seed": seed, "policy": policy,
                                "B": 3, "outcome": status, "steps": steps}, cap=3)
                ctx.case(("solv", name, tuple(sorted((k, str(v)) for k, v in gp.items())), seed, policy))


# =================================================================================================
# C18 gen_history: call sequences in one process — outputs are functions of the call's own arguments
# =================================================================================================

def check_tables(ctx, snap, where):
    for mn, k, before, after in G.tables_changed(snap):
        V(ctx, f"module-table-mutated:{mn.split('.')[-2]}.{k}", f"the module-level table `{k}` of {mn} was changed by {where}: {before} → {after}",
          {"module": mn, "table": k, "after": where})


def guard_tables(fn, what):
    """wrap a unit's run function: the generators' module-level tables are deep-compared before / after the whole sweep"""
    def run(ctx):
        snap = G.tables_snapshot()
        try:
            fn(ctx)
        finally:
            check_tables(ctx, snap, f"the calls of unit {what}")
    return run


def history_dataset_writers(ctx):
    """`generate_vrp_data` / `generate_op_data` / `generate_pctsp_data` / `generate_dataset`: a call with legal overrides followed by
    default calls — every call's output must be what a fresh process gives for the same arguments (Lean: `Persist.vrpCalls`)"""
    from rl4co.data import generate_data as gd

    rng = ctx.rng
    snap = G.tables_snapshot()
    table = {n: float(parse_frac(r["val"])) for n, r in zip([10, 15, 20, 30, 40, 50, 60, 75, 100, 125, 150, 200, 500, 1000],
                                                         ask(ctx, [f"gen.tbl 0 {n}" for n in [10, 15, 20, 30, 40, 50, 60, 75, 100, 125, 150, 200, 500, 1000]]))}
    ml_table = {n: float(parse_frac(r["val"])) for n, r in zip([20, 50, 100], ask(ctx, [f"gen.tbl 1 {n}" for n in [20, 50, 100]]))}
    for rep in range(ctx.budget(3, 20)):
        calls = []
        for _ in range(rng.choice([2, 3, 5])):
            n = rng.choice([10, 20, 20, 50, 100])
            kind = rng.random()
            if kind < 0.45:
                ov = {}
            elif kind < 0.85:
                ov = {rng.choice([n, n, 20, 50]): rng.choice([16.0, 60.0, 99.0])}
            else:
                ov = {n: 64.0, 21: 5.0}       # a key that is not in the table is ignored
            calls.append((n, ov))
        calls.append((calls[0][0], {}))        # always end with a default call of an earlier size
        line = "gen.vrpcalls | " + " | ".join(" ".join([str(n)] + [f"{k} {frac_pair(v)[0]} {frac_pair(v)[1]}" for k, v in ov.items()]) for n, ov in calls)
        model = [float(parse_frac(x)) for x in ask(ctx, [line])[0]["caps"].split(",")]
        real = []
        for n, ov in calls:
            np.random.seed(rng.randrange(1 << 30))
            with quiet():
                ds = gd.generate_vrp_data(2, n, capacities=dict(ov) if ov else None)
            real.append(float(ds["capacity"][0]))
        for j, ((n, ov), m_, r_) in enumerate(zip(calls, model, real)):
            if m_ != r_:
                if not ov and r_ != table[n]:
                    V(ctx, "generate-vrp-data-default-call-depends-on-history",
                      f"generate_vrp_data(size={n}) without overrides wrote capacity {r_} (documented table: {table[n]}) after the calls {calls[:j]}",
                      {"calls": [[n_, ov_] for n_, ov_ in calls[:j + 1]], "capacities_written": real[:j + 1]})
                else:
                    ctx.disagreement("generate_vrp_data call history vs Gen.Persist.vrpCalls", {"calls": [[n_, ov_] for n_, ov_ in calls], "real": real, "model": model})
                break
        ctx.count("history:generate_vrp_data")
        ctx.case(("hist-vrp", tuple((n, tuple(ov.items())) for n, ov in calls)))
        if rep == 0:
            ctx.sample({"case": "history of generate_vrp_data calls in one process vs Gen.Persist.vrpCalls", "calls (size, capacities=)": [[n, ov] for n, ov in calls],
                        "capacities_written": real, "model": model}, cap=1)
    # OP / PCTSP: `max_lengths` override then default; generate_dataset after an override
    for n in (20, 50, 100):
        x = rng.choice([1.25, 7.0])
        with quiet():
            a = gd.generate_op_data(2, n, "const", max_lengths={n: x})
            b = gd.generate_op_data(2, n, "const")
            gd.generate_pctsp_data(2, n, max_lengths={n: x})
            gd.generate_vrp_data(2, n, capacities={n: 77.0})
        if float(a["max_length"][0]) != f32(x) or float(b["max_length"][0]) != f32(ml_table[n]):
            V(ctx, "generate-op-data-default-call-depends-on-history", f"generate_op_data(size={n}): override {x} → {float(a['max_length'][0])}, then default → "
              f"{float(b['max_length'][0])} (documented {ml_table[n]})", {"size": n})
        tmp = tempfile.mkdtemp(prefix="gen_hist_")
        try:
            fn = os.path.join(tmp, "v.npz")
            with quiet():
                gd.generate_dataset(filename=fn, problem="vrp", dataset_size=3, graph_sizes=[n], seed=1, overwrite=True)
            cap = float(np.load(fn)["capacity"][0])
            if cap != table[n]:
                V(ctx, "generate-vrp-data-default-call-depends-on-history", f"generate_dataset(problem='vrp', graph_sizes=[{n}]) wrote capacity {cap} "
                  f"(documented {table[n]}) after an earlier generate_vrp_data(capacities={{{n}: 77.0}}) in the same process", {"size": n})
        finally:
            shutil.rmtree(tmp, ignore_errors=True)
        ctx.count("history:op/pctsp/generate_dataset")
        ctx.case(("hist-op", n, x))
    check_tables(ctx, snap, "the dataset writers (generate_*_data with overrides)")


def history_generators(ctx):
    """generator objects: (1) one object reused with different batch sizes; (2) an object built with overrides followed by a default
    object — the default one must behave as in a fresh process; module tables untouched after every call"""
    from rl4co.envs.routing.cvrp.generator import CVRPGenerator
    from rl4co.envs.routing.cvrptw.generator import CVRPTWGenerator
    from rl4co.envs.routing.op.generator import OPGenerator
    from rl4co.envs.routing.pctsp.generator import PCTSPGenerator
    from rl4co.envs.routing.mtvrp.generator import MTVRPGenerator, VARIANT_GENERATION_PRESETS
    from rl4co.envs.scheduling.fjsp.generator import FJSPGenerator

    rng = ctx.rng
    snap = G.tables_snapshot()
    for n in rng.sample(CVRP_SIZES, 4) + [20]:
        cap_tbl = float(parse_frac(ask(ctx, [f"gen.tbl 0 {n}"])[0]["val"]))
        ml_tbl = float(parse_frac(ask(ctx, [f"gen.tbl 1 {n}"])[0]["val"]))
        with quiet():
            g_ov = CVRPGenerator(num_loc=n, capacity=64.0, min_demand=3, max_demand=7)
            g_ov([2])
            g = CVRPGenerator(num_loc=n)
            outs = [g([B]) for B in (2, 5, 1, 3)]                      # one object, several batch sizes
            gtw = CVRPTWGenerator(num_loc=n)([2])
            o_ov = OPGenerator(num_loc=n, max_length=9.0)([2])
            o = OPGenerator(num_loc=n)([2])
            p_ov = PCTSPGenerator(num_loc=n, max_penalty=9.0)
            pg = PCTSPGenerator(num_loc=n)
        for B, td in zip((2, 5, 1, 3), outs):
            if tuple(td["locs"].shape) != (B, n, 2) or set(td["capacity"].flatten().tolist()) != {f32(cap_tbl)}:
                V(ctx, "cvrp-generator-depends-on-history", f"a default CVRPGenerator(num_loc={n}) reused with batch size {B} after an overriding generator: "
                  f"shape {tuple(td['locs'].shape)}, capacity {td['capacity'].flatten().tolist()[:2]} (documented {cap_tbl})", {"num_loc": n, "B": B})
            raw = (td["demand"].double() * cap_tbl).round()
            if raw.min() < 1 or raw.max() > 10:
                V(ctx, "cvrp-generator-depends-on-history", "default demand range not [1,10] after an overriding generator", {"num_loc": n})
        if set(gtw["capacity"].flatten().tolist()) != {f32(cap_tbl)} or set(o["max_length"].flatten().tolist()) != {f32(ml_tbl)} \
                or set(o_ov["max_length"].flatten().tolist()) != {9.0}:
            V(ctx, "generator-default-depends-on-history", f"a default generator after an overriding one (num_loc={n}) does not use the documented table value",
              {"num_loc": n, "cvrptw_cap": gtw["capacity"].flatten().tolist()[:1], "op_max_length": o["max_length"].flatten().tolist()[:1]})
        if abs(pg.max_penalty - ml_tbl * 3.0 / n) > 1e-9 or abs(p_ov.max_penalty - 9.0 * 3.0 / n) > 1e-9:
            V(ctx, "generator-default-depends-on-history", "PCTSP max_penalty of a default generator after an overriding one", {"num_loc": n})
        check_tables(ctx, snap, f"generator calls at num_loc={n}")
        ctx.count("history:generator-objects")
        ctx.case(("hist-gen", n))
    # MTVRP: every preset in turn on fresh objects and one object reused; the presets table must stay what was extracted
    before = {k: dict(v) for k, v in VARIANT_GENERATION_PRESETS.items()}
    for preset in rng.sample(MTVRP_PRESETS, 6):
        with quiet():
            g = MTVRPGenerator(num_loc=6, variant_preset=preset)
            for B in (1, 4, 2):
                td = g([B])
                if tuple(td["locs"].shape) != (B, 7, 2):
                    V(ctx, "mtvrp-generator-depends-on-history", f"reused MTVRPGenerator: locs shape {tuple(td['locs'].shape)} for batch size {B}", {"preset": preset})
            g.variant_probs["O"] = g.variant_probs.get("O", 0.0)     # reading through the object must not alias-modify the table
        if {k: dict(v) for k, v in VARIANT_GENERATION_PRESETS.items()} != before:
            V(ctx, "module-table-mutated:mtvrp.VARIANT_GENERATION_PRESETS", f"VARIANT_GENERATION_PRESETS changed after using preset {preset!r}", {"preset": preset})
        ctx.count("history:mtvrp-presets")
    with quiet():
        gf = FJSPGenerator(num_jobs=3, num_machines=2, min_ops_per_job=1, max_ops_per_job=3)
        for B in (2, 5, 1):
            td = gf([B])
            if tuple(td["proc_times"].shape) != (B, 2, 9):
                V(ctx, "fjsp-generator-depends-on-history", f"reused FJSPGenerator: proc_times shape {tuple(td['proc_times'].shape)} for batch size {B}", {})
    check_tables(ctx, snap, "the generator-object sweep")


def run_history(ctx):
    guarded(ctx, "dataset-writer-history", history_dataset_writers)
    guarded(ctx, "generator-history", history_generators)


# =================================================================================================
# C19 gen_text: FJSP / JSSP text files
# =================================================================================================

def file_tokens(path):
    """tokenisation of `file2lines` (glue): blank lines dropped, `int(word)` or `int(float(word))`"""
    out = []
    for line in open(path).read().split("\n"):
        if line.strip():
            out.append([int(w) if "." not in w else int(float(w)) for w in line.split()])
    return out


def lines_arg(lines):
    return " | ".join(" ".join(map(str, ln)) for ln in lines)


def replay_masks(env, td0, actions_per_step):
    """mask strings along a fixed action list (one action per step for every row)"""
    td = env.reset(td0.clone())
    out = [["".join("1" if b else "0" for b in row.tolist()) for row in td["action_mask"].reshape(td.batch_size[0], -1)]]
    for acts in actions_per_step:
        td.set("action", torch.tensor(acts, dtype=torch.long))
        td = env.step(td)["next"]
        out.append(["".join("1" if b else "0" for b in row.tolist()) for row in td["action_mask"].reshape(td.batch_size[0], -1)])
    return out, td


def record_episode(env, td0, rng, cap=400):
    """drive the env with the harness loop, return the per-step action lists"""
    td = env.reset(td0.clone())
    B = td.batch_size[0]
    steps = []
    while len(steps) < cap:
        d = td["done"]
        done = torch.diagonal(d.reshape(B, B)) if d.numel() == B * B and B > 1 else d.reshape(B, -1)[:, 0]
        if bool(done.all()):
            break
        mask = td["action_mask"].reshape(B, -1)
        acts = []
        for r in range(B):
            feas = [j for j, b in enumerate(mask[r].tolist()) if b]
            acts.append(rng.choice(feas) if feas else 0)
        td.set("action", torch.tensor(acts, dtype=torch.long))
        try:
            td = env.step(td)["next"]
        except Exception:  # noqa: BLE001  (an environment defect — e.g. SVRP with one technician — is not a persistence matter: compare the prefix)
            break
        steps.append(acts)
    return steps


def build_sched_instance(rng, J, M, max_ops, kind):
    """harness-built scheduling instance (dense matrix) incl. corner cases"""
    n_ope = [rng.randint(1, max_ops) for _ in range(J)]
    total = sum(n_ope)
    proc = [[0] * total for _ in range(M)]
    for op in range(total):
        if kind == "jssp":
            proc[rng.randrange(M)][op] = rng.choice([1, 2, 9, 10, 99, 100, 1000])
        else:
            k = rng.choice([1, 1, 2, M]) if M > 1 else 1
            for m in rng.sample(range(M), min(k, M)):
                proc[m][op] = rng.choice([1, 2, 9, 10, 99, 100, 12345])
    return n_ope, proc


def sched_td(n_ope_list, proc_list, nmax):
    B = len(n_ope_list)
    M = len(proc_list[0])
    J = len(n_ope_list[0])
    pt = torch.zeros(B, M, nmax)
    pad = torch.ones(B, nmax, dtype=torch.bool)
    st = torch.zeros(B, J, dtype=torch.long)
    en = torch.zeros(B, J, dtype=torch.long)
    for b, (n_ope, proc) in enumerate(zip(n_ope_list, proc_list)):
        total = sum(n_ope)
        pt[b, :, :total] = torch.tensor(proc, dtype=torch.float32)
        pad[b, :total] = False
        c = 0
        for j, k in enumerate(n_ope):
            st[b, j] = c
            c += k
            en[b, j] = c - 1
    return TensorDict({"start_op_per_job": st, "end_op_per_job": en, "proc_times": pt, "pad_mask": pad}, batch_size=[B])


def text_fjsp(ctx, tmp):
    from rl4co.envs.scheduling.fjsp.env import FJSPEnv
    from rl4co.envs.scheduling.fjsp.generator import FJSPGenerator
    from rl4co.envs.scheduling.fjsp.parser import read, write

    rng = ctx.rng
    J, M = rng.choice([1, 2, 3, 5]), rng.choice([1, 2, 3, 5])
    mo = rng.choice([1, 2, 4])
    B = rng.choice([1, 2, 3])
    nmax = J * mo
    src = rng.choice(["generator", "built"])
    ctx.count(f"text:fjsp:{src}")
    if src == "generator":
        seed_all(rng.randrange(1 << 30))
        td = FJSPGenerator(num_jobs=J, num_machines=M, min_ops_per_job=1, max_ops_per_job=mo, max_processing_time=rng.choice([2, 20, 99]))([B])
    else:
        insts = [build_sched_instance(rng, J, M, mo, "fjsp") for _ in range(B)]
        td = sched_td([i[0] for i in insts], [i[1] for i in insts], nmax)
    with quiet():
        env = FJSPEnv(generator_params=dict(num_jobs=J, num_machines=M, min_ops_per_job=1, max_ops_per_job=mo))
        tdr = env.reset(td.clone())
    d = tempfile.mkdtemp(dir=tmp)
    write(d, tdr)
    files = sorted(os.listdir(d))
    if len(files) != B:
        V(ctx, "fjsp-write-file-count", f"write() produced {len(files)} files for {B} instances", {"J": J, "M": M})
        return
    loaded = []
    for b, fn in enumerate(files):
        path = os.path.join(d, fn)
        toks = file_tokens(path)
        n_ope = (td["end_op_per_job"][b] - td["start_op_per_job"][b] + 1).tolist()
        total = sum(n_ope)
        proc = td["proc_times"][b, :, :total].long().tolist()
        flat = " ".join(str(x) for row in proc for x in row)
        r = ask(ctx, [f"gen.fjspwrite {M} {toks[0][2] if len(toks[0]) > 2 else 0} | " + " ".join(map(str, n_ope)) + " | " + flat,
                      "gen.fjspread | " + lines_arg(toks)])
        model_lines = [[int(x) for x in ln.split(",")] if ln else [] for ln in r[0]["lines"].split(";")]
        if model_lines != toks:
            ctx.disagreement("fjsp: file written by write_one vs Gen.Persist.fjspWrite", {"file": toks, "model": model_lines})
        tdl, nj, nm, mops = read(path, max_ops=nmax)
        mr = r[1]
        if mr["err"] != "0":
            ctx.disagreement("fjsp: Gen.Persist.fjspRead fails on a written file", {"file": toks})
        else:
            real_proc = tdl["proc_times"][0, :, :total].long().flatten().tolist()
            if (int(mr["nj"]), int(mr["nm"]), ints(mr["nops"]), ints(mr["proc"])) != (nj, nm, n_ope, real_proc):
                ctx.disagreement("fjsp: read() vs Gen.Persist.fjspRead", {"file": toks, "model": mr["_raw"][:300], "real": [nj, nm, real_proc]})
        # round trip: content up to padding
        same = (tdl["proc_times"][0] == td["proc_times"][b]).all() and (tdl["pad_mask"][0] == td["pad_mask"][b]).all() \
            and (tdl["start_op_per_job"][0].long() == td["start_op_per_job"][b]).all() and (tdl["end_op_per_job"][0].long() == td["end_op_per_job"][b]).all()
        if not bool(same):
            V(ctx, "fjsp-text-roundtrip-content", "read(write(instance)) differs from the instance", {"file": toks, "J": J, "M": M})
        if tdl["start_op_per_job"].dtype != td["start_op_per_job"].dtype:
            ctx.count("text:fjsp:index-dtype-changes-int64→float32")
        loaded.append(tdl)
        ctx.sample({"case": "FJSP write → file → read vs Gen.Persist.fjspWrite / fjspRead", "source": src, "file_tokens": toks[:3],
                    "read_back_equal_to_original": bool(same), "ops_per_job": n_ope}, cap=2)
        ctx.case(("fjsp-text", tuple(map(tuple, toks))))
    # behaviour: same masks along a fixed action list on original and re-read instances
    tdl_all = torch.cat(loaded, 0)
    steps = record_episode(env, td, rng)
    try:
        m1, e1 = replay_masks(env, td, steps)
        m2, e2 = replay_masks(env, tdl_all, steps)
        if m1 != m2 or not torch.equal(env.get_reward(e1, None), env.get_reward(e2, None)):
            V(ctx, "fjsp-text-roundtrip-behaviour", "masks / reward differ between the original and the re-read instances", {"J": J, "M": M, "steps": steps})
    except Exception as e:  # noqa: BLE001
        V(ctx, "fjsp-text-roundtrip-behaviour", f"re-read instances cannot be replayed: {type(e).__name__}: {str(e)[:150]}", {"J": J, "M": M})
    # the file generator / env loader (order of os.listdir is not specified: compare as multisets)
    with quiet():
        env2 = FJSPEnv(generator_params={"file_path": d})
        tdf = env2.generator([B])
    a = sorted(tuple(x.flatten().tolist()) for x in tdf["proc_times"])
    b_ = sorted(tuple(x.flatten().tolist()) for x in tdl_all["proc_times"][:, :, :tdf["proc_times"].shape[-1]])
    if a != b_:
        V(ctx, "fjsp-file-generator-content", "FJSPFileGenerator returns other instances than the files hold", {"J": J, "M": M})
    if [tuple(x.flatten().tolist()) for x in tdf["proc_times"]] != [tuple(x.flatten().tolist()) for x in tdl_all["proc_times"][:, :, :tdf["proc_times"].shape[-1]]]:
        ctx.count("text:fjsp:file-generator-order-differs-from-write-order")
    shutil.rmtree(d, ignore_errors=True)


def text_jssp(ctx, tmp):
    from rl4co.envs.scheduling.jssp.env import JSSPEnv
    from rl4co.envs.scheduling.jssp.generator import JSSPGenerator
    from rl4co.envs.scheduling.jssp.parser import read

    rng = ctx.rng
    J, M = rng.choice([1, 2, 3, 6]), rng.choice([1, 2, 3, 6])
    src = rng.choice(["generator", "built"])
    ctx.count(f"text:jssp:{src}")
    B = rng.choice([1, 2])
    if src == "generator":
        seed_all(rng.randrange(1 << 30))
        td = JSSPGenerator(num_jobs=J, num_machines=M)([B])
        nmax = J * M
    else:
        mo = rng.choice([1, 2, 4])
        nmax = J * mo
        insts = [build_sched_instance(rng, J, M, mo, "jssp") for _ in range(B)]
        td = sched_td([i[0] for i in insts], [i[1] for i in insts], nmax)
    d = tempfile.mkdtemp(dir=tmp)
    loaded = []
    for b in range(B):
        n_ope = (td["end_op_per_job"][b] - td["start_op_per_job"][b] + 1).tolist()
        total = sum(n_ope)
        pt = td["proc_times"][b, :, :total]
        ma = pt.argmax(0).tolist()
        du = pt.max(0).values.long().tolist()
        r = ask(ctx, [f"gen.jsspwrite {M} | " + " ".join(map(str, n_ope)) + " | " + " ".join(map(str, ma)) + " | " + " ".join(map(str, du))])[0]
        lines = [[int(x) for x in ln.split(",")] if ln else [] for ln in r["lines"].split(";")]
        path = os.path.join(d, f"{b:04d}.txt")
        with open(path, "w") as fh:
            fh.write("\n".join(" ".join(map(str, ln)) for ln in lines))
        tdl, nj, nm, mops = read(path, max_ops=nmax)
        mr = ask(ctx, ["gen.jsspread | " + lines_arg(lines)])[0]
        real_proc = tdl["proc_times"][0, :, :total].long().flatten().tolist()
        if mr["err"] != "0" or (int(mr["nj"]), int(mr["nm"]), ints(mr["nops"]), ints(mr["proc"])) != (nj, nm, n_ope, real_proc):
            ctx.disagreement("jssp: read() vs Gen.Persist.jsspRead", {"lines": lines, "model": mr["_raw"][:300], "real": [nj, nm, real_proc]})
        same = (tdl["proc_times"][0] == td["proc_times"][b]).all() and (tdl["pad_mask"][0] == td["pad_mask"][b]).all() \
            and (tdl["start_op_per_job"][0].long() == td["start_op_per_job"][b]).all() and (tdl["end_op_per_job"][0].long() == td["end_op_per_job"][b]).all()
        if not bool(same):
            V(ctx, "jssp-text-roundtrip-content", "read(write(instance)) differs from the instance", {"lines": lines})
        loaded.append(tdl)
        ctx.sample({"case": "JSSP file (written per Gen.Persist.jsspWrite) → read", "source": src, "lines": lines[:3], "read_back_equal_to_original": bool(same)}, cap=1)
        ctx.case(("jssp-text", tuple(map(tuple, lines))))
    with quiet():
        env = JSSPEnv(generator_params=dict(num_jobs=J, num_machines=M))
    tdl_all = torch.cat(loaded, 0)
    steps = record_episode(env, td, rng)
    try:
        m1, e1 = replay_masks(env, td, steps)
        m2, e2 = replay_masks(env, tdl_all, steps)
        if m1 != m2 or not torch.equal(env.get_reward(e1, None), env.get_reward(e2, None)):
            V(ctx, "jssp-text-roundtrip-behaviour", "masks / reward differ between the original and the re-read instances", {"J": J, "M": M})
    except Exception as e:  # noqa: BLE001
        V(ctx, "jssp-text-roundtrip-behaviour", f"re-read instances cannot be replayed: {type(e).__name__}: {str(e)[:150]}", {"J": J, "M": M})
    with quiet():
        tdf = JSSPEnv.load_data(d, batch_size=[B])
    a = sorted(tuple(x.flatten().tolist()) for x in tdf["proc_times"])
    b_ = sorted(tuple(x.flatten().tolist()) for x in tdl_all["proc_times"][:, :, :tdf["proc_times"].shape[-1]])
    if a != b_:
        V(ctx, "jssp-file-generator-content", "JSSPEnv.load_data returns other instances than the files hold", {"J": J, "M": M})
    shutil.rmtree(d, ignore_errors=True)


def text_malformed(ctx):
    """reader models on arbitrary token files (malformed lines included): error ⇔ error, content equal"""
    from rl4co.envs.scheduling.fjsp.parser import read as fread
    from rl4co.envs.scheduling.jssp.parser import read as jread

    rng = ctx.rng
    tmp = tempfile.mkdtemp(prefix="gen_text_")
    try:
        for it in range(ctx.budget(150, 5000)):
            M = rng.choice([1, 2, 3])
            J = rng.choice([1, 2])
            lines = [[J, M, rng.randrange(3)]]
            fj = rng.random() < 0.5
            for _ in range(J):
                ln = []
                if fj:
                    k = rng.choice([0, 1, 2])
                    ln.append(k)
                    for _o in range(k):
                        c = rng.choice([0, 1, 2])
                        ln.append(c)
                        for _p in range(c):
                            ln += [rng.choice([0, 1, M, M, M + 1]) if rng.random() < 0.3 else rng.randint(1, M), rng.choice([0, 1, 5])]
                    if rng.random() < 0.25 and ln:
                        ln = ln[:-1] if rng.random() < 0.5 else ln + [1]
                else:
                    for _o in range(rng.choice([1, 2, 3])):
                        ln += [rng.choice([0, M + 1]) if rng.random() < 0.15 else rng.randint(1, M), rng.choice([1, 5])]
                    if rng.random() < 0.2:
                        ln = ln[:-1]
                if ln:
                    lines.append(ln)
            path = os.path.join(tmp, "x.txt")
            with open(path, "w") as fh:
                fh.write("\n".join(" ".join(map(str, ln)) for ln in lines))
            try:
                tdl, nj, nm, _ = (fread if fj else jread)(path)
                real = (nj, nm, tdl["proc_times"][0].long().flatten().tolist())
            except Exception:  # noqa: BLE001
                real = None
            mr = ask(ctx, [("gen.fjspread | " if fj else "gen.jsspread | ") + lines_arg(lines)])[0]
            model = None if mr["err"] != "0" else (int(mr["nj"]), int(mr["nm"]), ints(mr["proc"]))
            ctx.count(f"text:malformed:{'fjsp' if fj else 'jssp'}:{'error' if real is None else 'ok'}")
            if real != model:
                # negative durations / max() of an empty job list etc. are outside the token model: only report mismatches on non-empty parses
                ctx.disagreement(f"{'fjsp' if fj else 'jssp'}: read() vs model on a hand-written file", {"lines": lines, "real": real, "model": model})
            ctx.case(("malformed", fj, tuple(map(tuple, lines))))
    finally:
        shutil.rmtree(tmp, ignore_errors=True)


def run_text(ctx):
    tmp = tempfile.mkdtemp(prefix="gen_text_")
    try:
        for it in range(ctx.budget(60, 1500)):
            guarded(ctx, "fjsp-text" if it % 2 == 0 else "jssp-text", text_fjsp if it % 2 == 0 else text_jssp, tmp)
    finally:
        shutil.rmtree(tmp, ignore_errors=True)
    text_malformed(ctx)


# =================================================================================================
# C19 gen_npz: npz save/load, env loaders, generated dataset files
# =================================================================================================

def td_equal(a, b):
    if set(a.keys()) != set(b.keys()):
        return f"keys {sorted(a.keys())} vs {sorted(b.keys())}"
    for k in a.keys():
        x, y = a[k], b[k]
        if x.dtype != y.dtype:
            return f"dtype of {k}: {x.dtype} vs {y.dtype}"
        if tuple(x.shape) != tuple(y.shape):
            return f"shape of {k}: {tuple(x.shape)} vs {tuple(y.shape)}"
        if not torch.equal(x, y) and not (x.dtype.is_floating_point and torch.equal(torch.nan_to_num(x, 7.0, 8.0, 9.0), torch.nan_to_num(y, 7.0, 8.0, 9.0))):
            return f"values of {k}"
    return None


def run_npz(ctx):
    guarded(ctx, "dataset-writer-history", history_dataset_writers)
    from rl4co.data.utils import load_npz_to_tensordict, save_tensordict_to_npz
    from rl4co.data.generate_data import generate_dataset, generate_env_data

    rng = ctx.rng
    cat = G.env_catalogue()
    tmp = tempfile.mkdtemp(prefix="gen_npz_")
    try:
        # 1. generator output → save → load (generic container) and → env.load_data (env-specific loader), all envs
        for name in cat:
            for gp in SOLV_PARAMS[name][: (1 if ctx.tier == "quick" else 3)]:
                seed = rng.randrange(1 << 30)
                seed_all(seed)
                env = cat[name](**gp)
                B = rng.choice([1, 2, 5])
                try:
                    with quiet():
                        td = env.generator([B])
                except RuntimeError:
                    ctx.count("npz:generator-raised")
                    continue
                path = os.path.join(tmp, f"{name}.npz")
                compress = rng.random() < 0.5
                save_tensordict_to_npz(td, path, compress=compress)
                back = load_npz_to_tensordict(path)
                diff = td_equal(td, back)
                # container model: key order and the batch size derived from the first stored array (`Persist.npzBatch`)
                mb = ask(ctx, ["gen.npzbatch | " + " | ".join(" ".join(map(str, td[k].shape)) for k in td.keys())])[0]
                if mb.get("err") != "0" or int(mb["batch"]) != back.batch_size[0] or list(back.keys()) != list(td.keys()):
                    ctx.disagreement("npz: batch size / key order vs Gen.Persist.npzLoad", {"env": name, "model": mb["_raw"], "real": list(back.batch_size),
                                                                                            "keys": [list(td.keys()), list(back.keys())]})
                if diff or tuple(back.batch_size) != (B,):
                    V(ctx, f"npz-roundtrip-{name}", f"save_tensordict_to_npz → load_npz_to_tensordict changes the instance: {diff}",
                                  {"env": name, "generator_params": gp, "seed": seed})
                ctx.count(f"npz:{name}:{'compressed' if compress else 'plain'}")
                # the same instance in every storable dtype (float64 coordinates / windows beyond float32 precision, float16,
                # integer and bool entries), through BOTH storage modes: "same instance content" includes the dtype
                for compress2 in (False, True):
                    for fdt in (torch.float64, torch.float16):
                        td2 = td.clone()
                        for k in list(td2.keys()):
                            v = td2[k]
                            if v.dtype.is_floating_point:
                                w = v.to(fdt)
                                if fdt == torch.float64:
                                    w = torch.where(torch.isfinite(w), w * 100000001.0 + (1.0 / 3.0), w)  # not float32-representable
                                td2.set(k, w)
                            elif v.dtype == torch.int64 and rng.random() < 0.5:
                                td2.set(k, v.to(rng.choice([torch.int32, torch.int16, torch.uint8])))
                        path2 = os.path.join(tmp, f"{name}_dtypes.npz")
                        save_tensordict_to_npz(td2, path2, compress=compress2)
                        diff2 = td_equal(td2, load_npz_to_tensordict(path2))
                        ctx.count(f"npz-dtypes:{str(fdt).split('.')[-1]}:{'compressed' if compress2 else 'plain'}")
                        ctx.case(("npz-dtypes", name, seed, compress2, str(fdt)))
                        if diff2:
                            V(ctx, f"npz-roundtrip-dtypes-{'compressed' if compress2 else 'plain'}",
                              f"save_tensordict_to_npz(compress={compress2}) → load_npz_to_tensordict changes a {fdt} instance: {diff2}",
                              {"env": name, "generator_params": gp, "seed": seed, "float_dtype": str(fdt), "compress": compress2})
                if name in ("cvrptw", "mtvrp"):
                    ctx.sample({"case": "generator batch → save_tensordict_to_npz → load_npz_to_tensordict", "env": name, "generator_params": gp, "B": B,
                                "compress": compress, "compared": "keys, dtypes, shapes, bit-equal values, batch_size", "difference": diff}, cap=2)
                ctx.case(("npz", name, seed))
                if name in ("fjsp", "jssp"):
                    continue  # their loaders read text directories (gen_text)
                try:
                    with quiet():
                        viaenv = env.load_data(path)
                    diff = td_equal(td, viaenv)
                except Exception as e:  # noqa: BLE001
                    diff = f"raises {type(e).__name__}: {str(e)[:100]}"
                if diff:
                    kind = ("demand-shape-B-B-n" if diff == f"shape of demand: {(B, gp.get('num_loc'))} vs {(B, B, gp.get('num_loc'))}"
                            else "demand-values" if diff == "values of demand" else "other")
                    key = f"{name}-load-data-changes-generator-output:{kind}"
                    V(ctx, key, f"{type(env).__name__}.load_data on a saved generator batch does not give the batch back: {diff}",
                                  {"env": name, "generator_params": gp, "seed": seed, "B": B})
                    continue
                steps = record_episode(env, td, rng)
                m1, e1 = replay_masks(env, td, steps)
                m2, e2 = replay_masks(env, viaenv, steps)
                if m1 != m2:
                    V(ctx, f"npz-behaviour-{name}", "masks differ between the original and the re-loaded batch", {"env": name, "seed": seed})
        # 2. generate_data files → env loaders; CVRP normalisation vs Gen.Persist.loadDemand
        probs = [("tsp", "tsp", None), ("vrp", "cvrp", None), ("pctsp", "pctsp", None), ("op", "op", "dist"), ("op", "op", "const"),
                 ("op", "op", "unif"), ("pdp", "pdp", None), ("atsp", "atsp", None)]
        for prob, envname, dist in probs:
            for size in ([20] if ctx.tier == "quick" else [20, 50]):
                seed = rng.randrange(1 << 20)
                fn = os.path.join(tmp, f"{prob}_{dist}_{size}.npz")
                with quiet():
                    generate_dataset(filename=fn, problem=prob, data_distribution=dist or "all", dataset_size=7, graph_sizes=[size],
                                     seed=seed, overwrite=True)
                np.random.seed(seed)
                ref = generate_env_data(prob, 7, size, dist)
                env = cat[envname](num_loc=size)
                with quiet():
                    td = env.load_data(fn)
                ctx.count(f"npz:generate_data:{prob}{'_' + dist if dist else ''}")
                for k, v in ref.items():
                    got = td[k]
                    exp = torch.from_numpy(v)
                    if prob == "vrp" and k == "demand":
                        cap = float(ref["capacity"][0])
                        mr = ask(ctx, [f"gen.loaddemand {int(cap)} 1 | " + " ".join(str(int(x)) for x in v[0])])[0]
                        model = [float(np.float32(Fraction(*map(int, t.split("/"))).numerator) / np.float32(Fraction(*map(int, t.split("/"))).denominator))
                                 for t in mr["demand"].split(",")]
                        modelq = [float(np.float32(int(x)) / np.float32(cap)) for x in v[0]]
                        if got[0].tolist() != modelq or any(abs(a - b) > 1e-7 for a, b in zip(model, modelq)):
                            ctx.disagreement("cvrp: load_data demand vs Gen.Persist.loadDemand", {"real": got[0].tolist()[:5], "model": model[:5]})
                        if bool((got > 1).any()) or bool((got <= 0).any()):
                            V(ctx, "cvrp-dataset-demand-above-capacity", "loaded dataset demand outside (0, 1]", {"size": size})
                        continue
                    if tuple(got.shape) != tuple(exp.shape) or not torch.equal(got, exp):
                        V(ctx, f"dataset-file-content-{prob}", f"field {k} read back by {type(env).__name__}.load_data differs from what generate_data wrote",
                                      {"problem": prob, "size": size, "seed": seed})
                # loaded dataset is usable: episode completes
                with quiet():
                    st, steps_, row = run_episode_any(env, td[:3], lambda r, t, f: rng.choice(f), 2000)
                if st != "done":
                    V(ctx, f"dataset-file-episode-{prob}", f"episode on a loaded {prob} dataset: {st}", {"problem": prob, "size": size})
                ctx.case(("gendata", prob, dist, size, seed))
        # 2b. datasets whose rows carry different capacities (two chunks with different tables, concatenated): the loaders must
        #     normalise every row by its own capacity
        from rl4co.data.generate_data import generate_vrp_data
        for rep in range(ctx.budget(2, 10)):
            size = rng.choice([10, 20])
            np.random.seed(rng.randrange(1 << 30))
            c1, c2 = rng.sample([16.0, 20.0, 30.0, 40.0, 64.0], 2)
            with quiet():
                parts = [generate_vrp_data(rng.choice([1, 2, 3]), size, capacities={size: c1}), generate_vrp_data(rng.choice([1, 2]), size, capacities={size: c2})]
            if rng.random() < 0.5:
                parts.reverse()
            ds = {k: np.concatenate([p_[k] for p_ in parts], 0) for k in parts[0]}
            fn = os.path.join(tmp, f"vrp_mixed_{rep}.npz")
            np.savez(fn, **ds)
            with quiet():
                td = cat["cvrp"](num_loc=size).load_data(fn)
            # the whole file through the Lean loader model (`Persist.loadRows`: every row by its own capacity)
            whole = ask(ctx, ["gen.loadrows | " + " | ".join(f"{int(ds['capacity'][r_])} 1 " + " ".join(str(int(x)) for x in ds["demand"][r_])
                                                            for r_ in range(len(ds["capacity"])))])[0]
            for r_, row_txt in enumerate(whole["rows"].split(";")):
                model = [Fraction(*map(int, t.split("/"))) for t in row_txt.split(",")]
                exp = [float(np.float32(m.numerator) / np.float32(m.denominator)) if m.denominator != 1 else float(m) for m in model]
                exp = [float(np.float32(int(x)) / np.float32(ds["capacity"][r_])) for x in ds["demand"][r_]]
                real = td["demand"][r_].tolist() if td["demand"].dim() == 2 else None
                if real is None or any(abs(a_ - float(m)) > 1e-6 for a_, m in zip(real, model)):
                    V(ctx, "cvrp-load-data-per-row-capacity", f"CVRPEnv.load_data: row {r_} (capacity {ds['capacity'][r_]}) is not demand / its own capacity "
                      f"(capacities in the file: {sorted(set(ds['capacity'].tolist()))})",
                      {"size": size, "capacities": ds["capacity"].tolist(), "row": r_, "raw": ds["demand"][r_].tolist()[:5], "loaded": (real or [])[:5],
                       "model": [float(m) for m in model[:5]]})
                    break
                if real != exp:
                    ctx.disagreement("cvrp: load_data demand (per-row capacity) vs float32(d)/float32(cap)", {"row": r_})
            ctx.count("npz:vrp-mixed-capacities")
            ctx.sample({"case": "dataset file with per-row capacities → CVRPEnv.load_data", "capacity": ds["capacity"].tolist(), "raw_demand_row0": ds["demand"][0].tolist()[:4],
                        "loaded_row0": td["demand"][0].flatten().tolist()[:4], "model": "Gen.Persist.loadDemand: d / capacity of the same row"}, cap=1)
            ctx.case(("vrp-mixed", size, c1, c2, rep))
            # MTVRP: unscaled generator batches with different capacities, saved with the generator's own `save_data`, loaded with scale=True / False
            from rl4co.envs.routing.mtvrp.generator import MTVRPGenerator
            seed_all(rng.randrange(1 << 30))
            with quiet():
                tds = [MTVRPGenerator(num_loc=size, variant_preset="all", scale_demand=False, capacity=c_)([rng.choice([1, 2])]) for c_ in (c1, c2)]
            tdm = torch.cat(tds, 0)
            fn2 = os.path.join(tmp, f"mtvrp_mixed_{rep}.npz")
            MTVRPGenerator.save_data(tdm, fn2)
            envm = cat["mtvrp"](num_loc=size, variant_preset="all")
            with quiet():
                raw_back = envm.load_data(fn2)
                scaled = envm.load_data(fn2, scale=True)
            d_ = td_equal(tdm, raw_back)
            if d_:
                V(ctx, "mtvrp-load-data-changes-batch", f"MTVRPEnv.load_data(scale=False) changes a saved batch: {d_}", {"size": size})
            for key in ("demand_linehaul", "demand_backhaul"):
                exp = tdm[key] / tdm["capacity_original"]
                if tuple(scaled[key].shape) != tuple(exp.shape) or not torch.equal(scaled[key], exp):
                    V(ctx, "mtvrp-load-data-per-row-capacity", f"MTVRPEnv.load_data(scale=True): {key} is not demand / capacity_original of the same row",
                      {"size": size, "capacities": tdm["capacity_original"].flatten().tolist()})
            ctx.count("npz:mtvrp-mixed-capacities")
            ctx.case(("mtvrp-mixed", size, c1, c2, rep))
        # 3. shipped dataset files under /repo/data
        droot = os.path.join(rl.REPO if hasattr(rl, "REPO") else "/repo", "data")
        envof = {"tsp": "tsp", "vrp": "cvrp", "pctsp": "pctsp", "op": "op", "pdp": "pdp", "atsp": "atsp"}
        if os.path.isdir(droot):
            for prob in sorted(os.listdir(droot)):
                pdir = os.path.join(droot, prob)
                if prob not in envof or not os.path.isdir(pdir):
                    continue
                for fn in sorted(os.listdir(pdir)):
                    if not fn.endswith(".npz"):
                        continue
                    full = os.path.join(pdir, fn)
                    if os.path.getsize(full) > 40e6 and ctx.tier == "quick":
                        ctx.count("npz:shipped:skipped-large")
                        continue
                    size = int("".join(c for c in fn.split("_")[0 if prob != "op" else 1] if c.isdigit()))
                    env = cat[envof[prob]](num_loc=size)
                    with quiet():
                        td = env.load_data(full)
                    raw = np.load(full)
                    ok = set(td.keys()) == set(raw.files) and all(td[k].shape[0] == raw[k].shape[0] for k in raw.files)
                    if not ok:
                        V(ctx, "shipped-dataset-keys", f"{fn}: keys/sizes change on load", {"file": fn})
                    if prob == "vrp" and (bool((td["demand"] > 1).any()) or bool((td["demand"] <= 0).any())):
                        V(ctx, "cvrp-dataset-demand-above-capacity", f"{fn}: normalised demand outside (0,1]", {"file": fn})
                    with quiet():
                        st, steps_, row = run_episode_any(env, td[:2], lambda r, t, f: rng.choice(f), 4000)
                    if st != "done":
                        V(ctx, "shipped-dataset-episode", f"{fn}: episode {st}", {"file": fn})
                    ctx.count(f"npz:shipped:{prob}")
                    ctx.case(("shipped", fn))
    finally:
        shutil.rmtree(tmp, ignore_errors=True)


# =================================================================================================
# C19 gen_pickle: deepcopy / pickle of environments
# =================================================================================================

def deep_diff(a, b, path="", depth=0, skip=()):
    """first difference between two attribute structures (None if equal): scalars / strings by value, tensors by dtype, shape and
    value, containers element-wise, other objects by type and (recursively, bounded) by their `__dict__`"""
    if depth > 4:
        return None
    if type(a) is not type(b):
        return f"{path}: type {type(a).__name__} vs {type(b).__name__}"
    if isinstance(a, (int, float, str, bool, type(None), torch.dtype, torch.Size)):
        return None if a == b or (isinstance(a, float) and a != a and b != b) else f"{path}: {a!r} vs {b!r}"
    if torch.is_tensor(a):
        return None if a.dtype == b.dtype and a.shape == b.shape and torch.equal(a, b) else f"{path}: tensor differs"
    if isinstance(a, dict):
        if set(map(str, a.keys())) != set(map(str, b.keys())):
            return f"{path}: keys {sorted(set(map(str, a)) ^ set(map(str, b)))[:4]}"
        for k in a:
            if k in skip:
                continue
            d = deep_diff(a[k], b[k], f"{path}.{k}", depth + 1)
            if d:
                return d
        return None
    if isinstance(a, (list, tuple)):
        if len(a) != len(b):
            return f"{path}: length {len(a)} vs {len(b)}"
        for j, (x, y) in enumerate(zip(a, b)):
            d = deep_diff(x, y, f"{path}[{j}]", depth + 1)
            if d:
                return d
        return None
    if isinstance(a, torch.Generator):
        return None if torch.equal(a.get_state(), b.get_state()) else f"{path}: generator state differs"
    if hasattr(a, "__dict__") and not callable(a):
        return deep_diff({k: v for k, v in vars(a).items() if not k.startswith("__")}, {k: v for k, v in vars(b).items() if not k.startswith("__")},
                         path + "<" + type(a).__name__ + ">", depth + 1)
    return None


def run_pickle(ctx):
    rng = ctx.rng
    cat = G.env_catalogue()
    for name in cat:
        for gp in SOLV_PARAMS[name][: (1 if ctx.tier == "quick" else 2)]:
            seed = rng.randrange(1 << 30)
            seed_all(seed)
            with quiet():
                env = cat[name](**gp)
            try:
                with quiet():
                    td = env.generator([3])
            except RuntimeError:
                continue
            steps = record_episode(env, td, rng)
            m0, e0 = replay_masks(env, td, steps)
            r0 = None
            try:
                acts = torch.tensor(steps, dtype=torch.long).T if steps else None
                r0 = env.get_reward(e0, acts)
            except Exception:  # noqa: BLE001
                r0 = None
            for how in ("deepcopy", "pickle"):
                g_before = torch.get_rng_state()
                blob_state = env.rng.get_state().clone()
                try:
                    if how == "deepcopy":
                        env2 = copy.deepcopy(env)
                    else:
                        blob = pickle.dumps(env)
                        torch.rand(3)  # advance the global generator between dump and load
                        env2 = pickle.loads(blob)
                except Exception as e:  # noqa: BLE001
                    V(ctx, f"env-{how}-raises", f"{how} of {type(env).__name__} raises {type(e).__name__}: {str(e)[:150]}", {"env": name, "generator_params": gp})
                    continue
                if not torch.equal(env2.rng.get_state(), blob_state):
                    V(ctx, f"env-{how}-rng-state", "the copy's generator state differs from the state at copy time", {"env": name})
                if how == "pickle" and not torch.equal(torch.get_rng_state(), blob_state):
                    ctx.count("pickle:global-rng-not-rewound")
                elif how == "pickle":
                    ctx.count("pickle:unpickling-rewinds-torch-global-rng")
                # model: setstate (getstate e) = e on the plain attributes
                # `state = self.__dict__.copy()`: EVERY attribute is state — compared recursively (tensors by value, objects by type + __dict__)
                dd = deep_diff(env.__dict__, env2.__dict__, skip=("rng",))
                if dd:
                    V(ctx, f"env-{how}-attributes", f"attribute dictionary of the copy differs at {dd}", {"env": name, "generator_params": gp})
                ga = {k: v for k, v in env.generator.__dict__.items() if isinstance(v, (int, float, str, bool, type(None)))}
                gb = {k: v for k, v in env2.generator.__dict__.items() if isinstance(v, (int, float, str, bool, type(None)))}
                if ga != gb:
                    V(ctx, f"env-{how}-generator-params", "generator parameters of the copy differ", {"env": name})
                try:
                    m1, e1 = replay_masks(env2, td, steps)
                    r1 = env2.get_reward(e1, acts) if r0 is not None else None
                except Exception as e:  # noqa: BLE001
                    V(ctx, f"env-{how}-replay-raises", f"copy cannot replay the episode: {type(e).__name__}: {str(e)[:120]}", {"env": name})
                    continue
                if m0 != m1 or (r0 is not None and not torch.equal(r0, r1)):
                    V(ctx, f"env-{how}-behaviour", "masks / reward of the copy differ along the same action list", {"env": name, "generator_params": gp, "seed": seed})
                # same draws after the copy: generator(B) under the same global seed
                seed_all(seed + 1)
                with quiet():
                    a = env.generator([2])
                seed_all(seed + 1)
                with quiet():
                    b = env2.generator([2])
                if td_equal(a, b):
                    V(ctx, f"env-{how}-generator-output", "original and copy generate different batches from the same seed", {"env": name})
                ctx.count(f"pickle:{how}:{name}")
                if name in ("cvrp", "fjsp"):
                    ctx.sample({"case": f"{how} of an environment", "env": name, "generator_params": gp, "steps_replayed": len(steps),
                                "compared": ["rng state", "plain attributes", "generator params", "masks along the action list", "reward", "generator output under same seed"]}, cap=3)
                ctx.case((how, name, seed, len(steps)))


# =================================================================================================
# C19 gen_ckpt: Lightning checkpoints of REINFORCE × {no, exponential, rollout, critic}
# =================================================================================================

def sd_equal(a, b):
    """state dicts equal key by key; returns a description of the first difference"""
    if set(a) != set(b):
        return f"keys differ: only in original {sorted(set(a) - set(b))[:3]}, only in restored {sorted(set(b) - set(a))[:3]}"
    for k in a:
        if a[k].shape != b[k].shape or not torch.equal(a[k], b[k]):
            return f"tensor {k} differs"
    return None


def run_ckpt(ctx):
    import warnings

    warnings.filterwarnings("ignore")
    from rl4co.envs import TSPEnv, CVRPEnv
    from rl4co.models import AttentionModelPolicy
    from rl4co.models.rl.common.critic import CriticNetwork
    from rl4co.models.rl.reinforce.baselines import CriticBaseline
    from rl4co.models.rl.reinforce.reinforce import REINFORCE
    from rl4co.utils.trainer import RL4COTrainer

    rng = ctx.rng
    out = tempfile.mkdtemp(prefix="gen_ckpt_")
    # (baseline, baseline_kwargs, epochs): `bl_alpha = 0` never replaces the rollout baseline's policy, so after training it
    # differs from the actor; `n_epochs = 3` leaves the warm-up weight strictly between 0 and 1 after 2 epochs
    kinds = [("no", {}, 2), ("exponential", {"beta": 0.5}, 2), ("rollout", {"bl_alpha": 0.0}, 3), ("critic", {}, 2),
             ("warmup", {"n_epochs": 3, "bl_alpha": 0.0}, 2)]
    # (`rollout_only` cannot be trained at all: RL4COLitModule.setup wraps the dataset before the baseline's own setup created its policy)
    try:
        combos = [("tsp", k) for k in kinds]
        if ctx.tier != "quick":
            # ("shared" needs a multi-start reward [B, starts]: it belongs to POMO, not to plain REINFORCE — not a legal combination here)
            combos += [("cvrp", k) for k in kinds] + [("tsp", ("rollout", {}, 2)), ("tsp", ("mean", {}, 2))]
        def one(ctx, envname, bl, blkw, epochs):
            seed = rng.randrange(1 << 30)
            seed_all(seed)
            hp = dict(batch_size=rng.choice([4, 8]), val_batch_size=8, test_batch_size=8, train_data_size=16, val_data_size=8, test_data_size=8,
                      optimizer_kwargs={"lr": rng.choice([1e-3, 5e-3])})
            num_loc = rng.choice([5, 6, 7])
            witness = {"env": envname, "num_loc": num_loc, "baseline": bl, "baseline_kwargs": blkw, "epochs": epochs, "seed": seed, "torch": torch.__version__}
            try:
                with quiet():
                    env = (TSPEnv if envname == "tsp" else CVRPEnv)(generator_params=dict(num_loc=num_loc))
                    policy = AttentionModelPolicy(env_name=envname, embed_dim=16, num_encoder_layers=1, num_heads=2, feedforward_hidden=16)
                    baseline = bl
                    if bl == "critic":
                        baseline = CriticBaseline(CriticNetwork(copy.deepcopy(policy.encoder), embed_dim=16, hidden_dim=16))
                    model = REINFORCE(env, policy, baseline=baseline, baseline_kwargs=blkw if isinstance(baseline, str) else {}, **hp)
                    # pinned trainer: CPU, one device, full precision (RL4COTrainer defaults to "16-mixed"), fixed clipping, no logger / bars
                    tr = RL4COTrainer(max_epochs=epochs, accelerator="cpu", devices=1, precision="32-true", gradient_clip_val=1.0, logger=False,
                                      enable_checkpointing=False, enable_progress_bar=False, enable_model_summary=False, default_root_dir=out,
                                      num_sanity_val_steps=0, matmul_precision=None)
                    tr.fit(model)
                    path = os.path.join(out, f"{envname}_{bl}.ckpt")
                    tr.save_checkpoint(path)
            except Exception as e:  # noqa: BLE001  — a legal model/baseline combination that cannot be trained or saved
                import traceback
                where = [ln.strip() for ln in traceback.format_exc().splitlines() if "/rl4co/" in ln][-2:]
                V(ctx, f"ckpt-train-or-save-raises:{bl}:{type(e).__name__}", f"REINFORCE(baseline={bl!r}) cannot be trained / checkpointed: "
                  f"{type(e).__name__}: {str(e)[:160]}", dict(witness, where=where))
                return
            td = env.reset(env.generator([5]))
            model.policy.eval()
            with torch.no_grad():
                o1 = model.policy(td.clone(), env, decode_type="greedy")
            ctx.count(f"ckpt:{bl}")
            # (a) the public API as is
            loaded = None
            try:
                with quiet():
                    loaded = REINFORCE.load_from_checkpoint(path)
                ctx.count(f"ckpt:{bl}:load-ok")
            except Exception as e:  # noqa: BLE001
                ctx.count(f"ckpt:{bl}:load-raises")
                V(ctx, f"ckpt-load-from-checkpoint-raises:{type(e).__name__}:{'weights-only' if 'Weights only load failed' in str(e) else 'other'}",
                              f"REINFORCE.load_from_checkpoint(path) raises {type(e).__name__} (baseline={bl}): torch.load defaults to weights_only=True "
                              f"while the checkpoint pickles env/policy hyper-parameters", witness)
            # (b) with torch.load forced to weights_only=False (what the code relied on before torch 2.6)
            if loaded is None:
                _orig = torch.load
                torch.load = lambda *a, **k: _orig(*a, **{**k, "weights_only": False})
                try:
                    with quiet():
                        loaded = REINFORCE.load_from_checkpoint(path)
                except Exception as e:  # noqa: BLE001
                    V(ctx, "ckpt-load-raises-even-unpickling-allowed", f"{type(e).__name__}: {str(e)[:150]}", witness)
                finally:
                    torch.load = _orig
            if loaded is None:
                return
            # --- actor
            loaded.policy.eval()
            with torch.no_grad():
                o2 = loaded.policy(td.clone(), loaded.env, decode_type="greedy")
            if not torch.equal(o1["actions"], o2["actions"]) or not torch.equal(o1["reward"], o2["reward"]):
                V(ctx, "ckpt-policy-differs", "restored policy gives other greedy solutions / rewards", witness)
            diff = sd_equal(model.policy.state_dict(), loaded.policy.state_dict())
            if diff:
                V(ctx, "ckpt-policy-weights-differ", f"restored policy weights differ: {diff}", witness)
            # --- every module parameter / buffer of the baseline (rollout policy, critic): saved vs restored
            sd_b1, sd_b2 = model.baseline.state_dict(), loaded.baseline.state_dict()
            diff = sd_equal(sd_b1, sd_b2)
            actor_ne_baseline = None
            inner1, inner2 = model.baseline, loaded.baseline
            while hasattr(inner1, "baseline") and hasattr(inner2, "baseline"):   # unwrap WarmupBaseline (possibly nested)
                inner1, inner2 = inner1.baseline, inner2.baseline
            if hasattr(inner1, "policy"):
                actor_ne_baseline = sd_equal(model.policy.state_dict(), inner1.policy.state_dict()) is not None
                ctx.count(f"ckpt:{bl}:saved-baseline-policy-{'differs-from' if actor_ne_baseline else 'equals'}-actor")
                inner1.policy.eval(); inner2.policy.eval()
                with torch.no_grad():
                    g1 = inner1.policy(td.clone(), env, decode_type="greedy")
                    g2 = inner2.policy(td.clone(), loaded.env, decode_type="greedy")
                if not torch.equal(g1["actions"], g2["actions"]) or not torch.equal(g1["reward"], g2["reward"]):
                    V(ctx, f"ckpt-baseline-policy-differs:{bl}", "the restored baseline policy gives other greedy solutions than the saved baseline policy"
                      + (" (it equals the restored actor)" if torch.equal(g2["actions"], o2["actions"]) and not torch.equal(g1["actions"], o1["actions"]) else ""), witness)
            if diff:
                V(ctx, f"ckpt-baseline-weights-differ:{bl}", f"state_dict of the restored baseline differs from the saved one: {diff}", witness)
            # --- hyper-parameters that do not live in tensors
            h1 = {k: v for k, v in dict(model.hparams).items() if isinstance(v, (int, float, str, bool, dict, type(None)))}
            h2 = {k: v for k, v in dict(loaded.hparams).items() if isinstance(v, (int, float, str, bool, dict, type(None)))}
            if h1 != h2 or model.data_cfg != loaded.data_cfg:
                V(ctx, "ckpt-hparams-differ", f"restored hyper-parameters differ: {[k for k in h1 if h1.get(k) != h2.get(k)][:4]}", witness)
            ga = {k: v for k, v in env.generator.__dict__.items() if isinstance(v, (int, float, str, bool, type(None)))}
            gb = {k: v for k, v in loaded.env.generator.__dict__.items() if isinstance(v, (int, float, str, bool, type(None)))}
            if ga != gb or type(loaded.env) is not type(env):
                V(ctx, "ckpt-env-differs", "restored environment / generator parameters differ", witness)
            for attr in ("train_decode_type", "val_decode_type", "test_decode_type"):
                if getattr(model.policy, attr, None) != getattr(loaded.policy, attr, None):
                    V(ctx, "ckpt-policy-decode-type-differs", f"{attr} differs after restore", witness)
            # --- baseline: what it computes on the same (state, reward) — scalars `v`, `alpha`, … included
            td2 = env.reset(env.generator([5]))
            rew = o1["reward"].clone()
            try:
                b1 = copy.deepcopy(model.baseline)
                b2 = copy.deepcopy(loaded.baseline)
                seed_all(12345)  # the rollout baseline's `eval` decodes by sampling
                v1, _ = b1.eval(td2.clone(), rew, env)
                seed_all(12345)
                v2, _ = b2.eval(td2.clone(), rew, loaded.env)
                v1 = torch.as_tensor(v1, dtype=torch.float32).flatten()
                v2 = torch.as_tensor(v2, dtype=torch.float32).flatten()
                if v1.shape != v2.shape or not torch.allclose(v1, v2, atol=1e-6):
                    state = {k: (str(getattr(model.baseline, k, None))[:40], str(getattr(loaded.baseline, k, None))[:40]) for k in ("v", "alpha")
                             if hasattr(model.baseline, k)}
                    V(ctx, f"ckpt-baseline-state-not-restored:{bl}",
                                  f"baseline '{bl}' evaluates differently after restore (original {v1[:2].tolist()}, restored {v2[:2].tolist()}); "
                                  f"plain attributes (original, restored): {state}", witness)
            except Exception as e:  # noqa: BLE001
                V(ctx, f"ckpt-baseline-eval-raises:{bl}", f"{type(e).__name__}: {str(e)[:150]}", witness)
            ctx.sample({"case": "Lightning checkpoint save → REINFORCE.load_from_checkpoint", "env": envname, "num_loc": num_loc, "baseline": bl,
                        "baseline_kwargs": blkw, "epochs": epochs, "compared": ["greedy actions/rewards of the actor", "actor state_dict",
                        "baseline state_dict", "baseline policy greedy actions", "hparams/data_cfg/env generator", "baseline.eval(td, reward)"],
                        "saved_baseline_policy_differs_from_actor": actor_ne_baseline, "greedy_reward": [round(x, 4) for x in o1["reward"][:2].tolist()]}, cap=2)
            ctx.case(("ckpt", envname, bl, seed))

        for envname, (bl, blkw, epochs) in combos:
            guarded(ctx, f"ckpt[{envname},{bl}]", one, envname, bl, blkw, epochs)
    finally:
        shutil.rmtree(out, ignore_errors=True)


# =================================================================================================
# C19 gen_policy_ckpt: weights-only round trips of every bundled constructive policy, warm starts
# =================================================================================================

def walk_params(module):
    """every nn.Parameter reachable from the object graph of `module`: through registered sub-modules AND through plain
    attributes (dicts / lists / tuples / sets held in a module's `__dict__`) — yields (attribute path, parameter)"""
    import torch.nn as nn

    seen = set()

    def rec(obj, path, depth):
        if depth > 40 or id(obj) in seen:
            return
        seen.add(id(obj))
        if isinstance(obj, nn.Parameter):
            yield path, obj
        elif isinstance(obj, nn.Module):
            for k, v in obj._parameters.items():
                if v is not None:
                    yield f"{path}.{k}", v
            for k, v in obj._modules.items():
                if v is not None:
                    yield from rec(v, f"{path}.{k}", depth + 1)
            for k, v in vars(obj).items():
                if k not in ("_parameters", "_buffers", "_modules") and not k.startswith("_forward") and not k.startswith("_backward") \
                        and not k.startswith("_state_dict") and not k.startswith("_load_state_dict"):
                    yield from rec(v, f"{path}.{k}", depth + 1)
        elif isinstance(obj, dict):
            for k, v in obj.items():
                yield from rec(v, f"{path}[{k!r}]", depth + 1)
        elif isinstance(obj, (list, tuple, set)):
            for j, v in enumerate(obj):
                yield from rec(v, f"{path}[{j}]", depth + 1)
    yield from rec(module, "policy", 0)


def perturb_policy(policy, gen_seed, only_unregistered=None):
    """every parameter in state_dict, and every nn.Parameter found by walking the object graph, gets a deterministic non-initial
    value; returns the attribute paths of parameters that are NOT in state_dict().  `only_unregistered=True/False` restricts the
    perturbation to the unregistered / registered ones."""
    g = torch.Generator().manual_seed(gen_seed)
    sd_ptrs = {v.data_ptr() for v in policy.state_dict().values() if torch.is_tensor(v)}
    missing = []
    with torch.no_grad():
        done = set()
        for path, prm in walk_params(policy):
            if prm.data_ptr() in done or prm.numel() == 0:
                continue
            done.add(prm.data_ptr())
            unreg = prm.data_ptr() not in sd_ptrs
            if unreg:
                missing.append(path)
            if prm.is_floating_point() and (only_unregistered is None or only_unregistered == unreg):
                prm.add_((0.5 if unreg else 0.05) * torch.randn(prm.shape, generator=g))
    return missing


def greedy_out(policy, env, td, seed=777):
    policy.eval()
    seed_all(seed)   # random init embeddings (MatNet), noisy gating (MVMoE) …: same stream before every forward
    with torch.no_grad():
        out = policy(td.clone(), env, phase="test", decode_type="greedy", return_actions=True)
    ll = out.get("log_likelihood")
    return out["actions"], out["reward"], ll


def same_out(a, b):
    if a[0].shape != b[0].shape or not torch.equal(a[0], b[0]):
        return "greedy actions differ"
    if not torch.allclose(a[1], b[1], atol=1e-6):
        return "rewards differ"
    if a[2] is not None and b[2] is not None and not torch.allclose(a[2], b[2], atol=1e-5):
        return f"log-likelihoods differ (max |Δ| {float((a[2] - b[2]).abs().max()):.3g})"
    return None


def policy_roundtrips(ctx):
    import aug_zoo
    from rl4co.models.rl.reinforce.reinforce import REINFORCE
    from rl4co.utils.trainer import RL4COTrainer

    rng = ctx.rng
    tmp = tempfile.mkdtemp(prefix="gen_polckpt_")
    try:
        zoo = [(name, build, envs) for name, build, envs, _ in aug_zoo.ZOO if name not in ("nargnn",)]   # (nargnn needs torch_geometric)
        lightning_for = set(rng.sample([z[0] for z in zoo], 3)) if ctx.tier == "quick" else {z[0] for z in zoo}
        for name, build, envs in zoo:
            for envname in (envs[:1] if ctx.tier == "quick" else envs[:3]):
                seed = rng.randrange(1 << 30)
                witness = {"policy": name, "env": envname, "seed": seed}
                try:
                    with quiet():
                        seed_all(seed)
                        env = aug_zoo.make_env(envname)
                        pol = build(envname)
                        td = env.reset(env.generator([4]))
                        missing = perturb_policy(pol, seed % 1000, only_unregistered=False)
                        o_reg = greedy_out(pol, env, td)
                        perturb_policy(pol, seed % 1000 + 1, only_unregistered=True)
                        o1 = greedy_out(pol, env, td)
                        live = bool(missing) and same_out(o_reg, o1) is not None   # do the unregistered parameters take part in the forward pass?
                except Exception as e:  # noqa: BLE001
                    ctx.count(f"policy-ckpt:{name}:{envname}:unavailable({type(e).__name__})")
                    continue
                ctx.count(f"policy-ckpt:{name}:{envname}")
                for path in missing:
                    if live:
                        V(ctx, f"ckpt:parameter-not-in-state-dict:{name}:{path}",
                          f"{type(pol).__name__}: the nn.Parameter at `{path}` is reachable from the policy and changes its output, but is absent from "
                          f"state_dict() — it is neither saved nor restored (nor optimised)", witness)
                    else:   # dead weight: unregistered, but the forward pass does not read it (changing it leaves actions / reward / log-likelihood unchanged)
                        ctx.count(f"policy-ckpt:{name}:unregistered-parameter-not-used-by-forward")
                        ctx.note(f"{type(pol).__name__}: nn.Parameter `{path}` is not in state_dict() but the forward pass does not use it (dead weight)")
                # (a) state_dict → torch.save / torch.load (weights only) → a FRESH policy object, strict
                try:
                    with quiet():
                        f = os.path.join(tmp, "sd.pt")
                        torch.save(pol.state_dict(), f)
                        sd = torch.load(f, weights_only=True)
                        seed_all(seed + 1)
                        fresh = build(envname)
                        fresh.load_state_dict(sd, strict=True)
                        o2 = greedy_out(fresh, env, td)
                    d = same_out(o1, o2)
                    if d:
                        V(ctx, f"ckpt-weights-only-restore-differs:{name}", f"{type(pol).__name__} on {envname}: a fresh policy restored from state_dict() "
                          f"(load_state_dict strict=True raised nothing): {d}", dict(witness, unregistered=missing[:4]))
                    d2 = sd_equal(pol.state_dict(), fresh.state_dict())
                    if d2:
                        V(ctx, f"ckpt-weights-only-restore-differs:{name}", f"state_dict after restore differs: {d2}", witness)
                except Exception as e:  # noqa: BLE001
                    V(ctx, f"ckpt-weights-only-restore-raises:{name}:{type(e).__name__}", f"{type(pol).__name__} on {envname}: state_dict round trip raises "
                      f"{type(e).__name__}: {str(e)[:160]}", witness)
                # (b) a Lightning checkpoint: object restore (forced unpickling) and weights-only restore of checkpoint['state_dict']
                if name in lightning_for:
                    try:
                        with quiet():
                            model = REINFORCE(env, pol, baseline="no", batch_size=4, val_batch_size=4, test_batch_size=4, train_data_size=8,
                                              val_data_size=4, test_data_size=4, optimizer_kwargs={"lr": 1e-3})
                            tr = RL4COTrainer(max_epochs=1, accelerator="cpu", devices=1, precision="32-true", gradient_clip_val=1.0, logger=False,
                                              enable_checkpointing=False, enable_progress_bar=False, enable_model_summary=False, default_root_dir=tmp,
                                              num_sanity_val_steps=0, matmul_precision=None)
                            tr.fit(model)
                            path = os.path.join(tmp, "m.ckpt")
                            tr.save_checkpoint(path)
                            o_tr = greedy_out(model.policy, env, td)
                            ck = torch.load(path, weights_only=False)
                            psd = {k[len("policy."):]: v for k, v in ck["state_dict"].items() if k.startswith("policy.")}
                            seed_all(seed + 2)
                            fresh2 = build(envname)
                            fresh2.load_state_dict(psd, strict=True)
                            o3 = greedy_out(fresh2, env, td)
                        d = same_out(o_tr, o3)
                        if d:
                            V(ctx, f"ckpt-weights-only-restore-differs:{name}", f"{type(pol).__name__} on {envname}: a fresh policy restored from the Lightning "
                              f"checkpoint's state_dict: {d}", dict(witness, path="lightning state_dict"))
                        ctx.count(f"policy-ckpt:{name}:lightning")
                    except Exception as e:  # noqa: BLE001
                        ctx.count(f"policy-ckpt:{name}:lightning-unavailable({type(e).__name__})")
                ctx.case(("policy-ckpt", name, envname, seed))
                if name in ("matnet", "am"):
                    ctx.sample({"case": "policy state_dict → fresh object (strict) → same greedy actions / reward / log-likelihood", "policy": name, "env": envname,
                                "parameters_not_in_state_dict": missing, "reward": [round(x, 4) for x in o1[1][:2].tolist()]}, cap=2)
    finally:
        shutil.rmtree(tmp, ignore_errors=True)


def polynet_warm_start(ctx):
    """`PolyNet(base_model_checkpoint_path=…)`: the tensors shared with the checkpoint's POLICY must be restored from `policy.*`, never
    from the rollout baseline's frozen copy `baseline.baseline.policy.*`; key mapping vs `Gen.Persist.mapKey`"""
    import aug_zoo
    from rl4co.models.zoo.polynet import PolyNet

    rng = ctx.rng
    tmp = tempfile.mkdtemp(prefix="gen_warm_")
    try:
        for envname in ("tsp", "cvrp"):
            for order in ("policy-first", "baseline-first"):
                seed = rng.randrange(1 << 30)
                seed_all(seed)
                with quiet():
                    env = aug_zoo.make_env(envname)
                    base = aug_zoo._am(envname, normalization="instance")   # PolyNet's encoder uses instance normalisation (it warm-starts from POMO-style models)
                    perturb_policy(base, 1)
                    snap = copy.deepcopy(base)
                    perturb_policy(base, 2)          # the policy moved on after the baseline's snapshot was taken
                pol_items = [("policy." + k, v.clone()) for k, v in base.state_dict().items()]
                bl_items = [("baseline.baseline.policy." + k, v.clone()) for k, v in snap.state_dict().items()]
                items = pol_items + bl_items if order == "policy-first" else bl_items + pol_items
                path = os.path.join(tmp, f"{envname}_{order}.ckpt")
                torch.save({"state_dict": dict(items)}, path)
                witness = {"env": envname, "checkpoint_key_order": order, "seed": seed}
                try:
                    with quiet():
                        seed_all(seed + 1)
                        poly = PolyNet(env, k=3, base_model_checkpoint_path=path, policy_kwargs=dict(aug_zoo.TINY), batch_size=4,
                                       train_data_size=8, val_data_size=4, test_data_size=4)
                except Exception as e:  # noqa: BLE001
                    V(ctx, f"warm-start-raises:polynet:{type(e).__name__}", f"PolyNet(base_model_checkpoint_path=…) raises {type(e).__name__}: {str(e)[:160]}", witness)
                    continue
                psd = poly.policy.state_dict()
                mapped = ask(ctx, ["gen.keymap " + " ".join(k for k, _ in items)])[0]["keys"].split(",")
                src = {}
                for (k, _), m_ in zip(items, mapped):
                    src[m_] = k                       # the last checkpoint entry mapped onto a key wins (dict comprehension + load_state_dict)
                shared = [k for k in psd if k in base.state_dict() and psd[k].shape == base.state_dict()[k].shape]
                ctx.count(f"warm-start:polynet:{envname}:{order}:shared-tensors", len(shared))
                ckpt = dict(items)
                for k in shared:
                    if not torch.equal(psd[k], base.state_dict()[k]):
                        from_bl = torch.equal(psd[k], snap.state_dict()[k])
                        V(ctx, "warm-start-restores-wrong-tensor:polynet",
                          f"PolyNet warm start: `{k}` is not the checkpoint's `policy.{k}`" + (" but the rollout baseline's frozen copy `baseline.baseline.policy." + k + "`" if from_bl else ""),
                          dict(witness, key=k))
                        break
                    if src.get(k) is None or not torch.equal(psd[k], ckpt[src[k]]):
                        ctx.disagreement("polynet warm start: restored tensor vs Gen.Persist.mapKey / sourceOf", {"key": k, "model_source": src.get(k)})
                        break
                if not shared:
                    ctx.note("polynet warm start: no tensor shared with the AM base policy")
                # the restored encoder computes what the saved policy's encoder computes
                td = env.reset(env.generator([3]))
                with torch.no_grad():
                    base.eval(); poly.policy.eval()
                    h1 = base.encoder(td.clone())[0]
                    h2 = poly.policy.encoder(td.clone())[0]
                if h1.shape == h2.shape and not torch.allclose(h1, h2, atol=1e-6):
                    V(ctx, "warm-start-restores-wrong-tensor:polynet", "PolyNet warm start: the restored encoder's output differs from the saved policy's encoder output",
                      witness)
                ctx.case(("warm", envname, order, seed))
                ctx.sample({"case": "PolyNet(base_model_checkpoint_path=ckpt) with policy.* and baseline.baseline.policy.* entries", "env": envname, "order": order,
                            "shared_tensors": len(shared), "model": "Gen.Persist.mapKey (k.replace('policy.', '', 1))"}, cap=1)
    finally:
        shutil.rmtree(tmp, ignore_errors=True)


def run_policy_ckpt(ctx):
    guarded(ctx, "policy-roundtrips", policy_roundtrips)
    guarded(ctx, "polynet-warm-start", polynet_warm_start)


# =================================================================================================
# registration
# =================================================================================================

GEN_NOTE = ("generators are modelled as the deterministic post-processing of their raw draws (Rl4co/Gen/*.lean); the random "
            "sources themselves, float32 rounding inside the generators and the coordinate→distance arithmetic are outside the model "
            "(dyadic draws / integral point sets make the compared cases exact)")
PARAM_NOTE = ("range / well-formedness theorems hold under explicit parameter conditions (1 ≤ min ≤ max for demands and processing times, "
              "capacity ≥ max_demand, 0 ≤ min_dist, 2·dist+1 ≤ max_time …); for the shipped defaults these conditions are `decide` obligations "
              "over the values regenerated from the sources (Rl4co/Props/C18/Tables.lean)")
T = Theorem
P18 = "Rl4co.Props.C18."
P19 = "Rl4co.Props.C19.Persist"

register(Unit("C18", "gen_routing", guard_tables(run_routing, "gen_routing"), drivers=["drv_gen"], lean_modules=[P18 + "Tables", P18 + "Routing", P18 + "SpecSanity"],
              theorems=[
                  T("Rl4co.Gen.tblLookup_mem", "proved", "for every size, on or off the table, the nearest-key fallback returns a value of the table"),
                  T("Rl4co.Gen.tblLookup_isSome", "proved", "a non-empty table always yields a value"),
                  T("Rl4co.Gen.capacities_cover_max_demand", "proved", "decide: every regenerated CAPACITIES entry ≥ default max_demand (CVRP, CVRPTW)"),
                  T("Rl4co.Gen.data_tables_agree", "proved", "decide: generate_data.py's table copies equal the generators' tables"),
                  T("Rl4co.Gen.max_lengths_pos", "proved", "decide: MAX_LENGTHS entries positive, tables non-empty"),
                  T("Rl4co.Gen.affInt_range", "proved", "⌊lo + u(hi−lo)⌋ + add ∈ [lo+add, hi+add] (≤ hi+add−1 if lo<hi) for every draw u ∈ [0,1)"),
                  T("Rl4co.Gen.coord_in_bounds", "proved", "min_loc ≤ coordinate ≤ max_loc for every draw"),
                  T("Rl4co.Gen.center_in_bounds", "proved", "the 'center' constant (high+low)/2 lies in [min_loc, max_loc] for every box (fixed upstream 4726d9c)"),
                  T("Rl4co.Gen.cvrp_demand_range", "proved", "integer demand ∈ [min_demand, max_demand] for every draw (1 ≤ min ≤ max)"),
                  T("Rl4co.Gen.cvrp_demand_le_capacity", "proved", "default range + regenerated table: demand/capacity ≤ 1 for every num_loc (incl. off-table) and draw"),
                  T("Rl4co.Gen.cvrp_demand_fits_of_cap", "proved", "any capacity (override) ≥ max_demand keeps demand/capacity ≤ 1"),
                  T("Rl4co.Gen.gen_wf_cvrp", "proved", "generated CVRP instances satisfy Rl4co.Cvrp.WF, the hypothesis of the C02 termination theorem"),
                  T("Rl4co.Gen.pctsp_ranges", "proved", "PCTSP penalty / deterministic / stochastic prize ranges"),
                  T("Rl4co.Gen.svrp_skill_le_best", "proved", "SVRP: required skill ≤ best technician"),
                  T("Rl4co.Gen.op_prize_range", "proved", "OP prize_type='dist': prize ∈ [0.01, 1]"),
                  T("Rl4co.Gen.op_prize_total", "proved", "every documented prize type (const, unif, dist) yields prizes in [0.01, 1] for every admissible draw (fixed upstream a68723b)"),
                  T("Rl4co.Gen.pdp_even", "proved", "PDP/MDCPDP: emitted num_loc is even, n ≤ · ≤ n+1"),
                  T("Rl4co.Gen.pdp_pairing", "proved", "pickup i ↦ delivery i+N/2 is a bijection {1..N/2} → {N/2+1..N}"),
                  T("Rl4co.Gen.source_forms", "proved", "decide: the source forms the models take for granted (MCP mask width, ATSP loop bounds, centre formula, "
                                                          "per-row loader divisor, CVRPTW repair offsets, FJSP spread) as regenerated from the sources"),
              ],
              assumptions=[GEN_NOTE, PARAM_NOTE,
                           "special samplers (cluster, mixed, gaussian mixture …) and mTSP/MDCPDP/FFSP/SMTWTP/FLP ranges: correspondence + sampled ranges only; "
                           "the special samplers are defined on the unit square whatever min_loc/max_loc say and are checked against [0,1] for every generator that "
                           "takes loc_distribution, with the Gaussian draws steered ±6…±40 σ into the tails (Tape.tail) instead of i.i.d. sampling"]))
register(Unit("C18", "gen_tw", guard_tables(run_tw, "gen_tw"), drivers=["drv_gen"], lean_modules=[P18 + "Cvrptw", P18 + "Mtvrp", P18 + "Tables", P18 + "SpecSanity", P18 + "MtvrpGenerated"],
              theorems=[
                  T("Rl4co.Gen.Cvrptw.cvrptw_window", "proved", "steps 4–7: window ordered, ≥ 0, reachable from the depot, leaves time to return, for all draws (2·dist+1 ≤ max_time, durations 0)"),
                  T("Rl4co.Gen.Cvrptw.cvrptw_assert", "proved", "the generator's final `min_times < max_times` assertion cannot fire under the same conditions"),
                  T("Rl4co.Gen.Cvrptw.default_room", "proved", "the regenerated defaults (max_loc, max_time) satisfy the room condition for every point of the box"),
                  T("Rl4co.Gen.cvrptw_defaults_room", "proved", "decide: 8(max_loc−min_loc)² ≤ (max_time−1)² on the regenerated defaults"),
                  T("Rl4co.Gen.Mtvrp.mtvrp_window", "proved", "MTVRP: d/v ≤ start < end and end + service + d/v ≤ max_time for all draws (rational arithmetic)"),
                  T("Rl4co.Gen.Mtvrp.twStart_eq", "proved", "closed form tw_start = d/v + u·(max_time − service − length − 2d/v)"),
                  T("Rl4co.Gen.Mtvrp.twGen_eq", "proved", "translator tie: the statement-level translation of generate_time_windows (regenerated each run) is the model (rfl)"),
                  T("Rl4co.Gen.Mtvrp.mtvrp_window_generated", "proved", "the window theorem restated on the generated definition"),
                  T("Rl4co.Gen.Mtvrp.consts_agree", "proved", "decide: the translated constants equal the token-probe constants"),
                  T("Rl4co.Gen.Mtvrp.room_of_box", "proved", "coordinates in the box + 8L² ≤ v²(T−b−c)² ⇒ room condition"),
                  T("Rl4co.Gen.Mtvrp.limit_of_box", "proved", "coordinates in the box + 8L² < limit² ⇒ the distance-limit assertion passes"),
                  T("Rl4co.Gen.mtvrp_defaults", "proved", "decide: constants ordered, defaults satisfy both box conditions, demands ≤ 30"),
                  T("Rl4co.Gen.Mtvrp.demands_kind", "proved", "every customer has exactly one of linehaul/backhaul demand, an integer in range"),
                  T("Rl4co.Gen.Mtvrp.demand_le_vehicle", "proved", "demand ≤ 30 ≤ get_vehicle_capacity(n) for every n"),
                  T("Rl4co.Gen.preset_consistent", "proved", "decide over the regenerated VARIANT_GENERATION_PRESETS: key order O,TW,L,B; every named preset enables exactly the features in its name; cvrp/single_feat/single_feat_otw supports"),
                  T("Rl4co.Gen.preset_complete", "proved", "all 16 feature combinations have their named preset"),
                  T("Rl4co.Gen.Mtvrp.named_preset_features", "proved", "instance features after subsample_problems = those spelled by the preset name"),
                  T("Rl4co.Gen.Cvrptw.windowOk_trip", "proved", "spec sanity: WindowOk ⇒ the out-and-back trip is feasible (service start max(dist, lo) inside the window, back by max_time)"),
                  T("Rl4co.Gen.Cvrptw.windowOk_mono_T", "proved", "spec sanity: WindowOk is monotone in max_time"),
                  T("Rl4co.Gen.Cvrptw.windowOk_mono_d", "proved", "spec sanity: WindowOk is monotone (downwards) in the distance"),
                  T("Rl4co.Gen.Mtvrp.variantName_injective", "proved", "spec sanity: a variant name determines its feature set"),
              ],
              assumptions=[GEN_NOTE, PARAM_NOTE, "MTVRP window arithmetic uses non-dyadic constants: model (exact rationals) vs float32 code compared to 2e-5 relative",
                           "MTVRP: a customer located exactly at the depot (d = 0) divides by zero in the code (NaN windows); excluded by hypothesis 0 < d, probability ~2^-48 per customer"]))
register(Unit("C18", "gen_atsp", guard_tables(run_atsp, "gen_atsp"), drivers=["drv_gen"], lean_modules=[P18 + "Atsp", P18 + "Tables", P18 + "SpecSanity"],
              theorems=[
                  T("Rl4co.Gen.Atsp.atsp_triangle", "proved", "the coded single-pass min-plus loop gives D a c ≤ D a b + D b c for all a, c and every b < n (non-negative raw entries)"),
                  T("Rl4co.Gen.Atsp.atsp_diag", "proved", "zero diagonal"),
                  T("Rl4co.Gen.Atsp.atsp_nonneg", "proved", "non-negative entries"),
                  T("Rl4co.Gen.Atsp.closure_le", "proved", "entries never grow (≤ max_dist)"),
                  T("Rl4co.Gen.atsp_mcp_defaults", "proved", "decide: 0 ≤ min_dist ≤ max_dist on the regenerated defaults"),
                  T("Rl4co.Gen.Atsp.triangleOk_iff", "proved", "spec sanity: the executable triangle oracle is exactly the triangle inequality on the first n indices"),
              ],
              assumptions=[GEN_NOTE, "float32 additions inside the loop can break the exact triangle inequality by rounding: sampled with tolerance 1e-6, slack below it is counted"]))
register(Unit("C18", "gen_sched", guard_tables(run_sched, "gen_sched"), drivers=["drv_gen"], lean_modules=[P18 + "Sched", P18 + "Tables", P18 + "SpecSanity"],
              theorems=[
                  T("Rl4co.Gen.Sched.fjsp_proc_range", "proved", "FJSP processing time ∈ [min_pt, max_pt] and > 0 for every raw draw"),
                  T("Rl4co.Gen.Sched.fjsp_operation_eligible", "proved", "every real FJSP operation has ≥ 1 machine with positive time (same_mean_per_op)"),
                  T("Rl4co.Gen.Sched.fjsp_plain_operation_eligible", "proved", "same without same_mean_per_op"),
                  T("Rl4co.Gen.Sched.jssp_operation_eligible", "proved", "a JSSP operation runs on its machine with positive time and on no other"),
                  T("Rl4co.Gen.Sched.op_index", "proved", "start/end op ids: start_j = Σ_{i<j} n_i, end_j = Σ_{i≤j} n_i − 1"),
                  T("Rl4co.Gen.sched_defaults", "proved", "decide: default FJSP/JSSP parameters satisfy the conditions"),
                  T("Rl4co.Gen.Sched.columnsOk_iff", "proved", "spec sanity: ColumnsOk ⇔ every non-padded operation has a machine with positive time"),
                  T("Rl4co.Gen.Sched.numEligible_pos_iff", "proved", "spec sanity: numEligible ≥ 1 ⇔ some entry is positive"),
              ],
              assumptions=[GEN_NOTE, PARAM_NOTE, "argsort of the shuffling draws is an input permutation (ties outside the model)"]))
register(Unit("C18", "gen_mcp", guard_tables(run_mcp, "gen_mcp"), drivers=["drv_gen"], lean_modules=[P18 + "Routing"],
              theorems=[
                  T("Rl4co.Gen.mcp_gen_total", "proved", "for every draw a membership row of the sampled width comes out, without repeated items, listing only the first `size` drawn items (fixed upstream 202be23)"),
                  T("Rl4co.Gen.mcp_clamp_range", "proved", "set sizes / weights clamp into [min, max]"),
                  T("Rl4co.Gen.removeRepeat_nodup", "proved", "no item listed twice in a membership row"),
              ],
              assumptions=[GEN_NOTE, "membership rows compared as multisets (torch.sort stability is outside the model)"]))
register(Unit("C18", "gen_solvable", guard_tables(run_solvable, "gen_solvable"), drivers=["drv_gen"], lean_modules=[P18 + "Routing", P18 + "GenWf"],
              theorems=[T("Rl4co.Gen.gen_wf_cvrp", "proved", "gen_solvable = gen_wf ∘ C02 for CVRP: generated instances satisfy the WF of Rl4co.Cvrp.steps_le"),
                        T("Rl4co.Gen.gen_wf_sdvrp", "proved", "generated SDVRP instances satisfy Sdvrp.WFpos (positive capacity, positive demands)"),
                        T("Rl4co.Gen.gen_steps_le_sdvrp", "proved", "generated ⇒ WF ⇒ the SDVRP C02 step bound"),
                        T("Rl4co.Gen.gen_wf_mtsp", "proved", "generated mTSP instances satisfy Mtsp.WF for every integer draw of num_agents"),
                        T("Rl4co.Gen.mtsp_agents_range", "proved", "num_agents ∈ [min_num_agents, max_num_agents]"),
                        T("Rl4co.Gen.gen_steps_le_mtsp", "proved", "generated ⇒ WF ⇒ at most num_loc + num_agents − 2 steps"),
                        T("Rl4co.Gen.gen_wf_pdp", "proved", "emitted num_loc = 2·(number of pairs) and Pdp.WF"),
                        T("Rl4co.Gen.gen_wf_ffsp", "proved", "generated FFSP instances satisfy Ffsp.WF (durations below the sentinel for every draw)"),
                        T("Rl4co.Gen.gen_steps_le_ffsp", "proved", "generated ⇒ WF ⇒ the FFSP C02 step bound")],
              assumptions=["sampled: every environment's bundled generator, mask-confined episodes under three action policies with the "
                           "harness' own loop; the universally quantified termination statements are the C02 theorems of the environment families",
                           "a batched episode that fails while every instance completes solo is counted as batch-only (C02/C04), not as unsolvable"]))

register(Unit("C18", "gen_history", run_history, drivers=["drv_gen"], lean_modules=[P19, P18 + "Tables"],
              theorems=[
                  T("Rl4co.Gen.Persist.vrp_calls_independent", "proved", "the capacity generate_vrp_data writes is lookup(size, override applied to the table) of that call's own arguments, "
                                                                         "whatever calls preceded it (obligation: the updated table is a local of the call)"),
                  T("Rl4co.Gen.Persist.default_call_after_history", "proved", "a default call after any history writes the documented table capacity"),
                  T("Rl4co.Gen.Persist.vrpCall_table_unchanged", "proved", "a call leaves the table unchanged"),
                  T("Rl4co.Gen.data_tables_agree", "proved", "decide: the writer's table is the generators' CAPACITIES / MAX_LENGTHS"),
              ],
              assumptions=[GEN_NOTE, "call histories: dataset writers with legal overrides followed by default calls, generator objects reused with different batch sizes, "
                           "default generators after overriding ones; every module-level table (upper-case dict/list constants of the generator and data modules) is "
                           "deep-compared before/after — here and around the whole sweep of every other C18 unit and of gen_npz"]))

PERSIST_NOTE = ("C19 is partial: theorems cover the FJSP/JSSP text formats (token level), the demand normalisation and the getstate/setstate record "
                "update; numpy's npz container, pickle and torch.save/Lightning checkpoints are not modelled — for those the check is the real "
                "save → load correspondence only")
register(Unit("C19", "gen_text", run_text, drivers=["drv_gen"], lean_modules=[P19],
              theorems=[
                  T("Rl4co.Gen.Persist.fjsp_read_write", "proved", "read (write inst) = inst up to zero padding, for every FJSP instance (token level)"),
                  T("Rl4co.Gen.Persist.jssp_read_write", "proved", "same for the JSSP format the parser documents (rl4co ships no JSSP writer)"),
              ],
              assumptions=[PERSIST_NOTE, "file2lines tokenisation and the file system are glue; the reader returns float32 op indices (generator: int64) — "
                           "compared by value and by identical masks/rewards along a fixed action list",
                           "FJSPFileGenerator/JSSPFileGenerator list files with unsorted os.listdir: instances compared as a multiset (order differences counted)"]))
register(Unit("C19", "gen_npz", guard_tables(run_npz, "gen_npz"), drivers=["drv_gen"], lean_modules=[P19, "Rl4co.Props.C19.NpzPre", P18 + "Tables"],
              theorems=[
                  T("Rl4co.Gen.Persist.load_data_demand", "proved", "CVRPEnv.load_data: demand' = demand / capacity"),
                  T("Rl4co.Gen.Persist.load_data_demand_le_one", "proved", "raw demands 1..9 over a capacity ≥ 9 land in (0, 1]"),
                  T("Rl4co.Gen.data_capacities_cover", "proved", "decide: every capacity of generate_vrp_data's table ≥ 9"),
                  T("Rl4co.Gen.Persist.load_after_generator_counterexample", "proved", "¬(generator batch → save → env loader is the identity): the loader divides again (known finding)"),
                  T("Rl4co.Gen.Persist.load_after_generator_partial", "partial", "identity when the capacity is 1"),
                  T("Rl4co.Gen.Persist.load_data_per_row", "proved", "a dataset file with one capacity per row: every row is divided by its own capacity (extracted divisor form)"),
                  T("Rl4co.Gen.Persist.npz_load_saveWith_iff", "proved", "class of changes around the container: with ANY per-array pre-processing between v.numpy() and np.savez*, save → load gives the TensorDict back IFF the step leaves every stored array (dtype tag, shape, contents) unchanged — for every TensorDict"),
                  T("Rl4co.Gen.Persist.npz_downcast_counterexample", "proved", "NOT the round trip with a float64→float32 down-cast before saving (seed Y04-1), on a concrete float64 instance"),
                  T("Rl4co.Gen.Persist.npz_downcast_invisible", "proved", "the same down-cast is invisible on every TensorDict without a float64 entry (why only the dtype sweep of the correspondence exposes it)"),
                  T("Rl4co.Gen.Persist.npz_load_save", "proved", "container model: load_npz_to_tensordict (save_tensordict_to_npz td) = td (keys in order, dtype/shape tags, contents, batch size), "
                                                                   "given the stated numpy Codec"),
                  T("Rl4co.Gen.Persist.npzBatch_of_uniform", "proved", "the batch size re-derived from the first key equals the common leading dimension"),
              ],
              assumptions=[PERSIST_NOTE]))
register(Unit("C19", "gen_pickle", run_pickle, drivers=["drv_gen"], lean_modules=[P19],
              theorems=[T("Rl4co.Gen.Persist.setstate_getstate", "proved", "__setstate__ ∘ __getstate__ = id on the attribute record incl. the generator state"),
                        T("Rl4co.Gen.Persist.setstate_getstate_extracted", "proved", "same with the three statements found in the source as parameters (each is needed); "
                                                                                      "the state is the whole __dict__")],
              assumptions=[PERSIST_NOTE, "every attribute of env.__dict__ is state (`state = self.__dict__.copy()`): the copy's attributes are compared recursively "
                           "(tensors by value, objects by type and __dict__)", "env.rng is torch's global default generator (torch.manual_seed returns it): unpickling rewinds the global RNG — counted, not a violation of C19"]))
register(Unit("C19", "gen_ckpt", run_ckpt, drivers=["drv_gen"], lean_modules=[P19],
              theorems=[], assumptions=[PERSIST_NOTE, "checkpoints: tiny AttentionModel (embed 16, 1 layer), CPU, 2–3 epochs of 16 instances, tmp dir removed; "
                                        "no theorem: correspondence only. Baselines no / exponential / rollout (bl_alpha=0: saved baseline policy ≠ actor) / critic / "
                                        "warmup(n_epochs=3: fractional alpha); compared after restore: actor weights and greedy solutions, baseline state_dict, baseline "
                                        "policy greedy solutions, hparams / data_cfg / env generator parameters, baseline.eval on a fixed (state, reward). "
                                        "`rollout_only` cannot be trained (setup wraps the dataset before the baseline has a policy) and is not covered"], weight=3.0))
register(Unit("C19", "gen_policy_ckpt", run_policy_ckpt, drivers=["drv_gen"], lean_modules=[P19],
              theorems=[
                  T("Rl4co.Gen.Persist.warm_start_keys", "proved", "the coded key mapping (k.replace('policy.', '', 1)): policy.<n> ↦ <n>, baseline.baseline.policy.<n> ↦ baseline.baseline.<n>"),
                  T("Rl4co.Gen.Persist.strip_policy_injective", "proved", "distinct policy.* keys map to distinct policy keys"),
                  T("Rl4co.Gen.Persist.baseline_not_onto_policy", "proved", "a baseline.* checkpoint key is never mapped onto a policy parameter (whose name does not begin with baseline.)"),
              ],
              assumptions=[PERSIST_NOTE, "every bundled constructive policy that can be built offline (harness/aug_zoo.ZOO: AM, POMO-style AM, SymNCO, HAM, MDAM, PolyNet, "
                           "PtrNet, MatNet on ATSP, MVMoE, L2D / L2D-attn on FJSP, NAR heatmap) with perturbed weights — every state_dict tensor and every nn.Parameter reachable "
                           "through plain attributes — restored weights-only into a FRESH object (strict) and compared on greedy actions, reward, log-likelihood with the RNG re-seeded; "
                           "Lightning checkpoints for a rotating subset at the quick tier; structural check: every reachable nn.Parameter is in state_dict()",
                           "PolyNet warm start from synthetic checkpoints {policy.*, baseline.baseline.policy.*} in both key orders (torch.load weights-only loadable)"], weight=3.0))
