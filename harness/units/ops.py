"""Replication / regrouping utilities (C12) and datasets / loaders / baseline wrapping (C17).

Real code: rl4co/utils/ops.py, utils/decoding.py:_select_best, models/zoo/{pomo,symnco}/model.py,
tasks/eval.py, models/zoo/am/decoder.py, data/dataset.py, models/rl/reinforce/baselines.py,
models/rl/common/base.py.  Model: lean/Rl4co/Train/{Batchify,Select,Dataset}.lean (driver `drv_ops`),
oracle: lean/Rl4co/Spec/Ops.lean.

Everything is driven with *tagged* data: every row carries the id of the instance (and copy) it belongs
to, so that "which row ended up where" can be read off the outputs of the real functions.
"""
from __future__ import annotations

import itertools
import types
from typing import List, Sequence

import rl  # noqa: F401  (sets up sys.path / torch threads)
from common import Theorem, Unit, register
from leanio import parse_fields
from rl import TensorDict, torch

# --------------------------------------------------------------------------------------------------
# helpers


def viol(ctx, key: str, what: str, witness: dict) -> None:
    """`ctx.violation` keeps the first 20 records only: keep at most two witnesses per failure class so that
    every class that occurs is visible (the rest is counted under `violations.<key>`)."""
    seen = ctx.__dict__.setdefault("_ops_seen", {})
    seen[key] = seen.get(key, 0) + 1
    ctx.count(f"violations.{key}")
    known = ctx.__dict__.get("_ops_known")
    if known is None:
        from common import load_known_findings

        known = ctx.__dict__["_ops_known"] = [f["match"]["key"] for f in load_known_findings()
                                              if f.get("status", "known") == "known" and f.get("match", {}).get("unit") == ctx.unit]
    hit = [k for k in known if key.startswith(k)]
    if hit:  # one witness per KNOWN finding: leave the room for classes that are not already known
        seen_f = ctx.__dict__.setdefault("_ops_seen_known", set())
        if hit[0] not in seen_f:
            seen_f.add(hit[0])
            ctx.violation(key, what, witness)
    elif seen[key] <= 2:
        ctx.violation(key, what, witness)


def csv(s: str) -> List[int]:
    return [int(v) for v in s.split(",")] if s else []


def ilist(xs: Sequence[int]) -> str:
    return " ".join(str(int(v)) for v in xs)


def prod_pos(ks: Sequence[int]) -> int:
    p = 1
    for k in ks:
        if k > 0:
            p *= k
    return p


def tagged(n: int, kind: str):
    """A tensor / TensorDict with `n` rows in which row r is recognisable (and its trailing
    dimensions are recognisable too).  Returns (object, rows_of(obj) -> list of row-ids)."""
    base = torch.arange(n, dtype=torch.int64)
    if kind == "t1":
        return base.clone()
    if kind == "t3":
        tr = torch.arange(6, dtype=torch.float32).reshape(2, 3) / 8.0
        return base.float()[:, None, None] + tr[None]
    if kind == "td":
        tr = torch.arange(4, dtype=torch.int64).reshape(2, 2)
        return TensorDict(
            {"a": base.clone(), "b": (base[:, None, None] * 8 + tr[None]).to(torch.int32),
             "c": TensorDict({"d": base.float() / 4.0}, batch_size=[n])},
            batch_size=[n],
        )
    raise ValueError(kind)


def lead_shape(obj, nlead: int):
    return list(obj.batch_size) if isinstance(obj, TensorDict) else list(obj.shape[:nlead])


def rows_equal(out, src, nlead: int, rows: List[int]) -> bool:
    """`out` (leading dims flattened row-major) must be, position by position, row `rows[p]` of `src`
    including all trailing dims, dtypes preserved."""
    if isinstance(src, TensorDict):
        if not isinstance(out, TensorDict):
            return False
        keys = sorted(src.keys(True, True), key=str)
        if sorted(out.keys(True, True), key=str) != keys:
            return False
        return all(rows_equal(out[k], src[k], nlead, rows) for k in keys)
    if out.dtype != src.dtype:
        return False
    flat = out.reshape(-1, *out.shape[nlead:])
    if flat.shape[0] != len(rows) or list(flat.shape[1:]) != list(src.shape[1:]):
        return False
    if not rows:
        return True
    return bool(torch.equal(flat, src[torch.tensor(rows, dtype=torch.long)]))


def row_ids(out, nlead: int) -> List[int]:
    """row ids found in a tagged `t1` tensor / the `a` entry of a tagged td, flattened row-major"""
    t = out["a"] if isinstance(out, TensorDict) else out
    return [int(v) for v in t.reshape(-1).tolist()] if nlead >= 0 else []


def shapes_upto(depth: int, fmax: int, fmin: int = 0):
    for d in range(1, depth + 1):
        yield from itertools.product(range(fmin, fmax + 1), repeat=d)


# --------------------------------------------------------------------------------------------------
# C12 (1): batchify / unbatchify / gather / rearrange


def check_batchify(ctx):
    from rl4co.utils.ops import batchify, unbatchify, unbatchify_and_gather

    cases = []  # (B, ks, as_int)
    for B in range(1, 6):
        for ks in shapes_upto(3, 4):
            cases.append((B, list(ks), False))
            if len(ks) == 1:
                cases.append((B, list(ks), True))
    nrand = ctx.budget(150, 1500)
    for _ in range(nrand):
        d = ctx.rng.randint(1, 4)
        ks = [ctx.rng.choice([0, 1, 2, 3, 5, 7, 8, 12]) for _ in range(d)]
        if prod_pos(ks) > 600:
            continue
        cases.append((ctx.rng.randint(1, 64), ks, False))

    lines = []
    for B, ks, _ in cases:
        lines.append(f"ops.batchify {B} | {ilist(ks)}")
        lines.append(f"ops.unbatchify {B * prod_pos(ks)} | {ilist(ks)}")
    rep = ctx.driver.ask_many(lines)
    spec_lines, spec_meta = [], []
    for ci, (B, ks, as_int) in enumerate(cases):
        mb, mu = parse_fields(rep[2 * ci]), parse_fields(rep[2 * ci + 1])
        arg = ks[0] if as_int else tuple(ks)
        N = B * prod_pos(ks)
        m_rows = csv(mb["rows"])
        m_ushape, m_flat = csv(mu.get("shape", "")), csv(mu.get("flat", ""))
        ctx.count(f"batchify.depth{len(ks)}" + (".int" if as_int else "") + (".zero" if 0 in ks else ""))
        for kind in ("t1", "t3", "td"):
            x = tagged(B, kind)
            y = batchify(x, arg)
            if lead_shape(y, 1) != csv(mb["shape"]) or not rows_equal(y, x, 1, m_rows):
                ctx.disagreement("batchify rows", {"B": B, "shape": ks, "kind": kind, "model_rows": m_rows,
                                                   "real_rows": row_ids(y, 1) if kind != "t3" else None})
            # regroup a tagged expanded batch
            z = tagged(N, kind)
            u = unbatchify(z, arg)
            if mu["ok"] != "1":
                ctx.disagreement("unbatchify legal view rejected by model", {"N": N, "shape": ks})
                continue
            nl = len(m_ushape)
            if lead_shape(u, nl) != m_ushape or not rows_equal(u, z, nl, m_flat):
                ctx.disagreement("unbatchify layout", {"N": N, "shape": ks, "kind": kind, "model_shape": m_ushape,
                                                       "model_flat": m_flat, "real_shape": lead_shape(u, nl)})
            # round trip: every copy slice of unbatchify(batchify(x)) is x
            w = unbatchify(y, arg)
            if lead_shape(w, nl) != m_ushape or not rows_equal(w, x, nl, [p // (N // B) for p in range(N)]):
                viol(ctx, "roundtrip", "unbatchify(batchify(x, s), s) is not x in every copy slice",
                              {"B": B, "shape": ks, "kind": kind})
            if kind == "t1" and B >= 2 and len(ks) >= 2 and min(ks) >= 2 and N <= 48:
                ctx.sample({"what": "batchify/unbatchify", "B": B, "shape": ks, "expanded_row_to_instance": row_ids(y, 1),
                            "regrouped_shape": lead_shape(u, nl), "regrouped_rows_row_major": row_ids(u, nl)}, cap=1)
            if kind == "t1":
                # oracle on the REAL outcome
                spec_lines.append(f"ops.spec.expand {B} | {ilist(row_ids(y, 1))}")
                spec_meta.append(("expand", B, ks))
                spec_lines.append(f"ops.spec.regroup {B} {N // B} | {ilist(row_ids(u, nl))}")
                spec_meta.append(("regroup", B, ks))
            ctx.case(("batchify", B, tuple(ks), as_int, kind), nontrivial=N > B)
    for (what, B, ks), r in zip(spec_meta, ctx.driver.ask_many(spec_lines)):
        if parse_fields(r).get("ok") != "1":
            viol(ctx, f"layout:{what}", f"{what}: a row left its instance (row r must belong to instance r mod B)",
                          {"B": B, "shape": ks})

    # views that torch must reject (first dim not divisible)
    bad = [(n, k) for n in range(1, 13) for k in range(2, 6) if n % k]
    rep = ctx.driver.ask_many([f"ops.unbatchify {n} | {k}" for n, k in bad])
    for (n, k), r in zip(bad, rep):
        try:
            unbatchify(torch.arange(n), k)
            raised = False
        except RuntimeError:
            raised = True
        ctx.count("unbatchify.indivisible")
        if raised != (parse_fields(r)["ok"] == "0"):
            ctx.disagreement("unbatchify divisibility", {"N": n, "k": k, "real_raised": raised})

    # AM decoder flatten-back and unbatchify_and_gather
    from einops import rearrange

    lines, meta = [], []
    for B in range(1, 6):
        for S in range(1, 5):
            idx = [ctx.rng.randrange(S) for _ in range(B)]
            lines += [f"ops.rearrange {B * S} {S}", f"ops.gather {B * S} {S} | {ilist(idx)}"]
            meta.append((B, S, idx))
    for _ in range(ctx.budget(30, 300)):
        B, S = ctx.rng.randint(1, 40), ctx.rng.randint(1, 25)
        idx = [ctx.rng.randrange(S) for _ in range(B)]
        lines += [f"ops.rearrange {B * S} {S}", f"ops.gather {B * S} {S} | {ilist(idx)}"]
        meta.append((B, S, idx))
    rep = ctx.driver.ask_many(lines)
    for i, (B, S, idx) in enumerate(meta):
        mr, mg = parse_fields(rep[2 * i]), parse_fields(rep[2 * i + 1])
        for kind in ("t1", "t3", "td"):
            z = tagged(B * S, kind)
            u = unbatchify(z, S)
            if isinstance(u, TensorDict):
                back = TensorDict({k: rearrange(v, "b s ... -> (s b) ...") for k, v in u.items(True, True)},
                                  batch_size=[B * S])
            else:
                back = rearrange(u, "b s ... -> (s b) ...")
            if not rows_equal(back, z, 1, csv(mr["flat"])):
                ctx.disagreement("rearrange(unbatchify)", {"B": B, "S": S, "kind": kind})
            g = unbatchify_and_gather(z, torch.tensor(idx, dtype=torch.long), S)
            if lead_shape(g, 1) != csv(mg["shape"]) or not rows_equal(g, z, 1, csv(mg["rows"])):
                ctx.disagreement("unbatchify_and_gather", {"B": B, "S": S, "idx": idx, "kind": kind,
                                                           "model": csv(mg["rows"])})
            if kind == "t1":
                got = row_ids(g, 1)
                if any(got[b] % B != b or got[b] // B != idx[b] for b in range(B)):
                    viol(ctx, "layout:gather", "unbatchify_and_gather returned a row of another instance/copy",
                                  {"B": B, "S": S, "idx": idx, "got": got})
        ctx.count("gather/rearrange")
        ctx.case(("gather", B, S, tuple(idx)), nontrivial=S > 1)


# --------------------------------------------------------------------------------------------------
# C12 (2): start nodes

ENV_NAMES = ["tsp", "atsp", "cvrp", "cvrptw", "sdvrp", "svrp", "op", "pctsp", "spctsp", "pdp", "mtsp", "mdcpdp",
             "mtvrp", "smtwtp", "flp", "mcp", "dpp", "mdpp", "ffsp", "fjsp", "jssp", "shpp", "some_new_env"]
NO_DEPOT = ("tsp", "atsp", "flp", "mcp")
NO_NUM_LOC = 0xFFFFFFFF


def _stub_env(name, num_loc):
    gen = types.SimpleNamespace() if num_loc is None else types.SimpleNamespace(num_loc=num_loc)
    return types.SimpleNamespace(name=name, generator=gen)


def check_starts_generic(ctx):
    """the generic functions `get_num_starts(td, env_name)` / `select_start_nodes(td, env, k)` for every
    environment name (stub env object: only `.name` and `.generator.num_loc` are read)"""
    from rl4co.utils.ops import get_num_starts, select_start_nodes

    lines, meta = [], []
    for name in ENV_NAMES:
        for nAct in (1, 2, 3, 6, 7):
            lines.append(f"ops.numstarts {name} {nAct} {nAct}")
            meta.append(("num", name, nAct))
        for num_loc in (3, 5, None):
            for B in (1, 2, 3):
                for k in range(1, 8):
                    g = NO_NUM_LOC if num_loc is None else num_loc
                    lines.append(f"ops.starts {name} {B} {k} {g} 9 9")
                    meta.append(("sel", name, num_loc, B, k))
    rep = ctx.driver.ask_many(lines)
    for m, r in zip(meta, rep):
        f = parse_fields(r)
        if m[0] == "num":
            _, name, nAct = m
            td = TensorDict({"action_mask": torch.ones(2, nAct, dtype=torch.bool)}, batch_size=[2])
            real = get_num_starts(td, name)
            ctx.count("get_num_starts.generic")
            if int(real) != int(f["generic"]):
                ctx.disagreement("get_num_starts", {"env": name, "nAct": nAct, "real": int(real), "model": f["generic"]})
        else:
            _, name, num_loc, B, k = m
            td = TensorDict({"action_mask": torch.ones(B, 9, dtype=torch.bool)}, batch_size=[B])
            ctx.count("select_start_nodes.generic")
            try:
                real = select_start_nodes(td, _stub_env(name, num_loc), k).tolist()
            except NotImplementedError:
                if name not in ("jssp", "fjsp"):
                    ctx.disagreement("select_start_nodes raised", {"env": name})
                continue
            except Exception as e:  # noqa: BLE001
                viol(ctx, f"starts-raised:{name}", f"{name}: select_start_nodes raised on an all-feasible mask",
                     {"env": name, "num_loc": num_loc, "B": B, "k": k, "error": repr(e)[:200]})
                continue
            if name in ("jssp", "fjsp"):
                ctx.disagreement("select_start_nodes did not raise for jssp/fjsp", {"env": name})
                continue
            model = csv(f["generic"])
            if name == "op":  # OP picks among the feasible customers of the mask (here: all 8), not by generator.num_loc
                model = csv(parse_fields(ctx.driver.ask(f"ops.opstarts 8 {k} {B} | {ilist([1] * (9 * B))}"))["sel"])
            if real != model:
                ctx.disagreement("select_start_nodes generic", {"env": name, "num_loc": num_loc, "B": B, "k": k,
                                                                "real": real, "model": model})
            ctx.case(("starts-generic", name, num_loc, B, k), nontrivial=k > 1)


def _make_env(name, n):
    from rl4co.envs import get_env

    if name == "mtvrp":
        return get_env(name, generator_params=dict(num_loc=n, variant_preset="all"))
    if name in ("flp", "mcp"):
        return get_env(name)
    if name == "pdp":
        return get_env(name, generator_params=dict(num_loc=n + (n % 2)))
    if name == "smtwtp":
        return get_env(name, generator_params=dict(num_job=n))
    if name in ("dpp", "mdpp"):
        # built without the impedance-data download, the way harness/units/select.py does (stubbed `_load_dpp_data`)
        import units.select as _sel

        gp = dict(max_decaps=2, num_keepout_min=1, num_keepout_max=3)
        if name == "mdpp":
            gp.update(num_probes_min=1, num_probes_max=2)
        return _sel.make_dpp_env(name == "mdpp", 3 if n < 6 else 4, gp)
    return get_env(name, generator_params=dict(num_loc=n))


REAL_ENVS = ["tsp", "atsp", "cvrp", "cvrptw", "sdvrp", "svrp", "op", "pctsp", "spctsp", "pdp", "mtsp", "mtvrp",
             "smtwtp", "flp", "mcp", "dpp", "mdpp"]
NO_DEPOT_ACTIONS = ("tsp", "atsp", "flp", "mcp", "dpp", "mdpp")  # every index 0..nAct-1 is a start candidate


def _starts_oracle(ctx, name, mask, sel, B, k, lo, extra=None, branch=""):
    """Spec oracle on the REAL forced starts of every instance, with the REAL reset mask."""
    nAct = mask.shape[-1]
    lines = []
    for b in range(B):
        st = [sel[j * B + b] for j in range(k)]
        lines.append(f"ops.spec.starts {lo} {nAct} | {ilist(mask[b].int().tolist())} | {ilist(st)}")
    for b, r in enumerate(ctx.driver.ask_many(lines)):
        f = parse_fields(r)
        st = [sel[j * B + b] for j in range(k)]
        wit = {"env": name, "B": B, "k": k, "instance": b, "feasible_first_moves": [j for j in range(lo, nAct) if mask[b, j]],
               "forced_starts": st}
        if extra:
            wit.update(extra)
        oor = [v for v in st if not (0 <= v < nAct)]
        if oor:
            viol(ctx, f"starts-out-of-range:{name}", f"{name}: a forced start is not an action index of the instance (mask width {nAct})",
                 dict(wit, out_of_range=oor))
        elif name == "op" and f["feasstrong"] != "1":
            viol(ctx, "starts-infeasible:op:although-some-feasible",
                 "op: a forced start is infeasible for its instance although the instance has a feasible customer", wit)
        elif f["feasstrong"] != "1" and f["feasok"] == "1":
            # more starts requested than feasible ones exist (k > #feasible, e.g. num_starts / beam width > num_loc): the
            # starts necessarily repeat, but each of them must still be admitted by the instance's reset mask
            viol(ctx, f"starts-infeasible:{name}{branch}:k>feasible",
                 f"{name}: a forced start is not admitted by the instance's reset mask (more starts than feasible ones requested; "
                 "the instance does have feasible starts)", wit)
        if f["feasok"] != "1":
            viol(ctx, f"starts-infeasible:{name}{branch}",
                          f"{name}: a forced start is infeasible for its instance although >= k feasible starts exist", wit)
        if f["distinctok"] != "1":
            viol(ctx, f"starts-duplicate:{name}{branch}",
                          f"{name}: forced starts of one instance are not pairwise distinct although >= k feasible starts exist", wit)
        ctx.count(f"starts.{name}." + ("k<=feasible" if k <= int(f["feas"]) else "k>feasible"))
        if k == int(f["feas"]):
            ctx.count(f"starts.{name}.k=feasible")


def check_starts_envs(ctx):
    """`env.get_num_starts(td)` / `env.select_start_nodes(td, k)` of the real environment classes on reset
    batches of the bundled generators; oracle = Spec.startsOk with the real reset mask."""
    torch.manual_seed(ctx.rng.randrange(1 << 30))
    reps = ctx.budget(2, 8)
    for name in REAL_ENVS:
        for rep_i in range(reps):
            n = ctx.rng.choice([4, 5, 6, 8])
            try:
                env = _make_env(name, n)
                B = [2, 4, 3, 1, 6][rep_i % 5]  # k runs over 1..kmax, so every env sees gcd(B, k) > 1 (B=2/4 with k=2,4,6 …)
                td = env.reset(batch_size=[B])
            except Exception as e:  # environment cannot be built here (e.g. needs a download)
                ctx.note(f"{name}: cannot build/reset ({type(e).__name__}); covered by the generic-function check only")
                break
            mask = td["action_mask"]
            nAct = mask.shape[-1]
            nLocs = td["locs"].shape[-2] if "locs" in td.keys() else nAct
            gen = getattr(env.generator, "num_loc", NO_NUM_LOC)
            f = parse_fields(ctx.driver.ask(f"ops.numstarts {name} {nAct} {nLocs}"))
            real_k = env.get_num_starts(td)
            if int(real_k) != int(f["method"]):
                ctx.disagreement("env.get_num_starts", {"env": name, "nAct": nAct, "nLocs": nLocs, "real": int(real_k),
                                                        "model": f["method"]})
            lo = 0 if name in NO_DEPOT_ACTIONS else 1
            kmax = min(int(real_k) + 2, 12)
            M = nAct - lo  # number of non-depot actions: sweep beyond it (num_starts / beam width > num_loc)
            from rl4co.utils.ops import get_num_starts as _generic_num_starts

            ks = set(range(1, kmax + 1)) | {int(real_k), int(_generic_num_starts(td, name))}  # POMO's / SymNCO's default
            if M <= 20:
                ks |= {M + 1, 2 * M, 2 * M + 1}
            else:
                ks |= {M + 1}
            for k in sorted(v for v in ks if v >= 1):
                tseed = ctx.rng.randrange(1 << 30)
                torch.manual_seed(tseed)
                try:
                    sel = env.select_start_nodes(td, k).tolist()
                except Exception as e:  # noqa: BLE001
                    viol(ctx, f"starts-raised:{name}", f"{name}: select_start_nodes raised on a reset batch",
                         {"env": name, "B": B, "k": k, "mask": mask.int().tolist(), "error": repr(e)[:200]})
                    continue
                if name == "op":
                    mf = parse_fields(ctx.driver.ask(
                        f"ops.opstarts {nAct - 1} {k} {B} | {ilist(mask.int().flatten().tolist())}"))
                    ctx.count("op.generated." + ("all-feasible" if bool(mask[:, 1:].all()) else "some-infeasible"))
                    if sel != csv(mf["sel"]):
                        ctx.disagreement("op select_start_nodes", {"B": B, "k": k, "mask": mask.int().tolist(), "real": sel,
                                                                   "model": csv(mf["sel"])})
                else:
                    mf = parse_fields(ctx.driver.ask(f"ops.starts {name} {B} {k} {gen} {nAct} {nLocs}"))
                    if sel != csv(mf["method"]):
                        ctx.disagreement("env.select_start_nodes", {"env": name, "B": B, "k": k, "real": sel,
                                                                    "model": csv(mf["method"])})
                branch = ""
                if name == "svrp":  # the known SVRP defect is "generic prefix rule applied regardless of the mask"
                    branch = ":generic-rule" if sel == csv(mf["method"]) else ":other"
                if name in ("dpp", "mdpp"):  # known: generic rule 1..k ignores the keep-out / probe cells masked at reset
                    branch = ":keepout" if sel == csv(mf["method"]) else ":other"
                _starts_oracle(ctx, name, mask, sel, B, k, lo, extra={"num_loc": n, "torch_seed": tseed}, branch=branch)
                ctx.case(("starts-env", name, n, B, k, rep_i), nontrivial=k > 1)


def _op_td(rows, L=1.0):
    """OP instances with hand-picked feasible first moves: node j is feasible iff rows[b][j-1] (near node:
    there-and-back 0.25 <= L; far node: 1.5 > L)."""
    B, n = len(rows), len(rows[0])
    locs = torch.zeros(B, n, 2)
    for b, row in enumerate(rows):
        for j, near in enumerate(row):
            locs[b, j, 0] = 0.125 if near else 0.75
            locs[b, j, 1] = j / 64.0
    return TensorDict({"locs": locs, "depot": torch.zeros(B, 2), "prize": torch.ones(B, n) / n,
                       "max_length": torch.full((B,), float(L))}, batch_size=[B])


def check_starts_op(ctx):
    """OP boundary instances: exactly k / fewer than k / more than k feasible starts, alone and mixed in
    one batch (the resampling test is batch-global)."""
    from rl4co.envs import OPEnv

    pats = []
    for n in (4, 5, 6):
        env = OPEnv(generator_params=dict(num_loc=n))
        for k in range(1, n + 1):
            allrows = [list(r) for r in itertools.product([0, 1], repeat=n)]  # incl. no feasible customer at all
            exact = [r for r in allrows if sum(r) == k]
            fewer = [r for r in allrows if sum(r) < k]
            more = [r for r in allrows if sum(r) > k]
            chosen = []
            for pool, tag in ((exact, "exact"), (fewer, "fewer"), (more, "more")):
                ctx.rng.shuffle(pool)
                for r in pool[: ctx.budget(3, 12)]:
                    chosen.append(([r], tag))
            for _ in range(ctx.budget(3, 12)):
                if exact and fewer:
                    chosen.append(([ctx.rng.choice(exact), ctx.rng.choice(fewer)], "exact+fewer"))
                if more and fewer:
                    chosen.append(([ctx.rng.choice(more), ctx.rng.choice(fewer), ctx.rng.choice(more)], "more+fewer"))
                if exact and more:
                    chosen.append(([ctx.rng.choice(exact), ctx.rng.choice(more)], "exact+more"))
            for rows, tag in chosen:
                pats.append((env, n, k, rows, tag))
    for env, n, k, rows, tag in pats:
        B = len(rows)
        td = env.reset(_op_td(rows))
        mask = td["action_mask"]
        want = [[1] + r for r in rows]
        if mask.int().tolist() != want:
            ctx.disagreement("op reset mask of crafted instance", {"rows": rows, "mask": mask.int().tolist()})
            continue
        seed = ctx.rng.randrange(1 << 30)
        torch.manual_seed(seed)
        try:
            sel = env.select_start_nodes(td, k).tolist()
        except Exception as e:  # noqa: BLE001
            viol(ctx, "starts-raised:op", "op: select_start_nodes raised on a reset batch",
                 {"rows": rows, "k": k, "error": repr(e)[:200]})
            continue
        mf = parse_fields(ctx.driver.ask(f"ops.opstarts {n} {k} {B} | {ilist(mask.int().flatten().tolist())}"))
        ctx.count(f"op.crafted.{tag}")
        if sel != csv(mf["sel"]):
            ctx.disagreement("op select_start_nodes", {"rows": rows, "k": k, "real": sel, "model": csv(mf["sel"])})
        # batch independence of the rule: every instance alone gets the same starts
        for b in range(B):
            solo = env.select_start_nodes(env.reset(_op_td([rows[b]])), k).tolist()
            if solo != [sel[j * B + b] for j in range(k)]:
                viol(ctx, "starts-batch-dependent:op", "op: forced starts of an instance depend on its batch-mates",
                     {"rows": rows, "k": k, "instance": b, "solo": solo, "batched": [sel[j * B + b] for j in range(k)]})
        # all customers feasible => identical to the generic depot rule
        if all(all(r) for r in rows) and sel != [(r // B) % n + 1 for r in range(k * B)]:
            viol(ctx, "starts-not-generic:op", "op: with all customers feasible the starts differ from the generic rule",
                 {"rows": rows, "k": k, "sel": sel})
        _starts_oracle(ctx, "op", mask, sel, B, k, 1, extra={"crafted": tag, "torch_seed": seed, "rows": rows})
        if B >= 2 and "fewer" in tag:
            ctx.sample({"what": "OP select_start_nodes, feasible counts differing inside the batch", "k": k,
                        "feasible_first_moves": [[j + 1 for j, v in enumerate(r) if v] for r in rows],
                        "forced_starts_per_instance": [[sel[j * B + b] for j in range(k)] for b in range(B)]}, cap=2)
        ctx.case(("starts-op", n, k, tuple(map(tuple, rows))), nontrivial=True)
    # bundled generator data with heterogeneous length budgets inside one batch (tight … loose)
    for _ in range(ctx.budget(6, 40)):
        n = ctx.rng.choice([5, 8, 10])
        env = OPEnv(generator_params=dict(num_loc=n))
        B = ctx.rng.choice([2, 3, 4, 6])
        torch.manual_seed(ctx.rng.randrange(1 << 30))
        raw = env.generator(batch_size=[B])
        d0 = (raw["locs"] - raw["depot"][:, None]).norm(dim=-1)  # [B, n]
        srt = d0.sort(-1).values
        # instance b can reach about (b+1)*n/B of its customers
        cut = torch.stack([srt[b, min(n - 1, max(0, (b + 1) * n // B - 1))] for b in range(B)])
        raw["max_length"] = 2 * cut + 1e-3
        td = env.reset(raw.clone())  # reset writes into the TensorDict it is given
        mask = td["action_mask"]
        counts = mask[:, 1:].sum(-1).tolist()
        for k in sorted({1, 2, min(counts), max(counts), n, n + 2}):
            if k < 1:
                continue
            try:
                sel = env.select_start_nodes(td, k).tolist()
            except Exception as e:  # noqa: BLE001
                viol(ctx, "starts-raised:op", "op: select_start_nodes raised on a reset batch", {"k": k, "counts": counts, "error": repr(e)[:200]})
                continue
            mf = parse_fields(ctx.driver.ask(f"ops.opstarts {n} {k} {B} | {ilist(mask.int().flatten().tolist())}"))
            if sel != csv(mf["sel"]):
                ctx.disagreement("op select_start_nodes", {"mask": mask.int().tolist(), "k": k, "real": sel, "model": csv(mf["sel"])})
            for b in range(B):
                solo = env.select_start_nodes(env.reset(raw[b: b + 1].clone()), k).tolist()
                if solo != [sel[j * B + b] for j in range(k)]:
                    viol(ctx, "starts-batch-dependent:op", "op: forced starts of an instance depend on its batch-mates",
                         {"feasible_counts": counts, "k": k, "instance": b, "solo": solo, "batched": [sel[j * B + b] for j in range(k)]})
            _starts_oracle(ctx, "op", mask, sel, B, k, 1, extra={"heterogeneous_max_length": True, "feasible_counts": counts})
            ctx.count("op.heterogeneous-budgets" + (".counts-differ" if len(set(counts)) > 1 else ""))
            ctx.case(("starts-op-het", n, B, k, tuple(counts)), nontrivial=True)


def check_starts_svrp(ctx):
    """SVRP boundary instances: node 1 needs the most skilled technician (so it is not a feasible first move
    for technician 0) while all other customers are feasible — at least k feasible starts exist for k <= n-1."""
    from rl4co.envs import get_env

    for n in (4, 6):
        env = get_env("svrp", generator_params=dict(num_loc=n))
        torch.manual_seed(ctx.rng.randrange(1 << 30))
        for B in (1, 3):
            raw = env.generator(batch_size=[B])
            raw["techs"][:, 0, 0] = raw["techs"][:, -1, 0] * 0.5
            raw["skills"][:, 0, 0] = raw["techs"][:, -1, 0]
            raw["skills"][:, 1:, 0] = raw["techs"][:, 0:1, 0] * 0.5
            td = env.reset(raw)
            mask = td["action_mask"]
            if mask.dim() != 2 or mask[:, 1].any() or not mask[:, 2:].all():
                ctx.note("svrp crafted instance did not produce the intended reset mask")
                continue
            for k in range(1, n + 1):
                sel = env.select_start_nodes(td, k).tolist()
                mf = parse_fields(ctx.driver.ask(f"ops.starts svrp {B} {k} {n} {mask.shape[-1]} {td['locs'].shape[-2]}"))
                if sel != csv(mf["method"]):
                    ctx.disagreement("env.select_start_nodes", {"env": "svrp", "B": B, "k": k, "real": sel, "model": csv(mf["method"])})
                _starts_oracle(ctx, "svrp", mask, sel, B, k, 1, extra={"crafted": "node 1 needs the top technician"},
                               branch=":generic-rule" if sel == csv(mf["method"]) else ":other")
                ctx.case(("starts-svrp", n, B, k))


def check_start_hooks(ctx):
    """the consumers of select_start_nodes / get_num_starts: `DecodingStrategy.pre_decoder_hook` (multistart) and
    `BeamSearch.pre_decoder_hook` (C13's forced starts) on real environments, with num_starts / beam width below,
    at and ABOVE the number of customers and left to the default; POMO / SymNCO default num_starts.
    Every forced first action must be admitted by the reset mask of its own instance (row r ↔ instance r mod B)."""
    from rl4co.utils.decoding import BeamSearch, Greedy
    from rl4co.utils.ops import get_num_starts

    torch.manual_seed(ctx.rng.randrange(1 << 30))
    names = ["tsp", "cvrp", "sdvrp", "pctsp", "cvrptw", "spctsp", "op", "pdp", "mtvrp", "atsp", "svrp"]
    for name in names:
        n = ctx.rng.choice([4, 5, 6])
        try:
            env = _make_env(name, n)
        except Exception:  # noqa: BLE001
            continue
        B = ctx.rng.choice([2, 3])
        td0 = env.reset(batch_size=[B])
        mask = td0["action_mask"]
        nAct = mask.shape[-1]
        lo = 0 if name in NO_DEPOT else 1
        M = nAct - lo
        for w in [2, M, M + 1, 2 * M + 1, None]:
            for kind in ("multistart", "beam"):
                try:
                    if kind == "multistart":
                        ds = Greedy(multistart=True, num_starts=w)
                        td1, _, k = ds.pre_decoder_hook(td0.clone(), env)
                    else:
                        ds = BeamSearch(beam_width=w)
                        td1, _, k = ds.pre_decoder_hook(td0.clone(), env)
                    sel = ds.actions[0].tolist()
                except Exception as e:  # noqa: BLE001
                    # stepping an out-of-range / infeasible forced action may crash inside env.step: judge the selection itself
                    k = w if w is not None else int(env.get_num_starts(td0))
                    sel = env.select_start_nodes(td0, k).tolist()
                    ctx.count(f"hook.{kind}.step-raised")
                if w is None and int(k) != int(env.get_num_starts(td0)):
                    ctx.disagreement("default num_starts of the decoding hook", {"env": name, "kind": kind, "k": int(k)})
                if len(sel) != B * int(k):
                    viol(ctx, f"hook:{kind}:rows", "pre_decoder_hook did not produce B*k forced actions", {"env": name, "B": B, "k": int(k)})
                    continue
                branch = ""
                gen = getattr(env.generator, "num_loc", NO_NUM_LOC)
                nLocs = td0["locs"].shape[-2] if "locs" in td0.keys() else nAct
                mf = parse_fields(ctx.driver.ask(f"ops.starts {name} {B} {int(k)} {gen} {nAct} {nLocs}"))
                if name != "op" and sel != csv(mf["hookbeam" if kind == "beam" else "hookms"]):
                    ctx.disagreement("forced starts of the pre_decoder_hook are not those of env.select_start_nodes",
                                     {"env": name, "kind": kind, "B": B, "k": int(k), "real": sel,
                                      "model": csv(mf["hookbeam" if kind == "beam" else "hookms"])})
                if name == "svrp":
                    branch = ":generic-rule" if sel == csv(mf["method"]) else ":other"
                _starts_oracle(ctx, name, mask, sel, B, int(k), lo, extra={"via": f"{kind} pre_decoder_hook", "requested": w}, branch=branch)
                ctx.count(f"hook.{kind}." + ("default" if w is None else ("k>customers" if w > M else "k<=customers")))
                ctx.case(("hook", name, kind, B, w), nontrivial=True)


def check_sample_n(ctx):
    """`sample_n_random_actions` (FJSP/JSSP forced starts): feasible always; distinct per instance when every
    instance of the batch has >= n feasible actions; the replacement decision is batch-global."""
    from rl4co.utils.ops import sample_n_random_actions

    w = 6
    allrows = [list(r) for r in itertools.product([0, 1], repeat=w - 1) if any(r)]
    for n in range(2, 5):  # n = 1 crashes in the function's own rearrange (squeeze(1) drops the dim); never used with 1
        for _ in range(ctx.budget(25, 200)):
            B = ctx.rng.randint(1, 4)
            rows = [[0] + ctx.rng.choice(allrows) for _ in range(B)]
            mask = torch.tensor(rows, dtype=torch.bool)
            seed = ctx.rng.randrange(1 << 30)
            torch.manual_seed(seed)
            sel = sample_n_random_actions(TensorDict({"action_mask": mask}, batch_size=[B]), n).tolist()
            if not isinstance(sel, list):
                sel = [sel]
            mf = parse_fields(ctx.driver.ask(f"ops.samplen {w} {n} {B} | {ilist(mask.int().flatten().tolist())} | {ilist(sel)}"))
            ctx.count("sample_n." + ("replace" if mf["replace"] == "1" else "noreplace"))
            if mf["ok"] != "1":
                ctx.disagreement("sample_n_random_actions outside the modelled relation", {"rows": rows, "n": n, "sel": sel})
            _starts_oracle(ctx, "sample_n_random_actions", mask, sel, B, n, 1, extra={"torch_seed": seed, "rows": rows},
                           branch=":replace" if mf["replace"] == "1" else ":noreplace")
            ctx.case(("sample_n", n, tuple(map(tuple, rows)), seed))


def check_starts_sched(ctx):
    """the `select_start_nodes` OVERRIDE of the scheduling environments (FJSPEnv, inherited by JSSPEnv) on real reset
    batches with explicit small num_starts k ∈ {2, 3, min #feasible, min #feasible + 1}: starts feasible for their own
    instance (row r ↔ instance r mod B), and pairwise distinct per instance when EVERY instance of the batch has >= k
    feasible first actions (otherwise the batch-global replacement of `sample_n_random_actions` applies — known finding)."""
    from rl4co.envs import FJSPEnv, JSSPEnv

    confs = [("fjsp", FJSPEnv, dict(num_jobs=4, num_machines=3, min_ops_per_job=2, max_ops_per_job=3)),
             ("jssp", JSSPEnv, dict(num_jobs=6, num_machines=3)), ("jssp", JSSPEnv, dict(num_jobs=3, num_machines=2))]
    for name, cls, gp in confs:
        env = cls(generator_params=gp)
        for B in (1, 2, 3):
            torch.manual_seed(ctx.rng.randrange(1 << 30))
            td = env.reset(batch_size=[B])
            mask = td["action_mask"]
            w = mask.shape[-1]
            feas = mask[:, 1:].sum(-1).tolist()
            for k in sorted({2, 3, min(feas), min(feas) + 1}):
                if k < 2:
                    continue  # k = 1 crashes in sample_n_random_actions' own rearrange (never used: multistart needs k > 1)
                for rep_i in range(ctx.budget(3, 10)):
                    seed = ctx.rng.randrange(1 << 30)
                    torch.manual_seed(seed)
                    try:
                        sel = env.select_start_nodes(td, k).tolist()
                    except Exception as e:  # noqa: BLE001
                        viol(ctx, f"starts-raised:{name}", f"{name}: select_start_nodes raised on a reset batch",
                             {"env": name, "B": B, "k": k, "error": repr(e)[:200]})
                        break
                    mf = parse_fields(ctx.driver.ask(f"ops.samplen {w} {k} {B} | {ilist(mask.int().flatten().tolist())} | {ilist(sel)}"))
                    replace = mf["replace"] == "1"
                    ctx.count(f"starts.sched.{name}." + ("some-row-has-fewer" if replace else "all-rows-have-k"))
                    ctx.case(("starts-sched", name, B, k, seed), nontrivial=True)
                    if mf["fjspok"] != "1":
                        ctx.disagreement(f"{name} select_start_nodes outside the modelled relation (delegation to sample_n_random_actions)",
                                         {"env": name, "B": B, "k": k, "feasible_counts": feas, "sel": sel})
                    if len(sel) != k * B:
                        viol(ctx, f"starts-rows:{name}", "select_start_nodes did not return k*B actions", {"env": name, "B": B, "k": k})
                        continue
                    extra = {"env": name, "torch_seed": seed, "feasible_counts": feas, "via": f"{cls.__name__}.select_start_nodes"}
                    if replace:  # the known batch-global replacement decision, reached through the env method
                        _starts_oracle(ctx, "sample_n_random_actions", mask, sel, B, k, 1, extra=extra, branch=":replace")
                    else:
                        _starts_oracle(ctx, name, mask, sel, B, k, 1, extra=extra, branch=":all-rows-have-k")
    ctx.sample({"what": "FJSP/JSSP select_start_nodes override", "k": "2,3,min feasible,min feasible+1", "B": [1, 2, 3]}, cap=3)


# --------------------------------------------------------------------------------------------------
# C12 (3): best-of-k selection


def _best_spec(ctx, what, B, k, rewards, chosen_rows, returned, witness):
    lines = []
    for b in range(B):
        rs = [rewards[j * B + b] for j in range(k)]
        row = chosen_rows[b]
        j = row // B if (row % B == b and 0 <= row < k * B) else k  # not a rollout of instance b → index out of range
        lines.append(f"ops.spec.best {j} {returned[b]} | {ilist(rs)}")
    for b, r in enumerate(ctx.driver.ask_many(lines)):
        if parse_fields(r)["ok"] != "1":
            w = dict(witness)
            w.update({"instance": b, "rewards_of_instance": [rewards[j * B + b] for j in range(k)],
                      "returned_reward": returned[b], "returned_row": chosen_rows[b]})
            viol(ctx, what, "best-selection did not return the maximum of the instance's own rollouts together "
                                "with the actions/log-likelihood of that very rollout", w)


def check_select_best(ctx):
    from rl4co.utils.decoding import Greedy
    from rl4co.utils.ops import get_best_actions

    cases = []
    for B in range(1, 5):
        for k in range(1, 5):
            for mode in ("distinct", "ties", "allequal"):
                cases.append((B, k, mode))
    for _ in range(ctx.budget(60, 600)):
        cases.append((ctx.rng.randint(1, 24), ctx.rng.randint(1, 12), ctx.rng.choice(["distinct", "ties", "ties"])))
    tie_first = tie_last = tie_other = 0
    for B, k, mode in cases:
        N, L = B * k, 3
        if mode == "distinct":
            rew = list(range(-N, 0))
            ctx.rng.shuffle(rew)
        elif mode == "ties":
            rew = [ctx.rng.randint(-3, 0) for _ in range(N)]
        else:
            rew = [-2] * N
        f = parse_fields(ctx.driver.ask(f"ops.selectbest {B} {k} | {ilist(rew)}"))
        first, last, val = csv(f["first"]), csv(f["last"]), csv(f["val"])
        rows = torch.arange(N)
        actions = rows[:, None] * 16 + torch.arange(L)[None]
        logp = -(rows[:, None] * 16 + torch.arange(L)[None]).float() / 64.0
        td = TensorDict({"rew": torch.tensor(rew, dtype=torch.float32), "row": rows.clone(),
                         "x": rows[:, None, None].float() + torch.zeros(N, 2, 2)}, batch_size=[N])
        env = types.SimpleNamespace(get_reward=lambda td_, a_: td_["rew"])
        ds = Greedy(multistart=True, num_starts=k, select_best=True)
        ds.num_starts = k
        ds.logprobs = [logp[:, t] for t in range(L)]
        ds.actions = [actions[:, t] for t in range(L)]
        lp2, ac2, td2, _ = ds.post_decoder_hook(td, env)
        got = td2["row"].tolist()
        ret = [int(v) for v in td2["rew"].tolist()]
        ok_shapes = list(td2.batch_size) == [B] and list(ac2.shape) == [B, L] and list(lp2.shape) == [B, L]
        same_rollout = ok_shapes and all(
            torch.equal(ac2[b], actions[got[b]]) and torch.equal(lp2[b], logp[got[b]])
            and torch.equal(td2["x"][b], td["x"][got[b]]) for b in range(B))
        if not same_rollout:
            viol(ctx, "select_best:mixed-rollouts", "_select_best returned actions / log-probs / td of different rows",
                          {"B": B, "k": k, "rewards": rew, "td_rows": got})
        # the same selection with `store_all_logp=True` (log-probs of all actions: [N, T, A])
        A_ = 2
        logp3 = logp[:, :, None] - torch.arange(A_)[None, None].float() / 1024.0
        ds3 = Greedy(multistart=True, num_starts=k, select_best=True, store_all_logp=True)
        ds3.num_starts = k
        ds3.logprobs = [logp3[:, t] for t in range(L)]
        ds3.actions = [actions[:, t] for t in range(L)]
        lp3, ac3, td3, _ = ds3.post_decoder_hook(td, env)
        if (td3["row"].tolist() != got or list(lp3.shape) != [B, L, A_]
                or not all(torch.equal(lp3[b], logp3[got[b]]) and torch.equal(ac3[b], actions[got[b]]) for b in range(B))):
            viol(ctx, "select_best:mixed-rollouts", "_select_best (store_all_logp) returned log-probs / actions of different rows",
                 {"B": B, "k": k, "rewards": rew, "td_rows": td3["row"].tolist()})
        ctx.sample({"what": "_select_best", "B": B, "k": k, "rewards_row_major_k": rew[:24], "chosen_rows": got, "returned_rewards": ret}
                   ) if (B >= 2 and k >= 3 and mode == "ties") else None
        if got == first:
            tie_first += got != last
        elif got == last:
            tie_last += 1
        elif mode == "distinct":
            ctx.disagreement("_select_best rows", {"B": B, "k": k, "rewards": rew, "real": got, "model": first})
        else:
            tie_other += 1
        if ret != val:
            ctx.disagreement("_select_best reward", {"B": B, "k": k, "rewards": rew, "real": ret, "model": val})
        _best_spec(ctx, "select_best:not-best-of-own", B, k, rew, got, ret, {"B": B, "k": k, "rewards": rew})
        ctx.count(f"select_best.{mode}")
        ctx.case(("select_best", B, k, tuple(rew)), nontrivial=k > 1)

        # get_best_actions(actions, max_idxs)
        idx = [r // B for r in first]
        fb = parse_fields(ctx.driver.ask(f"ops.bestactions {N} {B} | {ilist(idx)}"))
        try:
            gb = get_best_actions(actions, torch.tensor(idx, dtype=torch.long))
            real_rows = [int(v) // 16 for v in gb.reshape(-1).tolist()]
            real_shape = list(gb.shape)
        except Exception as e:  # noqa: BLE001
            real_rows, real_shape = None, repr(e)
        if real_rows != csv(fb["rows"]) or real_shape != csv(fb["shape"]):
            ctx.disagreement("get_best_actions", {"B": B, "k": k, "idx": idx, "real_rows": real_rows, "real_shape": real_shape,
                                                  "model": fb})
        elif real_rows != first:
            viol(ctx, "get_best_actions:wrong-rollout",
                 "get_best_actions(actions, max_idxs) returns (the first action of) row max_idxs[b] of the flat batch, which is a "
                 "rollout of another instance / another copy, instead of rollout max_idxs[b] of instance b (row max_idxs[b]*B + b)",
                 {"B": B, "k": k, "max_idxs": idx, "returned_shape": real_shape, "returned_first_action_of_rows": real_rows,
                  "rows_of_best_rollouts": first})
        elif real_shape != [B, L]:
            viol(ctx, "get_best_actions:first-action-only",
                 "get_best_actions returns shape [B,1,1] (only the first action) instead of the action sequence [B,L]",
                 {"B": B, "k": k, "max_idxs": idx, "returned_shape": real_shape, "L": L})
        ctx.count("get_best_actions")
    ctx.note(f"torch max tie-breaking observed: first-index {tie_first}x, last-index {tie_last}x, other {tie_other}x")


# --------------------------------------------------------------------------------------------------
# C12 (4): the users — POMO / SymNCO shared_step, eval classes, AM decoder cache regrouping


def _decode_tag(v):
    v = int(round(float(v)))
    return v // 10000, (v // 100) % 100, v % 100  # instance, aug, start


class _StubPolicy(torch.nn.Module):
    """reward of row r encodes (instance, augmentation, start) read from the row's own data; expansion by
    the real `batchify`; the start index of row r is r // rows-before-expansion (k-major law, checked in
    check_batchify)"""
    train_decode_type = "sampling"
    val_decode_type = "greedy"
    test_decode_type = "greedy"

    def __init__(self):
        super().__init__()
        self.p = torch.nn.Parameter(torch.zeros(1))
        self.perturb = None

    def forward(self, td, env=None, phase=None, num_starts=0, decode_type=None, **kw):
        from rl4co.utils.ops import batchify

        n0 = td.shape[0]
        tdx = batchify(td, num_starts) if num_starts and num_starts > 1 else td
        r = torch.arange(tdx.shape[0])
        start = r // n0
        inst = (tdx["locs"][:, 0, 0] * 64).round().long()
        aug = (tdx["locs"][:, 0, 1] * 64).round().long()
        code = inst * 10000 + aug * 100 + start
        rew = code.float()
        if self.perturb is not None:
            rew = self.perturb(inst, aug, start)
        acts = torch.stack([code, code + 0, inst], 1)
        self.last_num_starts = num_starts
        return {"reward": rew, "log_likelihood": -code.float() + self.p * 0, "actions": acts,
                "proj_embeddings": torch.zeros(tdx.shape[0], 2, 4)}


def _augfn(x, A):
    x = x.clone()
    B = x.shape[0] // A
    x[:, :, 1] = (torch.arange(x.shape[0]) // B)[:, None] / 64.0
    return x


def _tag_batch(B, n=4):
    locs = torch.zeros(B, n, 2)
    locs[:, :, 0] = torch.arange(B)[:, None] / 64.0
    return TensorDict({"locs": locs}, batch_size=[B])


def check_users(ctx):
    from rl4co.envs import TSPEnv
    import rl4co.models.zoo.symnco.model as symmod
    from rl4co.models.zoo.pomo.model import POMO
    from rl4co.models.zoo.symnco.model import SymNCO

    env = TSPEnv(generator_params=dict(num_loc=4))
    combos = [(B, A, S) for B in (1, 2, 3) for A in (1, 2, 3) for S in (2, 3, 4)]
    if ctx.tier != "thorough" and not ctx.searching:
        combos = [c for c in combos if c in {(1, 1, 2), (2, 2, 3), (3, 2, 3), (2, 3, 2), (3, 3, 3), (2, 1, 4), (3, 2, 2), (1, 3, 4)}]

    def reward_fn(seed):
        def f(inst, aug, start):
            g = torch.Generator().manual_seed(seed)
            table = torch.randint(0, 5, (64, 8, 8), generator=g).float()
            return table[inst, aug, start] - 7.0
        return f

    # default num_starts (None): POMO asks env.get_num_starts(td), SymNCO the generic get_num_starts(td, env.name)
    nf = parse_fields(ctx.driver.ask("ops.numstarts tsp 4 4"))
    for who, cls_, kw, want in (("pomo", POMO, dict(num_augment=1), int(nf["method"])), ("symnco", SymNCO, dict(num_augment=2, augment_fn=_augfn), int(nf["generic"]))):
        pol0 = _StubPolicy()
        # SymNCO's constructor cannot take None (`self.num_starts > 1`); its shared_step can
        m0 = cls_(env, policy=pol0, num_starts=None if who == "pomo" else 2, **kw)
        m0.num_starts = None
        m0.log_metrics = lambda out, phase, dataloader_idx=None: {}
        m0.shared_step(_tag_batch(2), 0, "val")
        ctx.count(f"{who}.default-num_starts")
        if pol0.last_num_starts != want:
            ctx.disagreement(f"{who} default num_starts", {"real": pol0.last_num_starts, "model": want})
    for B, A, S in combos:
        batch = _tag_batch(B)
        # ------------------------------------------------ POMO
        pol = _StubPolicy()
        m = POMO(env, policy=pol, num_augment=A, num_starts=S, augment_fn=_augfn)
        cap = {}
        m.log_metrics = lambda out, phase, dataloader_idx=None: cap.update(out=out) or {}
        m.calculate_loss = lambda td, batch, out, reward, ll: cap.update(train=(reward, ll))
        m.shared_step(batch.clone(), 0, "train")
        rew, ll = cap["train"]
        mu = parse_fields(ctx.driver.ask(f"ops.unbatchify {B * S} | 0 {S}"))
        ok = list(rew.shape) == csv(mu["shape"])
        if ok:
            # layout entering the policy output in training: row = s*B + b
            want = [(r % B, 0, r // B) for r in csv(mu["flat"])]
            ok = [_decode_tag(v) for v in rew.reshape(-1).tolist()] == want and torch.equal(ll, -rew)
        if not ok:
            ctx.disagreement("POMO train regrouping", {"B": B, "S": S, "reward": rew.tolist()})
        for b in range(B):
            if any(_decode_tag(v)[0] != b for v in rew[b].reshape(-1).tolist()):
                viol(ctx, "pomo:train-group-mixes-instances", "POMO's shared baseline group contains another instance's rollout",
                              {"B": B, "S": S, "reward": rew.tolist()})
        seed = ctx.rng.randrange(1 << 30)
        pol.perturb = reward_fn(seed)
        m.shared_step(batch.clone(), 0, "val")
        out = cap["out"]
        _check_best_of_all(ctx, "pomo", out, B, A, S, pol, seed)
        ctx.count("pomo.shared_step")
        ctx.case(("pomo", B, A, S, seed))

        # ------------------------------------------------ SymNCO
        pol = _StubPolicy()
        s = SymNCO(env, policy=pol, num_augment=A, num_starts=S, augment_fn=_augfn)
        s.log_metrics = lambda out, phase, dataloader_idx=None: cap.update(out=out) or {}
        saved = (symmod.problem_symmetricity_loss, symmod.solution_symmetricity_loss, symmod.invariance_loss)
        try:
            symmod.problem_symmetricity_loss = lambda r, l: cap.update(ps=(r, l)) or 0
            symmod.solution_symmetricity_loss = lambda r, l: cap.update(ss=(r, l)) or 0
            symmod.invariance_loss = lambda e, n: 0
            s.shared_step(batch.clone(), 0, "train")
        finally:
            symmod.problem_symmetricity_loss, symmod.solution_symmetricity_loss, symmod.invariance_loss = saved
        rew = cap["ps"][0]
        mu = parse_fields(ctx.driver.ask(f"ops.unbatchify {B * A * S} | {S} {A}"))
        # the policy output is laid out start-outer / aug-inner: row = s*(A*B) + a*B + b
        want = [(r % B, (r // B) % A, r // (A * B)) for r in csv(mu["flat"])]
        if list(rew.shape) != csv(mu["shape"]) or [_decode_tag(v) for v in rew.reshape(-1).tolist()] != want:
            ctx.disagreement("SymNCO regrouping", {"B": B, "A": A, "S": S, "reward": rew.tolist()})
        mixed = False
        for b in range(B):
            tags = [[_decode_tag(v) for v in row] for row in rew[b].tolist()]
            if any(t[0] != b for row in tags for t in row):
                viol(ctx, "symnco:group-mixes-instances", "a SymNCO group contains another instance's rollout",
                              {"B": B, "A": A, "S": S, "reward": rew.tolist()})
            # groups along dim 1 are labelled "start", along dim 2 "augmentation"
            if any(len({t[2] for t in row}) > 1 for row in tags) or any(len({tags[i][j][1] for i in range(S)}) > 1 for j in range(A)):
                mixed = True
        transposed = mixed and all(
            len({t[1] for t in row}) == 1 for b in range(B) for row in [[_decode_tag(v) for v in rw] for rw in rew[b].tolist()])
        ctx.count("symnco.groups-homogeneous" if not mixed else
                  ("symnco.groups-start/aug-swapped(C16)" if transposed else "symnco.groups-mixed(C16)"))
        pol.perturb = reward_fn(seed)
        s.shared_step(batch.clone(), 0, "val")
        _check_best_of_all(ctx, "symnco", cap["out"], B, A, S, pol, seed)
        ctx.count("symnco.shared_step")
        ctx.case(("symnco", B, A, S, seed))


def check_gather_default(ctx):
    """`gather_by_index(actions, max_idxs)` with the default dim=1 on `[B,S,A,L]` / `[B,A]` — the call in
    SymNCO's validation branch"""
    from rl4co.utils.ops import gather_by_index

    for B in (1, 2, 3):
        for S in (1, 2, 3, 4):
            for A in (1, 2, 3):
                L = 2
                src = torch.arange(B * S * A)[:, None].expand(B * S * A, L).reshape(B, S, A, L).contiguous()
                idx = torch.tensor([[ctx.rng.randrange(S) for _ in range(A)] for _ in range(B)], dtype=torch.long)
                f = parse_fields(ctx.driver.ask(f"ops.gatherdefault {B} {S} {A} | {ilist(idx.flatten().tolist())}"))
                out = gather_by_index(src, idx)
                nl = len(csv(f["shape"]))
                ctx.count("gather_by_index.default-dim")
                ctx.case(("gatherdefault", B, S, A, tuple(idx.flatten().tolist())), nontrivial=A > 1)
                if list(out.shape) != csv(f["shape"]) + [L] or out[..., 0].reshape(-1).tolist() != csv(f["flat"]):
                    ctx.disagreement("gather_by_index default dim", {"B": B, "S": S, "A": A, "real_shape": list(out.shape),
                                                                     "model_shape": csv(f["shape"])})
                want = [int(src[b, idx[b, a], a, 0]) for b in range(B) for a in range(A)]
                if list(out.shape) != [B, A, L] or out[..., 0].reshape(-1).tolist() != want:
                    viol(ctx, "symnco:best-actions-not-one-rollout",
                         "gather_by_index(actions[B,S,A,L], max_idxs[B,A]) (SymNCO validation) is not the best start's actions per "
                         "(instance, augmentation): shape [B,A,A,L]", {"B": B, "S": S, "A": A, "shape": list(out.shape)})


def check_gather_by_index(ctx):
    """`gather_by_index(src[B,N,…], idx[B,S] or [B], dim=1, squeeze)`: shape (does the step dimension survive?) and
    entries, for squeeze True / False / default"""
    from rl4co.utils.ops import gather_by_index

    for B in (1, 2, 3):
        for N in (1, 2, 4):
            src = (torch.arange(B * N).reshape(B, N, 1)).contiguous()
            for S in (1, 2, 3):
                idx = torch.tensor([[ctx.rng.randrange(N) for _ in range(S)] for _ in range(B)], dtype=torch.long)
                for sq in (0, 1, 2):
                    f = parse_fields(ctx.driver.ask(f"ops.gather2 {B} {N} {S} {sq} | {ilist(idx.flatten().tolist())}"))
                    variants = [idx] + ([idx[:, 0]] if S == 1 else [])  # a [B] index is the one-step case after the view
                    for ix in variants:
                        out = gather_by_index(src, ix) if sq == 2 else gather_by_index(src, ix, squeeze=bool(sq))
                        ctx.count("gather_by_index." + ("step-kept" if out.dim() == 3 else "step-squeezed"))
                        ctx.case(("gbi", B, N, S, sq, ix.dim(), tuple(idx.flatten().tolist())), nontrivial=N > 1)
                        if list(out.shape) != csv(f["shape"]) or out.reshape(-1).tolist() != csv(f["flat"]):
                            ctx.disagreement("gather_by_index", {"B": B, "N": N, "S": S, "squeeze": sq, "idx_dim": ix.dim(),
                                                                 "real_shape": list(out.shape), "model_shape": csv(f["shape"])})


def _check_best_of_all(ctx, who, out, B, A, S, pol, seed):
    """validation outputs: max_reward / max_aug_reward and the 'best … actions' must be, per instance, the
    maximum over that instance's own rollouts and the actions of that very rollout"""
    flat = out["reward"].reshape(-1)  # the policy's flat output; row r belongs to instance r mod B
    # rewards / codes per instance, from the flat policy output and the row -> instance law
    N = B * A * S
    per = {b: [(float(flat[r]), r) for r in range(N) if r % B == b] for b in range(B)}
    key = "max_aug_reward" if A > 1 else "max_reward"
    got = out[key].reshape(B, -1).max(-1).values if key == "max_reward" else out[key]
    for b in range(B):
        best = max(v for v, _ in per[b])
        if float(got[b]) != best:
            viol(ctx, f"{who}:best-reward-not-own-max", f"{who} shared_step: {key} is not the maximum over the instance's own rollouts",
                          {"B": B, "A": A, "S": S, "instance": b, "returned": float(got[b]), "own": per[b], "seed": seed})
    akey = "best_aug_actions" if A > 1 else "best_multistart_actions"
    acts = out.get(akey)
    if acts is None:
        return
    want_shape = [B, 3] if A > 1 else ([B, 1, 3] if who == "symnco" else [B, 3])
    if A == 1 and who == "pomo":
        acts = acts.reshape(B, -1, 3)[:, 0] if acts.dim() == 3 else acts
    if A == 1 and who == "symnco":
        acts = acts.reshape(B, -1, 3)
        want_shape = list(acts.shape)
        acts = acts[:, 0] if acts.shape[1] == 1 else acts
    if list(acts.shape) != [B, 3]:
        viol(ctx, f"{who}:best-actions-not-one-rollout",
                      f"{who} shared_step: {akey} has shape {list(acts.shape)} instead of one action sequence per instance",
                      {"B": B, "A": A, "S": S, "shape": list(acts.shape), "seed": seed})
        return
    for b in range(B):
        best = max(v for v, _ in per[b])
        inst, aug, start = _decode_tag(acts[b, 0])
        its = float(pol.perturb(torch.tensor([inst]), torch.tensor([aug]), torch.tensor([start])))
        if inst != b or its != best:
            viol(ctx, f"{who}:best-actions-not-best-rollout", f"{who} shared_step: {akey} is not the action sequence of a best rollout of the instance",
                          {"B": B, "A": A, "S": S, "instance": b, "returned_actions_tag": (inst, aug, start), "own": per[b], "seed": seed})


def check_eval(ctx):
    """tasks/eval.py: AugmentationEval / GreedyMultiStartEval / GreedyMultiStartAugmentEval `_inner`"""
    from rl4co.tasks.eval import AugmentationEval, GreedyMultiStartAugmentEval, GreedyMultiStartEval

    table = {}

    def get_reward(td, actions):
        # reward of a rollout, looked up by (instance, aug, start) tags carried by the actions
        code = actions[:, 0]
        inst, aug, start = code // 10000, (code // 100) % 100, code % 100
        # the td handed to get_reward must be the instance's own data
        inst_td = (td["locs"][:, 0, 0] * 64).round().long()
        bad = (inst_td != inst)
        r = table["t"][inst, aug, start] - 7.0
        return torch.where(bad, torch.full_like(r, 1e6), r)

    env = types.SimpleNamespace(get_reward=get_reward, name="tsp")
    for B, A, S in [(1, 1, 1), (2, 2, 3), (3, 3, 2), (4, 2, 4), (3, 4, 3), (5, 3, 3)][: ctx.budget(6, 6)]:
        seed = ctx.rng.randrange(1 << 30)
        table["t"] = torch.randint(0, 5, (64, 8, 8), generator=torch.Generator().manual_seed(seed)).float()
        pol = _StubPolicy()
        batch = _tag_batch(B)
        runs = []
        ev = AugmentationEval(env, num_augment=A, progress=False)
        ev.augmentation.augmentation = _augfn
        runs.append(("AugmentationEval", ev, A, 1))
        runs.append(("GreedyMultiStartEval", GreedyMultiStartEval(env, num_starts=S, progress=False), 1, S))
        ev = GreedyMultiStartAugmentEval(env, num_starts=S, num_augment=A, progress=False)
        ev.augmentation.augmentation = _augfn
        runs.append(("GreedyMultiStartAugmentEval", ev, A, S))
        for nm, ev, a, s in runs:
            acts, rews = ev._inner(pol, batch.clone())
            ctx.count(f"eval.{nm}")
            ctx.case(("eval", nm, B, a, s, seed), nontrivial=a * s > 1)
            if list(rews.shape) != [B] or acts.shape[0] != B:
                viol(ctx, f"eval:{nm}:shape", "eval returns one (actions, reward) per instance", {"B": B, "A": a, "S": s})
                continue
            for b in range(B):
                aa = range(a) if a > 1 else [0]
                ss = range(s) if s > 1 else [0]
                own = [float(table["t"][b, x, y] - 7.0) for x in aa for y in ss]
                inst, aug, start = _decode_tag(acts[b, 0])
                if float(rews[b]) != max(own) or inst != b or float(table["t"][inst, aug, start] - 7.0) != max(own):
                    viol(ctx, f"eval:{nm}:not-best-of-own", f"{nm}: returned reward/actions are not the best of the instance's own rollouts",
                                  {"B": B, "A": a, "S": s, "instance": b, "returned_reward": float(rews[b]),
                                   "returned_actions_tag": (inst, aug, start), "own_rewards": own, "seed": seed})


def check_am_decoder(ctx):
    """AttentionModelDecoder.forward: `td = unbatchify(td, S)` … `rearrange(logits, "b s l -> (s b) l")`
    (static embeddings) vs `cached.batchify(S)` (dynamic embeddings): the logits/mask of row r must be
    computed from state row r and the cache of instance r mod B."""
    from rl4co.models.nn.env_embeddings.dynamic import StaticEmbedding
    from rl4co.models.zoo.am.decoder import AttentionModelDecoder, PrecomputedCache

    class Ctx_(torch.nn.Module):
        def forward(self, emb, td):
            return td["tag"].float()[..., None]

    class Dyn(torch.nn.Module):
        def forward(self, td):
            return 0, 0, 0

    class Ptr(torch.nn.Module):
        def forward(self, q, k, v, lk, mask):
            if q.dim() == 3 and k.dim() == 3 and q.shape[0] == k.shape[0] and q.shape[1] != 1:
                return q * 1024.0 + k[:, None, :, 0]          # [B, S, L]
            return q.reshape(q.shape[0], 1) * 1024.0 + k[:, :, 0]  # [N, L]

    L = 4
    for B in range(1, 5):
        for S in range(2, 5):
            N = B * S
            rows = torch.arange(N)
            mask = ((rows[:, None] * 7 + torch.arange(L)[None] * 3) % 5 != 0)
            key = (torch.arange(B)[:, None, None] * 16.0 + torch.arange(L)[None, :, None]).expand(B, L, 2).contiguous()
            for dyn in (False, True):
                dec = AttentionModelDecoder(embed_dim=2, num_heads=1, env_name="tsp", context_embedding=Ctx_(),
                                            dynamic_embedding=Dyn() if dyn else StaticEmbedding(), pointer=Ptr())
                cached = PrecomputedCache(node_embeddings=key.clone(), graph_context=torch.zeros(B, 1),
                                          glimpse_key=key.clone(), glimpse_val=key.clone(), logit_key=key.clone())
                td = TensorDict({"tag": rows.clone(), "action_mask": mask.clone()}, batch_size=[N])
                logits, m2 = dec(td, cached, S)
                want = rows[:, None].float() * 1024.0 + (rows % B)[:, None].float() * 16.0 + torch.arange(L)[None].float()
                mr = parse_fields(ctx.driver.ask(f"ops.rearrange {N} {S}"))
                if csv(mr["flat"]) != list(range(N)):
                    ctx.disagreement("model: rearrange∘unbatchify is not the identity", {"N": N, "S": S})
                ctx.count("am_decoder." + ("dynamic" if dyn else "static"))
                ctx.case(("amdec", B, S, dyn))
                if list(logits.shape) != [N, L] or not torch.equal(logits, want) or not torch.equal(m2, mask):
                    viol(ctx, "am-decoder:regroup", "AM decoder pairs a row's state with another row's logits/mask/cache",
                                  {"B": B, "S": S, "dynamic": dyn, "logits": logits.tolist(), "want": want.tolist()})


def _first_k_feasible(td, env, k):
    """deterministic start actions: the first k feasible scheduling actions of every instance, laid out start-major
    (row s·B+b) like the library's own start selection"""
    mask = td["action_mask"].clone()
    mask[:, 0] = False
    idx = torch.stack([mask[b].nonzero().flatten()[:k] for b in range(mask.size(0))], 0)
    return idx.T.reshape(-1)


def check_zoo_multistart(ctx):
    """policies with their OWN pre-decoder hook / replication site: the encode-once L2D policy on FJSP and JSSP decoded
    with multi-start, B >= 2 different instances, S >= 2, deterministic start function.  Row s·B+b must be the s-th rollout
    of instance b decoded alone (actions, reward, log-likelihood): its state, mask AND encoder embeddings are instance b's."""
    from rl4co.envs import FJSPEnv, JSSPEnv
    from rl4co.models.zoo.l2d.policy import L2DPolicy

    confs = [("fjsp", FJSPEnv, dict(num_jobs=3, num_machines=3, min_ops_per_job=2, max_ops_per_job=3)),
             ("jssp", JSSPEnv, dict(num_jobs=3, num_machines=3))]
    for name, cls, gp in confs:
        for B, S in [(3, 2), (2, 3)][: ctx.budget(2, 2)]:
            seed = ctx.rng.randrange(1 << 30)
            torch.manual_seed(seed)
            env = cls(generator_params=gp)
            pol = L2DPolicy(env_name=name, embed_dim=16, num_encoder_layers=1, het_emb=True).eval()
            td0 = env.reset(batch_size=[B])
            for dt in ("multistart_greedy",):
                kw = dict(phase="test", decode_type=dt, num_starts=S, select_start_nodes_fn=_first_k_feasible, return_actions=True)
                with torch.no_grad():
                    out = pol(td0.clone(), env, **kw)
                    if out["actions"].shape[0] != B * S:
                        viol(ctx, "zoo-multistart:rows", "multi-start output does not have B*S rows", {"policy": "l2d", "env": name})
                        continue
                    for b in range(B):
                        solo = pol(td0[b: b + 1].clone(), env, **kw)
                        for s_ in range(S):
                            r = s_ * B + b
                            T = min(out["actions"].shape[1], solo["actions"].shape[1])
                            same = bool((out["actions"][r, :T] == solo["actions"][s_, :T]).all())
                            dll = abs(float(out["log_likelihood"][r] - solo["log_likelihood"][s_]))
                            drew = abs(float(out["reward"][r] - solo["reward"][s_]))
                            ctx.case(("zoo-ms", name, B, S, seed, b, s_), nontrivial=True)
                            if not same or dll > 1e-4 or drew > 1e-4:
                                viol(ctx, f"zoo-multistart:l2d:{name}:row-not-own-instance",
                                     "L2D multi-start: row s*B+b is not the s-th rollout of instance b decoded alone (its embeddings, "
                                     "state or mask belong to another instance)",
                                     {"env": name, "B": B, "S": S, "torch_seed": seed, "instance": b, "start": s_, "row": r,
                                      "same_actions": same, "loglik_diff": dll, "reward_diff": drew})
            ctx.count(f"zoo_multistart.l2d.{name}")


def check_policy_e2e(ctx):
    """policy(td, env, decode_type='multistart_greedy', num_starts=k, select_best=…) end to end on real
    environments with a small real attention model"""
    from rl4co.envs import get_env
    from rl4co.models.zoo.am.policy import AttentionModelPolicy

    torch.manual_seed(ctx.rng.randrange(1 << 30))
    for name in ["tsp", "cvrp", "pdp", "pctsp"][: ctx.budget(3, 4)]:
        n = 6
        env = get_env(name, generator_params=dict(num_loc=n))
        pol = AttentionModelPolicy(env_name=name, embed_dim=16, num_encoder_layers=1, num_heads=2, feedforward_hidden=16)
        pol.eval()
        for B, k in [(2, 4), (3, 3), (1, 2), (2, 5), (4, 2)][: ctx.budget(2, 5)]:
            td0 = env.reset(batch_size=[B])
            nAct = td0["action_mask"].shape[-1]
            nLocs = td0["locs"].shape[-2]
            with torch.inference_mode():
                o1 = pol(td0.clone(), env, decode_type="multistart_greedy", num_starts=k, select_best=False, return_actions=True)
                o2 = pol(td0.clone(), env, decode_type="multistart_greedy", num_starts=k, select_best=True, return_actions=True)
            acts, rew = o1["actions"], o1["reward"]
            mf = parse_fields(ctx.driver.ask(f"ops.starts {name} {B} {k} {env.generator.num_loc} {nAct} {nLocs}"))
            if acts[:, 0].tolist() != csv(mf["method"]):
                ctx.disagreement("policy forced first actions", {"env": name, "B": B, "k": k, "real": acts[:, 0].tolist(),
                                                                 "model": csv(mf["method"])})
            # row r belongs to instance r mod B: its reward is the env's reward of its actions on THAT instance alone
            for r in range(B * k):
                solo = env.get_reward(td0[r % B: r % B + 1].clone(), acts[r: r + 1])
                if abs(float(solo) - float(rew[r])) > 1e-5:
                    viol(ctx, "policy:row-not-own-instance", "multistart row r was not rolled out on instance r mod B",
                                  {"env": name, "B": B, "k": k, "row": r, "reward": float(rew[r]), "solo": float(solo)})
            rl_ = [int(round(float(v) * (1 << 20))) for v in rew.tolist()]
            chosen = []
            for b in range(B):
                cand = [j * B + b for j in range(k) if torch.equal(acts[j * B + b], o2["actions"][b])
                        and float(rew[j * B + b]) == float(o2["reward"][b])]
                chosen.append(cand[0] if cand else -1)
            _best_spec(ctx, "policy:select_best", B, k, rl_, chosen, [int(round(float(v) * (1 << 20))) for v in o2["reward"].tolist()],
                       {"env": name, "B": B, "k": k})
            if list(o2["log_likelihood"].shape) != [B]:
                viol(ctx, "policy:select_best-shape", "select_best must return one log-likelihood per instance", {"env": name})
            else:
                for b in range(B):
                    if chosen[b] >= 0 and abs(float(o2["log_likelihood"][b]) - float(o1["log_likelihood"][chosen[b]])) > 1e-5:
                        viol(ctx, "policy:select_best-loglik", "log-likelihood returned with the best rollout is another rollout's",
                                      {"env": name, "B": B, "k": k, "instance": b})
            # sampled multistart / multisample: rows still belong to instance r mod B; with select_best row b to instance b
            for dt, kw in (("multistart_sampling", dict(num_starts=k)), ("sampling", dict(num_samples=k, multisample=True))):
                for sb in (False, True):
                    with torch.inference_mode():
                        o = pol(td0.clone(), env, decode_type=dt, select_best=sb, return_actions=True, **kw)
                    rows = B if sb else B * k
                    if o["actions"].shape[0] != rows or o["reward"].shape[0] != rows:
                        viol(ctx, "policy:output-rows", "wrong number of output rows", {"env": name, "decode_type": dt, "select_best": sb,
                                                                                        "rows": int(o["reward"].shape[0]), "expected": rows})
                        continue
                    if dt == "multistart_sampling" and not sb and o["actions"][:, 0].tolist() != csv(mf["method"]):
                        ctx.disagreement("policy forced first actions (sampling)", {"env": name, "B": B, "k": k})
                    for r in range(rows):
                        solo = env.get_reward(td0[r % B: r % B + 1].clone(), o["actions"][r: r + 1])
                        if abs(float(solo) - float(o["reward"][r])) > 1e-5:
                            viol(ctx, "policy:row-not-own-instance", "output row r was not rolled out on instance r mod B",
                                 {"env": name, "decode_type": dt, "select_best": sb, "B": B, "k": k, "row": r})
                    ctx.count(f"policy.e2e.{dt}" + (".select_best" if sb else ""))
            ctx.count(f"policy.e2e.{name}")
            ctx.case(("e2e", name, B, k), nontrivial=True)


def run_c12(ctx):
    check_batchify(ctx)
    check_starts_generic(ctx)
    check_starts_envs(ctx)
    check_starts_op(ctx)
    check_starts_svrp(ctx)
    check_start_hooks(ctx)
    check_sample_n(ctx)
    check_starts_sched(ctx)
    check_select_best(ctx)
    check_gather_default(ctx)
    check_gather_by_index(ctx)
    check_users(ctx)
    check_eval(ctx)
    check_am_decoder(ctx)
    check_policy_e2e(ctx)
    check_zoo_multistart(ctx)


# --------------------------------------------------------------------------------------------------
# C17: datasets, loaders, baseline wrapping


def _inst_td(n: int) -> TensorDict:
    """n instances; instance i is recognisable in every entry, entries have different dtypes/shapes"""
    i = torch.arange(n)
    return TensorDict(
        {"locs": (i[:, None, None] * 8 + torch.arange(6).reshape(3, 2)[None]).float() / 1024.0,
         "id": i.clone(),
         "flag": (i[:, None] + torch.arange(4)[None]) % 2 == 0,
         "demand": (i[:, None] * 4 + torch.arange(3)[None]).to(torch.float64),
         "small": i.to(torch.int32)},
        batch_size=[n],
    )


def _dataset_classes():
    from rl4co.data.dataset import FastTdDataset, TensorDictDataset, TensorDictDatasetFastGeneration

    return [("TensorDictDataset", TensorDictDataset), ("FastTdDataset", FastTdDataset),
            ("TensorDictDatasetFastGeneration", TensorDictDatasetFastGeneration)]


def _batch_ids(batch) -> List[int]:
    return [int(v) for v in batch["id"].tolist()]


def _batch_faithful(batch, src: TensorDict, ids: List[int], extra_key=None, leaked_ok=False) -> str:
    """every entry of the delivered batch is bit-identical (values, dtype, shape) to the rows `ids` of the
    source; returns '' or a description of the first difference"""
    if not isinstance(batch, TensorDict):
        return f"batch is {type(batch).__name__}, not a TensorDict"
    if list(batch.batch_size) != [len(ids)]:
        return f"batch_size {list(batch.batch_size)} != [{len(ids)}]"
    keys = set(batch.keys())
    want = set(src.keys()) | ({extra_key} if extra_key else set())
    if keys != want and not (leaked_ok and want <= keys):
        return f"keys {sorted(keys)} != {sorted(want)}"
    sel = torch.tensor(ids, dtype=torch.long)
    for k in src.keys():
        a, b = batch[k], src[k][sel]
        if a.dtype != b.dtype:
            return f"{k}: dtype {a.dtype} != {b.dtype}"
        if a.shape != b.shape:
            return f"{k}: shape {list(a.shape)} != {list(b.shape)}"
        if not torch.equal(a, b):
            return f"{k}: values differ"
    return ""


def _loader(ds, bs, shuffle, seed, via_module):
    from torch.utils.data import DataLoader

    g = torch.Generator().manual_seed(seed)
    if via_module:
        from rl4co.models.rl.common.base import RL4COLitModule

        torch.manual_seed(seed)
        return RL4COLitModule._dataloader_single(types.SimpleNamespace(dataloader_num_workers=0), ds, bs, shuffle)
    return DataLoader(ds, batch_size=bs, shuffle=shuffle, collate_fn=ds.collate_fn, generator=g)


def _extra_ids(e, extra, n):
    """instance id each delivered extra value belongs to: looked up in the EXPECTED per-instance values (first
    column; they are pairwise distinct); a value that is nobody's (e.g. a stale one) maps to the id `n`"""
    table = {float(v): i for i, v in enumerate(extra.reshape(extra.shape[0], -1)[:, 0].tolist())}
    return [table.get(float(v), n) for v in e.reshape(e.shape[0], -1)[:, 0].tolist()]


def _check_batches(ctx, tag, batches, src, n, bs, shuffle, extra=None, wit=None, extra_key="extra", leaked_ok=False):
    """judge the batches one pass over a loader delivered: model (chunks of the observed order) and Spec oracle"""
    wit = dict(wit or {}, dataset=tag, n=n, batch_size=bs, shuffle=shuffle)
    ids = [_batch_ids(b) for b in batches]
    order = [i for b in ids for i in b]
    f = parse_fields(ctx.driver.ask(f"ops.loader {bs} | {ilist(order if shuffle else range(n))}"))
    model_batches = [csv(s) for s in f.get("batches", "").split(";")] if f.get("batches") else []
    if ids != model_batches:
        ctx.disagreement("loader batches", dict(wit, real=ids, model=model_batches))
    ex_ids: List[int] = []
    for b, bid in zip(batches, ids):
        d = _batch_faithful(b, src, bid, extra_key=extra_key if extra is not None else None, leaked_ok=leaked_ok)
        if d:
            viol(ctx, f"loader:{tag}:unfaithful", "a delivered batch differs from the original instances (values/dtype/shape)",
                 dict(wit, difference=d))
            break
        if extra is not None:
            e = b[extra_key]
            if e.dtype != extra.dtype or list(e.shape) != [len(bid)] + list(extra.shape[1:]):
                viol(ctx, f"loader:{tag}:extra-dtype-shape", "the extra key changed dtype/shape", dict(wit, got=str(e.dtype)))
            if not torch.equal(e, extra[torch.tensor(bid, dtype=torch.long)]):
                ctx.count("extra-mismatch-batches")
            ex_ids += _extra_ids(e, extra, n)
    r = parse_fields(ctx.driver.ask(
        f"ops.spec.loader {n} {bs} {int(shuffle)} | {ilist(order)} | {ilist(len(b) for b in ids)} | {ilist(ex_ids)}"))
    if r["ok"] != "1":
        viol(ctx, f"loader:{tag}:order-or-extra", "instances lost / duplicated / reordered, a non-final partial batch, or an "
             "extra value delivered with another instance (or a value that is not the current one of any instance)",
             dict(wit, order=order, sizes=[len(b) for b in ids], extra_ids=ex_ids))
    ctx.count(f"loader.{tag}." + ("shuffle" if shuffle else "seq") + (".extra" if extra is not None else "")
              + (".partial" if n % bs else ".full"))
    if n >= 5 and extra is not None and shuffle:
        ctx.sample({"what": "loader pass", **{k: wit[k] for k in ("dataset", "n", "batch_size", "shuffle")}, "delivered_ids": ids[:4],
                    "extra_ids": ex_ids[:8]})
    return order


def _check_loader(ctx, tag, ds, src, n, bs, shuffle, extra=None, via_module=False, **kw):
    """drive one loader; compare with the model's batches under the observed sampler order and evaluate
    the Spec oracle on the real outcome.  `extra`: the expected per-instance extra values (pairwise distinct)."""
    seed = ctx.rng.randrange(1 << 30)
    batches = list(_loader(ds, bs, shuffle, seed, via_module))
    ctx.case(("loader", tag, n, bs, shuffle, extra is not None, via_module, seed), nontrivial=n > 1)
    return _check_batches(ctx, tag, batches, src, n, bs, shuffle, extra, {"torch_seed": seed}, **kw)


def check_datasets(ctx):
    from rl4co.data.dataset import ExtraKeyDataset

    sizes = range(1, 18)
    bss = range(1, 19)
    quick = ctx.tier != "thorough" and not ctx.searching
    for cname, cls in _dataset_classes():
        for n in sizes:
            src = _inst_td(n)
            for bs in bss:
                for shuffle in (False, True):
                    ds = cls(src.clone())
                    if len(ds) != n:
                        viol(ctx, f"dataset:{cname}:len", "len(dataset) != number of instances", {"n": n, "len": len(ds)})
                    _check_loader(ctx, cname, ds, src, n, bs, shuffle)
                # with an extra per-instance key (add_key, as wrap_dataset does)
                extra = 1000.0 + 3.0 * torch.arange(n, dtype=torch.float32)
                for shuffle in (False, True):
                    if quick and (n * 7 + bs + shuffle) % 2:
                        continue  # quick tier: half of the (n, bs, shuffle) grid for the add_key variants
                    ds = cls(src.clone()).add_key("extra", extra.clone())
                    _check_loader(ctx, cname + "+add_key", ds, src, n, bs, shuffle, extra=extra)
    # ExtraKeyDataset built directly, also through the module's own loader constructor, larger random cases
    from rl4co.data.dataset import TensorDictDataset

    for _ in range(ctx.budget(40, 400)):
        n, bs = ctx.rng.randint(1, 200), ctx.rng.randint(1, 64)
        src = _inst_td(n)
        extra = 1000.0 + 3.0 * torch.arange(n, dtype=torch.float32)
        ds = ExtraKeyDataset(TensorDictDataset(src.clone()), extra.clone())
        _check_loader(ctx, "ExtraKeyDataset", ds, src, n, bs, ctx.rng.random() < 0.5, extra=extra, via_module=ctx.rng.random() < 0.5)
        cname, cls = ctx.rng.choice(_dataset_classes())
        _check_loader(ctx, cname, cls(src.clone()), src, n, bs, ctx.rng.random() < 0.5, via_module=True)


class _IdPolicy(torch.nn.Module):
    """stub baseline policy: reward of an instance encodes its id (1000 + 3·id); row-wise by construction"""

    def __init__(self):
        super().__init__()
        self.p = torch.nn.Parameter(torch.zeros(1))
        self.seen = []

    def forward(self, td, env=None, decode_type=None, **kw):
        self.seen.append(int(td.batch_size[0]))
        return {"reward": 1000.0 + 3.0 * td["id"].float()}


def check_wrap(ctx):
    """RolloutBaseline.rollout / wrap_dataset: value attached to item i is the baseline policy's reward on
    instance i, and travels with it through shuffling and batching"""
    from rl4co.models.rl.reinforce.baselines import RolloutBaseline, WarmupBaseline

    env = types.SimpleNamespace(reset=lambda batch: batch, name="stub")
    cases = [(n, ebs, bs) for n in (1, 2, 5, 7, 12, 17) for ebs in (1, 2, 3, 5, 7, 17, 64) for bs in (1, 3, 4, 17)]
    if ctx.tier != "thorough" and not ctx.searching:
        cases = [c for k, c in enumerate(cases) if k % 3 == 0]
    for _ in range(ctx.budget(10, 100)):
        cases.append((ctx.rng.randint(1, 150), ctx.rng.randint(1, 40), ctx.rng.randint(1, 40)))
    for n, ebs, bs in cases:
        src = _inst_td(n)
        for cname, cls in _dataset_classes():
            bl = RolloutBaseline()
            bl.policy = _IdPolicy()
            wrapper = bl
            if ctx.rng.random() < 0.3:
                wrapper = WarmupBaseline(bl, n_epochs=1)
                wrapper.alpha = 1.0
            ds = cls(src.clone())
            want = 1000.0 + 3.0 * torch.arange(n, dtype=torch.float32)
            try:
                rewards = bl.rollout(bl.policy, env, ebs, "cpu", dataset=ds)
                seen = list(bl.policy.seen)
                wrapped = wrapper.wrap_dataset(cls(src.clone()), env, batch_size=ebs, device="cpu")
            except Exception as e:  # noqa: BLE001
                viol(ctx, f"rollout:{cname}:raised", "RolloutBaseline.rollout / wrap_dataset raised on a valid data set",
                     {"dataset": cname, "n": n, "eval_bs": ebs, "error": repr(e)[:300]})
                continue
            f = parse_fields(ctx.driver.ask(f"ops.loader {ebs} | {ilist(range(n))}"))
            model_sizes = [len(csv(s)) for s in f["batches"].split(";")]
            if seen != model_sizes:
                ctx.disagreement("rollout evaluation batches", {"n": n, "eval_bs": ebs, "real": seen, "model": model_sizes})
            if list(rewards.shape) != [n] or not torch.equal(rewards, want):
                viol(ctx, f"rollout:{cname}:misaligned", "RolloutBaseline.rollout: entry i is not the policy's reward on instance i",
                              {"dataset": cname, "n": n, "eval_bs": ebs, "got": rewards.tolist()[:40]})
            for shuffle in (False, True):
                _check_loader(ctx, f"wrap({cname})", wrapped, src, n, bs, shuffle, extra=want)
            ctx.count("wrap_dataset")


def _mutate_batch(b):
    """what a careless consumer may do with a delivered batch: modify it in place"""
    for k in list(b.keys()):
        v = b[k]
        if v.dtype == torch.bool:
            v.logical_not_()
        else:
            v.add_(7)


def check_histories(ctx):
    """multi-step histories on the SAME objects: wrap → read (twice through the same DataLoader, the delivered
    batches being modified in place by the consumer) → read the underlying data set → wrap the same underlying
    data set again with NEW values → read …, for every data set class, with and without shuffling, with a custom
    key name / 2-d extra.  (Stacking a second `add_key` on an ExtraKeyDataset is not exercised: the nested wrapper
    reads `dataset.data` of the BASE and so drops the first key unless it leaked into shared dicts — outside C17's text.)"""
    cases = [(n, bs) for n in (1, 2, 5, 8, 13) for bs in (1, 2, 3, 5, 14)]
    if ctx.tier != "thorough" and not ctx.searching:
        cases = [c for k, c in enumerate(cases) if k % 2 == 0]
    for n, bs in cases:
        src = _inst_td(n)
        for cname, cls in _dataset_classes():
            base = cls(src.clone())
            key = ctx.rng.choice(["extra", "extra", "bl_val"])
            two_d = ctx.rng.random() < 0.3
            for epoch in range(3):
                vals = 1000.0 * (epoch + 1) + 3.0 * torch.arange(n, dtype=torch.float32)
                extra = torch.stack([vals, -vals], 1) if two_d else vals
                if key == "extra":
                    wrapped = base.add_key("extra", extra.clone())
                else:
                    from rl4co.data.dataset import ExtraKeyDataset

                    if hasattr(base, "data") and isinstance(base.data, list):
                        wrapped = ExtraKeyDataset(base, extra.clone(), key_name=key)
                    else:
                        wrapped = base.add_key(key, extra.clone())
                tag = f"history({cname})"
                wit = {"epoch_of_wrapping": epoch, "key": key, "history": "wrap/read/read/base-read per epoch on the same base"}
                for shuffle in (False, True):
                    seed = ctx.rng.randrange(1 << 30)
                    dl = _loader(wrapped, bs, shuffle, seed, via_module=ctx.rng.random() < 0.3)
                    for pass_i in range(2):  # re-iteration of the same DataLoader object
                        batches = list(dl)
                        _check_batches(ctx, tag, batches, src, n, bs, shuffle, extra, dict(wit, torch_seed=seed, pass_=pass_i),
                                       extra_key=key, leaked_ok=True)
                        for b in batches:
                            _mutate_batch(b)
                        ctx.case(("history", cname, n, bs, epoch, shuffle, pass_i, key), nontrivial=True)
                # the underlying data set still delivers the original instances (an extra key written into shared
                # items by the wrapper is tolerated, but must not displace anything)
                if wrapped is not base:
                    batches = list(_loader(base, bs, False, 0, False))
                    _check_batches(ctx, f"history-base({cname})", batches, src, n, bs, False, None, wit, leaked_ok=True)
                    if any(key in b.keys() for b in batches):
                        ctx.count(f"alias.{cname}.base-items-carry-wrapper-key")


def check_index_batches(ctx):
    """explicit index batches as a sampler may produce them — unsorted, non-contiguous, reversed, with
    repetitions, first/last differing by len-1 without being a run — through `DataLoader(batch_sampler=…)`,
    through `__getitems__` directly where the class has that fast path, and through `__getitem__`"""
    from torch.utils.data import DataLoader

    n = 12
    src = _inst_td(n)
    crafted = [[0, 2, 1, 3], [0, 7, 5, 3], [3, 2, 1, 0], [5, 4], [2, 4, 6, 8], [11], [1, 3, 2], [4, 4, 9], [9, 0, 10, 1, 11],
               [6, 7, 8], [8, 6, 7], [10, 2, 11, 3, 9, 4, 8], [0, 11], [7, 9, 8, 10], list(range(n)), list(range(n))[::-1]]
    for _ in range(ctx.budget(20, 200)):
        crafted.append([ctx.rng.randrange(n) for _ in range(ctx.rng.randint(1, 7))])
    extra = 1000.0 + 3.0 * torch.arange(n, dtype=torch.float32)
    variants = []
    for cname, cls in _dataset_classes():
        variants.append((cname, cls(src.clone()), None))
        variants.append((cname + "+add_key", cls(src.clone()).add_key("extra", extra.clone()), extra))
    for tag, ds, ex in variants:
        routes = [("batch_sampler", list(DataLoader(ds, batch_sampler=crafted, collate_fn=ds.collate_fn)))]
        if hasattr(ds, "__getitems__"):
            routes.append(("__getitems__", [ds.collate_fn(ds.__getitems__(list(idx))) for idx in crafted]))
        else:
            routes.append(("__getitem__", [ds.collate_fn([ds[i] for i in idx]) for idx in crafted]))
        for route, batches in routes:
            lines = []
            for idx, b in zip(crafted, batches):
                d = _batch_faithful(b, src, idx, extra_key="extra" if ex is not None else None)
                got = _batch_ids(b) if isinstance(b, TensorDict) and "id" in b.keys() else []
                exi = _extra_ids(b["extra"], ex, n) if (ex is not None and isinstance(b, TensorDict) and "extra" in b.keys()) else []
                lines.append(f"ops.spec.fetch 0 | {ilist(idx)} | {ilist(got)} | {ilist(exi)}")
                if d and got == idx:
                    viol(ctx, f"fetch:{tag}:unfaithful", "an index batch delivered the right ids but altered entries", {"route": route, "idx": idx, "difference": d})
                ctx.case(("fetch", tag, route, tuple(idx)), nontrivial=len(idx) > 1)
            for idx, b, r in zip(crafted, batches, ctx.driver.ask_many(lines)):
                if parse_fields(r)["ok"] != "1":
                    viol(ctx, f"fetch:{tag}:wrong-instances", "an explicit index batch did not deliver exactly the requested instances in the "
                         "requested order (with their own extra values)", {"route": route, "requested": idx,
                                                                           "delivered": _batch_ids(b) if isinstance(b, TensorDict) else None})
            ctx.count(f"fetch.{tag}.{route}", len(crafted))
    # the three classes as model functions (`tddFetch`, `fastGetitems`, `fastGenGetitems`) on the same index lists
    reps = ctx.driver.ask_many([f"ops.tdfetch {n} | {ilist(idx)}" for idx in crafted])
    for (cname, cls), field in zip(_dataset_classes(), ("tdd", "fast", "fastgen")):
        ds = cls(src.clone())
        for idx, r in zip(crafted, reps):
            cols = dict(kv.split(":") for kv in parse_fields(r)[field].split(";")) if parse_fields(r).get(field) else {}
            b = ds.collate_fn(ds.__getitems__(list(idx))) if hasattr(ds, "__getitems__") else ds.collate_fn([ds[i] for i in idx])
            real = _batch_ids(b) if isinstance(b, TensorDict) else None
            if real != csv(cols.get("id", "")) or [v + 100 for v in (real or [])] != csv(cols.get("x", "")):
                ctx.disagreement("data set class as model function", {"class": cname, "idx": idx, "real_ids": real, "model": cols})
        ctx.count(f"fetch.model.{cname}", len(crafted))
    ctx.sample({"what": "explicit index batches", "examples": crafted[:4], "classes": [v[0] for v in variants]})


class _ShiftPolicy(torch.nn.Module):
    """stub policy whose reward on instance i is 1000 + 3 i + shift/4·(1 + i mod 2) (pairwise distinct, exact in
    float32); `shift` models training progress and is frozen by `copy.deepcopy` inside RolloutBaseline"""

    def __init__(self, shift=0):
        super().__init__()
        self.p = torch.nn.Parameter(torch.zeros(1))
        self.shift = shift
        self.seen = []

    def value(self, ids):
        return 1000.0 + 3.0 * ids.float() + 0.25 * self.shift * (1 + ids % 2).float()

    def forward(self, td, env=None, decode_type=None, **kw):
        self.seen.append(int(td.batch_size[0]))
        return {"reward": self.value(td["id"])}


def check_baseline_epochs(ctx):
    """several epochs of RolloutBaseline.setup / wrap_dataset / epoch_callback with a policy that keeps improving:
    bl_vals[i] and the value attached to item i must be the CURRENT baseline policy's reward on instance i; the
    same fixed training set is re-wrapped every epoch (and fresh ones too); evaluation batch sizes that do not
    divide the set sizes"""
    from rl4co.models.rl.reinforce.baselines import RolloutBaseline, WarmupBaseline

    combos = [(cn, m, n, ebs, bs) for cn in range(3) for (m, n, ebs, bs) in [(10, 7, 3, 2), (6, 12, 4, 5), (9, 5, 7, 3), (8, 8, 8, 8)]]
    if ctx.tier != "thorough" and not ctx.searching:
        combos = [c for k, c in enumerate(combos) if k % 2 == 0 or c[0] == 0]
    for cn, m, n, ebs, bs in combos:
        cname, cls = _dataset_classes()[cn]
        env = types.SimpleNamespace(reset=lambda batch: batch, name="stub",
                                    dataset=lambda batch_size=None, phase="train", **kw: cls(_inst_td(batch_size[0] if isinstance(batch_size, (list, tuple)) else batch_size)))
        pol = _ShiftPolicy(0)
        bl = RolloutBaseline()
        wrapper = bl
        if cn == 1:
            wrapper = WarmupBaseline(bl, n_epochs=1)
            wrapper.alpha = 1.0
        wit = {"dataset": cname, "val_size": m, "train_size": n, "eval_bs": ebs}
        try:
            bl.setup(pol, env, batch_size=ebs, device="cpu", dataset_size=m)
            src = _inst_td(n)
            fixed = cls(src.clone())  # a fixed training set, re-wrapped every epoch
            for epoch in range(3):
                want_val = bl.policy.value(torch.arange(m))
                if list(bl.bl_vals.shape) != [m] or not torch.equal(torch.as_tensor(bl.bl_vals), want_val):
                    viol(ctx, f"rollout:{cname}:bl_vals-misaligned", "RolloutBaseline.bl_vals[i] is not the baseline policy's reward on instance i",
                         dict(wit, epoch=epoch, got=[float(v) for v in bl.bl_vals][:20], want=want_val.tolist()[:20]))
                if bl.policy is pol:
                    viol(ctx, "rollout:baseline-policy-not-frozen", "the baseline policy is the live policy, not a copy", wit)
                want = bl.policy.value(torch.arange(n))
                for which, base in (("same-base", fixed), ("fresh-base", cls(src.clone()))):
                    wrapped = wrapper.wrap_dataset(base, env, batch_size=ebs, device="cpu")
                    for shuffle in (False, True):
                        seed = ctx.rng.randrange(1 << 30)
                        dl = _loader(wrapped, bs, shuffle, seed, via_module=False)
                        for pass_i in range(2):
                            _check_batches(ctx, f"epochs({cname})", list(dl), src, n, bs, shuffle, want,
                                           dict(wit, epoch=epoch, base=which, baseline_shift=bl.policy.shift, torch_seed=seed), leaked_ok=True)
                    ctx.case(("epochs", cname, m, n, ebs, bs, epoch, which), nontrivial=True)
                # training improves the live policy; the baseline must not move until it is challenged
                pol.shift += 1 + epoch
                if bl.policy.shift == pol.shift:
                    viol(ctx, "rollout:baseline-policy-not-frozen", "the baseline policy follows the live policy", wit)
                bl.epoch_callback(pol, env, batch_size=ebs, device="cpu", epoch=epoch, dataset_size=m)
                if bl.policy.shift != pol.shift:
                    viol(ctx, f"rollout:{cname}:baseline-not-updated", "a strictly better candidate (paired t-test, p≈0) did not replace "
                         "the baseline policy — its per-instance values were misaligned or truncated", dict(wit, epoch=epoch))
                ctx.count("baseline.epochs")
        except Exception as e:  # noqa: BLE001
            viol(ctx, f"rollout:{cname}:raised", "RolloutBaseline setup / wrap_dataset / epoch_callback raised on a valid history",
                 dict(wit, error=repr(e)[:300]))


class _LocsPolicy(torch.nn.Module):
    """stub policy for real TSP data: reward of an instance is an exact function of its own coordinates plus
    `shift/4·(1 + parity)`; row-wise by construction; `shift` models training progress (frozen by deepcopy)"""
    train_decode_type = "sampling"
    val_decode_type = "greedy"
    test_decode_type = "greedy"

    def __init__(self, shift=0):
        super().__init__()
        self.p = torch.nn.Parameter(torch.zeros(1))
        self.shift = shift

    def value(self, locs):
        q = (locs * 1024).round()
        return -(q.sum(dim=(1, 2))) / 64.0 + 0.25 * self.shift * (1 + (q[:, 0, 0] % 2))

    def forward(self, td, env=None, decode_type=None, **kw):
        return {"reward": self.value(td["locs"])}


def check_epoch_end(ctx):
    """the REAL epoch-end hook: `REINFORCE.on_train_epoch_end` driven over several epoch boundaries (stub trainer) with the
    warm-up + greedy rollout baseline, the candidate made clearly better (accepted) or clearly worse (rejected) before
    each boundary.  After every boundary, for every item i of the NEW `train_dataset`: `extra[i]` = greedy reward of the
    CURRENT `baseline.policy` (after the callback) on instance i, and the set is wrapped iff the CURRENT alpha > 0."""
    from rl4co.envs import TSPEnv
    from rl4co.models.rl import REINFORCE

    env = TSPEnv(generator_params=dict(num_loc=5))
    plans = [(1, [+2, -3, +5, +2]), (2, [+1, +2, -4, +6]), (1, [-1, +3, +1, -2]), (3, [+2, +2, +2, -1])]
    if ctx.tier != "thorough" and not ctx.searching:
        plans = plans[:3]
    for n_warm, deltas in plans:
        torch.manual_seed(ctx.rng.randrange(1 << 30))
        pol = _LocsPolicy(0)
        tsize, vsize = ctx.rng.choice([7, 11]), ctx.rng.choice([9, 13])
        model = REINFORCE(env, pol, baseline="rollout", baseline_kwargs={"n_epochs": n_warm}, batch_size=4,
                          val_batch_size=ctx.rng.choice([4, 5]), train_data_size=tsize, val_data_size=vsize, test_data_size=3)
        model.setup()
        trainer = types.SimpleNamespace(max_epochs=10, current_epoch=0, loggers=[], strategy=None)
        model._trainer = trainer
        warm, roll = model.baseline, model.baseline.baseline
        want_shift = roll.policy.shift
        for epoch, d in enumerate(deltas):
            pol.shift += d  # "training" during the epoch
            trainer.current_epoch = epoch
            accept = pol.shift > want_shift
            try:
                model.on_train_epoch_end()
            except Exception as e:  # noqa: BLE001
                viol(ctx, "epoch-end:raised", "REINFORCE.on_train_epoch_end raised", {"epoch": epoch, "error": repr(e)[:300]})
                break
            want_shift = pol.shift if accept else want_shift
            want_alpha = min(1.0, (epoch + 1) / n_warm) if epoch < n_warm else 1.0
            wit = {"warmup_epochs": n_warm, "epoch": epoch, "live_shift": pol.shift, "candidate_accepted": accept,
                   "baseline_shift_after": roll.policy.shift, "alpha_after": float(warm.alpha), "train_size": tsize, "val_size": vsize}
            if roll.policy.shift != want_shift or abs(float(warm.alpha) - want_alpha) > 1e-9:
                ctx.disagreement("epoch boundary: baseline policy / alpha after the callback",
                                 dict(wit, model_shift=want_shift, model_alpha=want_alpha))
            ds = model.train_dataset
            items = [ds[i] for i in range(len(ds))]
            wrapped = [("extra" in it) for it in items]
            ctx.count("epoch_end." + ("accept" if accept else "reject") + (".warmup" if warm.alpha < 1 else ""))
            ctx.case(("epoch_end", n_warm, epoch, tuple(deltas)), nontrivial=True)
            if warm.alpha > 0:
                if not all(wrapped):
                    viol(ctx, "epoch-end:not-wrapped-by-current-alpha", "after the epoch boundary alpha > 0 but the new training set "
                         "carries no baseline values (it was wrapped before the callback advanced alpha)", wit)
                    continue
                locs = torch.stack([it["locs"] for it in items])
                got = torch.stack([it["extra"] for it in items])
                exp = roll.policy.value(locs)
                bad = (got != exp).nonzero().flatten().tolist()
                if bad:
                    i = bad[0]
                    viol(ctx, "epoch-end:extra-not-current-baseline",
                         "after the epoch boundary the value attached to item i of the NEW training set is not the greedy reward of "
                         "the CURRENT baseline policy on instance i", dict(wit, item=i, attached=float(got[i]), expected=float(exp[i]),
                                                                           n_bad=len(bad)))
                # and through the module's own loader, shuffled
                seen = 0
                for b in model.train_dataloader():
                    e2 = roll.policy.value(b["locs"])
                    if not torch.equal(b["extra"], e2):
                        viol(ctx, "epoch-end:extra-not-current-baseline", "a training batch carries baseline values that are not the "
                             "current baseline policy's rewards of its own instances", wit)
                        break
                    seen += b.batch_size[0]
                if seen not in (0, len(items)) and not bad:
                    ctx.disagreement("train_dataloader size", {"seen": seen, "n": len(items)})
            elif any(wrapped):
                viol(ctx, "epoch-end:wrapped-during-warmup", "alpha = 0 but the training set carries rollout-baseline values", wit)
    ctx.sample({"what": "REINFORCE.on_train_epoch_end history", "plans": plans[:2]})


def check_custom_rollouts(ctx):
    """every rollout function of the code base with a REAL batch-norm policy left in TRAIN mode (as inside Trainer.fit):
    MDAM's own `rollout` (installed into the rollout baseline) and the default `RolloutBaseline.rollout`.
    The value attached to item i must be the EVAL-mode reward of the baseline policy on instance i alone — identical for
    every rollout batch size — both for a direct rollout and through the real epoch-end hook."""
    import copy

    from rl4co.envs import TSPEnv
    from rl4co.models import MDAM
    from rl4co.models.rl import REINFORCE
    from rl4co.models.zoo.am import AttentionModelPolicy

    env = TSPEnv(generator_params=dict(num_loc=6))

    def truth_of(policy, locs, mdam):
        ref = copy.deepcopy(policy).eval()
        out = []
        with torch.inference_mode():
            for i in range(locs.shape[0]):
                r = ref(env.reset(TensorDict({"locs": locs[i: i + 1].clone()}, batch_size=[1])), env, decode_type="greedy")["reward"]
                out.append(r.max(1).values if mdam else r)
        return torch.cat(out)

    for who in ("mdam", "default"):
        seed = ctx.rng.randrange(1 << 30)
        torch.manual_seed(seed)
        common = dict(baseline="rollout", batch_size=4, val_batch_size=3, test_batch_size=4, train_data_size=7, val_data_size=8,
                      test_data_size=4)
        if who == "mdam":
            model = MDAM(env, policy_kwargs=dict(embed_dim=16, num_heads=2, num_encoder_layers=1, num_paths=2), **common)
        else:
            pol = AttentionModelPolicy(env_name="tsp", embed_dim=16, num_encoder_layers=1, num_heads=2, feedforward_hidden=16,
                                       normalization="batch")
            model = REINFORCE(env, pol, **common)
        model.train()   # a LightningModule is in training mode during fit
        model.setup()
        model._trainer = types.SimpleNamespace(max_epochs=10, current_epoch=0, loggers=[], strategy=None)
        warm, roll = model.baseline, model.baseline.baseline
        wit = {"model": who, "torch_seed": seed}
        # (i) direct rollouts of the baseline policy left in TRAIN mode, several evaluation batch sizes
        base = env.dataset(9, phase="train")
        locs = torch.stack([base[i]["locs"] for i in range(len(base))]).clone()
        truth = truth_of(roll.policy, locs, who == "mdam")
        vals = {}
        for bs in (2, 9, 4):
            roll.policy.train()
            vals[bs] = roll.rollout(roll.policy, env, bs, "cpu", dataset=base).detach()
        ctx.count(f"custom_rollout.{who}.direct")
        ctx.case(("custom-rollout", who, seed), nontrivial=True)
        for bs, v in vals.items():
            if list(v.shape) != [len(base)] or float((v - truth).abs().max()) > 1e-4:
                viol(ctx, f"rollout:{who}:not-eval-mode-values", "a rollout-baseline value is not the eval-mode reward of the baseline "
                     "policy on its own instance (policy rolled out in training mode: batch statistics of its batch-mates)",
                     dict(wit, eval_bs=bs, max_abs_diff=float((v - truth).abs().max()) if list(v.shape) == [len(base)] else None))
        if any(float((vals[2] - vals[b]).abs().max()) > 1e-4 for b in (9, 4)):
            viol(ctx, f"rollout:{who}:depends-on-batch-size", "the rollout-baseline values depend on the evaluation batch size",
                 dict(wit, diffs={b: float((vals[2] - vals[b]).abs().max()) for b in (9, 4)}))
        # (ii) through the real epoch-end hook (warm-up ends, next training set is wrapped) with the module in training mode
        model.train()
        try:
            model.on_train_epoch_end()
        except Exception as e:  # noqa: BLE001
            viol(ctx, "epoch-end:raised", "on_train_epoch_end raised", dict(wit, error=repr(e)[:300]))
            continue
        ds = model.train_dataset
        items = [ds[i] for i in range(len(ds))]
        if warm.alpha > 0 and all("extra" in it for it in items):
            locs = torch.stack([it["locs"] for it in items]).clone()
            got = torch.stack([it["extra"] for it in items])
            truth = truth_of(roll.policy, locs, who == "mdam")
            if float((got - truth).abs().max()) > 1e-4:
                viol(ctx, f"epoch-end:{who}:extra-not-eval-mode-baseline", "after the epoch boundary the attached values are not the "
                     "eval-mode rewards of the current baseline policy on the items' own instances",
                     dict(wit, max_abs_diff=float((got - truth).abs().max())))
        else:
            viol(ctx, "epoch-end:not-wrapped-by-current-alpha", "alpha > 0 expected after the warm-up epoch and a wrapped training set", wit)
        ctx.count(f"custom_rollout.{who}.epoch_end")


def check_eval_call(ctx):
    """tasks/eval.py:EvalBase.__call__ — concatenation of per-batch rewards and zero-padded actions over a loader
    with a final partial batch"""
    from rl4co.tasks.eval import GreedyEval

    class Pol(torch.nn.Module):
        def __init__(self):
            super().__init__()
            self.p = torch.nn.Parameter(torch.zeros(1))

        def forward(self, td, decode_type=None, **kw):
            B = td.batch_size[0]
            L = 2 + B % 3  # sequence length differs between batches → padding path
            return {"actions": (td["id"][:, None] + 1).expand(B, L).clone()}

    env = types.SimpleNamespace(reset=lambda td: td, get_reward=lambda td, a: 1000.0 + 3.0 * td["id"].float(), name="stub")
    for cname, cls in _dataset_classes():
        for n, bs in [(1, 1), (7, 3), (10, 4), (5, 7), (9, 3), (11, 5)]:
            src = _inst_td(n)
            ds = cls(src.clone())
            shuffle = False
            dl = _loader(ds, bs, shuffle, 0, via_module=True)
            import contextlib
            import io

            with contextlib.redirect_stdout(io.StringIO()):  # EvalBase prints timing lines
                out = GreedyEval(env, progress=False)(Pol(), dl)
            want = 1000.0 + 3.0 * torch.arange(n).float()
            ok = list(out["rewards"].shape) == [n] and torch.equal(out["rewards"], want) and out["actions"].shape[0] == n \
                and torch.equal(out["actions"][:, 0], torch.arange(n) + 1) \
                and all(set(out["actions"][i].tolist()) <= {i + 1, 0} for i in range(n))
            sizes = [min(bs, n - k0) for k0 in range(0, n, bs)]
            mf = parse_fields(ctx.driver.ask(f"ops.evalcall 0 | {ilist(sizes)} | {ilist(2 + z % 3 for z in sizes)}"))
            m_rows = [csv(r) for r in mf["rows"].split(";")] if mf.get("rows") else []
            if out["actions"].tolist() != m_rows or [int(round((v - 1000.0) / 3.0)) for v in out["rewards"].tolist()] != csv(mf["rewards"]):
                ctx.disagreement("EvalBase.__call__ concat/padding", {"dataset": cname, "n": n, "batch_size": bs,
                                                                      "real": out["actions"].tolist()[:6], "model": m_rows[:6]})
            ctx.count("eval.__call__" + (".partial" if n % bs else ".full"))
            ctx.case(("evalcall", cname, n, bs), nontrivial=n > 1)
            if not ok:
                viol(ctx, f"eval-call:{cname}:misaligned", "EvalBase.__call__: rewards/actions entry i is not instance i's "
                     "(concatenation over batches incl. the final partial one)",
                     {"dataset": cname, "n": n, "batch_size": bs, "rewards": out["rewards"].tolist()[:20]})


def run_c17(ctx):
    check_datasets(ctx)
    check_wrap(ctx)
    check_histories(ctx)
    check_index_batches(ctx)
    check_baseline_epochs(ctx)
    check_epoch_end(ctx)
    check_custom_rollouts(ctx)
    check_eval_call(ctx)


# --------------------------------------------------------------------------------------------------

NOTE_T = ("tensors and TensorDicts are modelled through their leading (batch) dimensions only "
          "(lean/Rl4co/Train/Batchify.lean: `Tens`); torch `expand/view/permute/gather`, einops `rearrange` and TensorDict "
          "indexing are modelled-not-verified glue, tied by the exhaustive tagged-data correspondence")
NOTE_S = ("feasibility of a forced start is a statement about the environment's reset mask: the index part is proved here "
          "(`starts_prefix`: instance b is forced to lo, lo+1, …, lo+k-1), the mask part is the env families' reset lemma; the "
          "harness evaluates the real reset masks of the bundled generators")
NOTE_PD = ("translator tie (C17): `Params.dsExtraWriteUnconditional`, `dsExtraIndexShift`, `dsFastTdDirect`, `dsFastGenDirect`, "
           "`dsCollateInOrder`, `dsInitRowsInOrder`, `blRolloutPlainConcat`, `blRolloutLoaderPlain`, `loaderShufflePassthrough`, `rfCallbackBeforeSuper`, `blRolloutEvalMode`, `mdamRolloutEvalMode`, `mdamRolloutPlainConcat`, `evalCatInOrder`, `evalPadLeft` "
           "are regenerated from the sources and unfolded by the C17 proofs (a guarded write, a `__getitems__` fast path or a "
           "buffer-offset rollout breaks `readExtra_eq` / `fetch_eq` / `rollout_aligned` at build)")
NOTE_D = ("DataLoader's sampler (sequential / permutation) and batch sampler are modelled as `chunks` of an index order "
          "(lean/Rl4co/Train/Dataset.lean); the order a shuffling sampler draws is observed, not modelled; `RowWise` of a "
          "policy in eval mode is an assumption for real networks (true by construction for the stub policies used here)")

def replay_c12(ctx, w):
    """re-run a recorded witness against the real code (targeted per witness kind)"""
    if "rows" in w and w.get("env") == "op":
        from rl4co.envs import OPEnv

        rows, k = w["rows"], w["k"]
        n, B = len(rows[0]), len(rows)
        env = OPEnv(generator_params=dict(num_loc=n))
        td = env.reset(_op_td(rows))
        torch.manual_seed(w.get("torch_seed", 0))
        sel = env.select_start_nodes(td, k).tolist()
        _starts_oracle(ctx, "op", td["action_mask"], sel, B, k, 1, extra={"rows": rows, "torch_seed": w.get("torch_seed", 0)})
        print("replayed OP start selection:", sel)
    elif w.get("env") == "svrp":
        check_starts_svrp(ctx)
    elif w.get("env") == "sample_n_random_actions":
        from rl4co.utils.ops import sample_n_random_actions

        mask = torch.tensor(w["rows"], dtype=torch.bool)
        torch.manual_seed(w["torch_seed"])
        sel = sample_n_random_actions(TensorDict({"action_mask": mask}, batch_size=[len(w["rows"])]), w["k"]).tolist()
        _starts_oracle(ctx, "sample_n_random_actions", mask, sel, len(w["rows"]), w["k"], 1, extra=w, branch=":replace")
        print("replayed sample_n_random_actions:", sel)
    elif "max_idxs" in w or "rewards" in w:
        check_select_best(ctx)
    elif "A" in w and "S" in w:
        check_gather_default(ctx)
        check_users(ctx)
        check_eval(ctx)
    elif "shape" in w and "B" in w:
        check_batchify(ctx)
    else:
        run_c12(ctx)


def replay_c17(ctx, w):
    run_c17(ctx)


T = Theorem
C12_THEOREMS = [
    T("Rl4co.Ops.batchify_row", "proved", "row r of batchify x (k1..km) is row r mod B of x; shape B*prod; any nesting, zero factors skipped"),
    T("Rl4co.Ops.unbatchify_layout", "proved", "(unbatchify y ks)[b][j1]..[jm] = y[b + B*(j1 + k1*(j2 + ...))], any nesting"),
    T("Rl4co.Ops.unbatchify_layout2", "proved", "(unbatchify y (a,s))[b][i][j] = y[j*a*B + i*B + b]"),
    T("Rl4co.Ops.unbatchify_instance", "proved", "regrouping keeps every row with instance row mod B, in range, digits = row div B"),
    T("Rl4co.Ops.mixedRadix_inj", "proved", "distinct copy digits address distinct rows (no row duplicated by regrouping)"),
    T("Rl4co.Ops.unbatchify_batchify", "proved", "every copy slice of unbatchify (batchify x ks) ks is x (tensors and TensorDict rows)"),
    T("Rl4co.Ops.unbatchify_skip_zero", "proved", "zero factors are skipped (POMO's (n_aug=0, n_start))"),
    T("Rl4co.Ops.rearrange_unbatchify", "proved", "AM decoder: rearrange 'b s -> (s b)' after unbatchify(td, S) is the identity on rows"),
    T("Rl4co.Ops.unbatchifyAndGather_get", "proved", "unbatchify_and_gather(x, idx, k)[b] = x[idx b * B + b]"),
    T("Rl4co.Ops.batchifyTD_row", "proved", "TensorDicts: at EVERY key path (nested entries included) row r of the expansion is row r mod B"),
    T("Rl4co.Ops.unbatchifyTD_batchifyTD", "proved", "TensorDicts: expansion followed by its inverse is the identity at every key path"),
    T("Rl4co.Ops.am_static_roundtrip", "proved", "AM decoder static path with the extracted unbatchify / '(s b)' flatten: row r comes back at row r"),
    T("Rl4co.Ops.am_dynamic_pairing", "proved", "AM decoder dynamic path: PrecomputedCache.batchify pairs state row r with the cache of instance r mod B"),
    T("Rl4co.Ops.zoo_replication_pairing", "proved", "L2D embeddings, NAR heat-map index, MatNet/FFSP state, EAS state: replicated start-major (extracted batchify) — row r meets instance r mod B"),
    T("Rl4co.Ops.replicateSite_pairing", "proved", "a replication site that uses batchify obeys the row law"),
    T("Rl4co.Ops.replicateSite_instance_major_mismatch", "proved", "the instance-major form pairs row 1 (instance 1) with instance 0's copy"),
    T("Rl4co.Ops.gatherIdx_step_survives", "proved", "gather_by_index [B,N,…]/[B,S]: result [B,S,…] with [b][s] = src[b][idx b s] iff S ≠ 1 or squeeze=False"),
    T("Rl4co.Ops.gatherIdx_step_lost", "proved", "… a single step with squeeze=True drops the step dimension"),
    T("Rl4co.Ops.gatherIdx_default_one_step", "proved", "the default call drops a one-step dimension; squeeze=False keeps it for every S (root of fix f2d5960)"),
    T("Rl4co.Ops.hookRule_eq_envRule", "proved", "multistart and beam-search pre_decoder_hook use the env's own select_start_nodes (overrides not bypassed)"),
    T("Rl4co.Ops.fjsp_starts_rows", "proved", "FJSPEnv/JSSPEnv.select_start_nodes (extracted: delegates to sample_n_random_actions): rows j·B+b feasible for instance b, distinct when every instance has >= n feasible first actions"),
    T("Rl4co.Ops.sampleN_rows", "proved", "sample_n_random_actions: rows j·B+b hold feasible actions of instance b, distinct unless the replacement branch"),
    T("Rl4co.Spec.Ops.expandOk_iff", "proved", "Spec sanity: expandOk ⇔ ∀ r, tag r = r mod B"),
    T("Rl4co.Spec.Ops.bestOk_iff", "proved", "Spec sanity: bestOk ⇔ returned value bounds all rollouts ∧ is attained by the chosen one"),
    T("Rl4co.Spec.Ops.bestOk_value_unique", "proved", "Spec sanity: the accepted best value is unique"),
    T("Rl4co.Spec.Ops.startsOk_iff", "proved", "Spec sanity: with ≥ k feasible starts, startsOk ⇔ all feasible ∧ Nodup"),
    T("Rl4co.Spec.Ops.startsOk_of", "proved", "Spec sanity: feasible pairwise distinct starts are always accepted"),
    T("Rl4co.Spec.Ops.startsFeasStrong_imp", "proved", "Spec sanity: the strong feasibility oracle implies the text's"),
    T("Rl4co.Ops.starts_row", "proved", "forced start of row r is (r div B) mod m + lo"),
    T("Rl4co.Ops.starts_prefix", "proved", "k <= m: instance b is forced to exactly lo..lo+k-1"),
    T("Rl4co.Ops.starts_distinct", "proved", "k <= #startable => forced starts of an instance are pairwise distinct"),
    T("Rl4co.Ops.starts_in_range", "proved", "every forced start is a startable index lo..lo+m-1"),
    T("Rl4co.Ops.starts_feasible_of_mask", "proved", "interface lemma: reset mask admits lo..lo+k-1 => all forced starts feasible"),
    T("Rl4co.Ops.start_infeasible_of_mask", "proved", "converse: a masked index among lo..lo+k-1 IS forced"),
    T("Rl4co.Ops.genericStartsCode_eq", "proved", "the generic rule as written (expander, arange start, modulus, offset — all extracted) equals startsOf with lo = 1 / 0"),
    T("Rl4co.Ops.envRule_table", "proved", "(lo, m) of every environment's select_start_nodes"),
    T("Rl4co.Ops.default_starts_le", "proved", "default num_starts <= #startable for cvrp/pctsp/pdp/tsp/flp"),
    T("Rl4co.Ops.default_starts_gt", "proved", "default num_starts = #startable + 1 for mtvrp/svrp (node 1 forced twice)"),
    T("Rl4co.Ops.generic_starts_wrap", "proved", "generic depot rule with m = #customers: every forced start is in 1..m for EVERY k (k > num_loc repeats customers)"),
    T("Rl4co.Ops.mtsp_starts_in_mask_counterexample", "proved", "NOT (mTSP forced starts are action indices): num_loc counts the depot, k = num_loc forces index num_loc"),
    T("Rl4co.Ops.mtsp_starts_in_mask_partial", "partial", "mTSP: k <= num_loc - 1 (= default) => forced starts are action indices"),
    T("Rl4co.Ops.smtwtp_starts_in_mask_counterexample", "proved", "NOT (SMTWTP default forced starts are job indices): default k = n+1 forces index n+1"),
    T("Rl4co.Ops.smtwtp_starts_in_mask_partial", "partial", "SMTWTP: k <= n => forced starts are job indices"),
    T("Rl4co.Ops.dpp_rule", "proved", "DPP/MDPP fall under the generic depot rule (1, 0xFFFFFFFF) and default num_starts = number of cells"),
    T("Rl4co.Ops.dpp_starts_in_mask_counterexample", "proved", "NOT (DPP default forced starts are cell indices): 3x3 grid, default k = 9 forces cell 9"),
    T("Rl4co.Ops.dpp_starts_in_mask_partial", "partial", "DPP/MDPP: k <= n - 1 => forced starts are cell indices"),
    T("Rl4co.Ops.dpp_starts_offered_counterexample", "proved", "NOT (DPP forced starts are offered whenever k offered cells exist): keep-out cell 2, k = 3 forces 1,2,3"),
    T("Rl4co.Ops.dpp_starts_offered_partial", "partial", "DPP/MDPP: offered iff the reset mask offers cells 1..k"),
    T("Rl4co.Ops.op_starts_feasible", "proved", "OP (fixed rule): every forced start is a customer feasible for its own instance whenever it has >= 1 feasible customer"),
    T("Rl4co.Ops.op_starts_distinct", "proved", "OP: >= k feasible customers => the k forced starts are pairwise distinct (the first k feasible ones)"),
    T("Rl4co.Ops.op_starts_eq_generic", "proved", "OP: all customers feasible => identical to the generic depot rule (j mod n) + 1"),
    T("Rl4co.Ops.op_starts_eq_generic'", "proved", "… stated against instStarts of startsOf"),
    T("Rl4co.Ops.op_starts_row", "proved", "OP: row j*B+b is copy j of instance b and depends on b's own mask only"),
    T("Rl4co.Ops.op_default_starts", "proved", "OP's default num_starts = number of customers"),
    T("Rl4co.Ops.select_best_correct", "proved", "_select_best: max of the instance's own k rewards + actions/logp/td of that very rollout, any tie-breaking"),
    T("Rl4co.Ops.argmaxFirst_isArgmax", "proved", "first-index max satisfies the tie-breaking assumption"),
    T("Rl4co.Ops.argmaxLast_isArgmax", "proved", "last-index max satisfies the tie-breaking assumption"),
    T("Rl4co.Ops.get_best_actions_counterexample", "proved", "NOT (get_best_actions returns rollout max_idxs[b] of instance b)"),
    T("Rl4co.Ops.get_best_actions_partial", "partial", "B = 1: first action of the selected rollout, shape [1,1,1]"),
    T("Rl4co.Ops.symnco_best_counterexample", "proved", "NOT (SymNCO best_multistart_actions is [B,A,...] of best starts) when A > 1"),
    T("Rl4co.Ops.symnco_best_partial", "partial", "A = 1: the gather is the intended one"),
]
C17_THEOREMS = [
    T("Rl4co.Ops.chunks_flatten", "proved", "join (chunks n xs) = xs for every n >= 1 incl. last partial batch"),
    T("Rl4co.Ops.chunks_sizes", "proved", "batches non-empty, <= n, all but the last exactly n"),
    T("Rl4co.Ops.loader_flatten", "proved", "loader over any sampler order delivers exactly map item order"),
    T("Rl4co.Ops.loader_roundtrip", "proved", "sequential loader over a data set returns the data set"),
    T("Rl4co.Ops.extra_travels", "proved", "batches of zip ds extra under any order = zip of the batches of ds and of extra under that order"),
    T("Rl4co.Ops.extra_travels_mem", "proved", "every delivered pair is (item i, extra i) for one i"),
    T("Rl4co.Ops.extra_travels_perm", "proved", "under any permutation every (instance, extra) pair is delivered exactly once"),
    T("Rl4co.Ops.rollout_aligned", "proved", "RowWise f => concatenated per-batch rewards = map g ds, any evaluation batch size"),
    T("Rl4co.Ops.wrap_aligned", "proved", "item i of the wrapped data set = (instance i, baseline reward of instance i)"),
    T("Rl4co.Ops.wrap_travels", "proved", "through any order and batch size each delivered pair is (ds[i], g ds[i])"),
    T("Rl4co.Ops.tdd_fetch_eq_index", "proved", "TensorDictDataset (__init__ / __getitem__ / collate_fn as functions) delivers td[idxs] for ANY non-empty index list"),
    T("Rl4co.Ops.all_classes_agree", "proved", "FastTdDataset.__getitems__, FastGeneration.__getitems__ and TensorDictDataset deliver the same td[idxs] (gaps, repetitions, any order)"),
    T("Rl4co.Ops.loader_roundtrip_perm", "proved", "any index sequence (any sampler): returned instances = the sequence mapped through the data set; a permutation returns each exactly once"),
    T("Rl4co.Ops.loader_batches", "proved", "the j-th batch is the j-th chunk of the index sequence mapped through the data set"),
    T("Rl4co.Ops.chunks_getElem?", "proved", "positional form: slot j of batch k is element k*bs+j of the sampler order, for every bs >= 1, every length; empty exactly beyond the end (final partial batch)"),
    T("Rl4co.Ops.chunks_length", "proved", "the loader yields ceil(len / bs) batches: no empty trailing batch, none dropped"),
    T("Rl4co.Ops.loader_getElem?", "proved", "slot j of batch k of the data loader holds item order[k*bs+j], any sampler order"),
    T("Rl4co.Ops.loader_sequential_slot", "proved", "sequential sampler: slot j of batch k is instance k*bs+j itself"),
    T("Rl4co.Ops.extra_slot", "proved", "ExtraKeyDataset: the slot holding instance order[p] holds that instance's own extra value, any order, any bs"),
    T("Rl4co.Spec.Ops.fetchOk_iff", "proved", "Spec sanity: fetchOk ⇔ delivered = requested ∧ extras aligned"),
    T("Rl4co.Spec.Ops.loaderOk_seq", "proved", "Spec sanity: without shuffling loaderOk pins ids to 0..n-1, sizes full except the last"),
    T("Rl4co.Spec.Ops.loaderOk_shuffle", "proved", "Spec sanity: with shuffling every instance exactly once, extras aligned"),
    T("Rl4co.Ops.fetch_eq", "proved", "every fetch path (collate / __getitems__ of both fast classes, extracted shapes) delivers the index list as given"),
    T("Rl4co.Ops.readExtra_eq", "proved", "ExtraKeyDataset.__getitem__ (extracted: unconditional write, index idx) overwrites the key with extra[idx]"),
    T("Rl4co.Ops.moduleOrder_sequential", "proved", "_dataloader_single(shuffle=False) reads sequentially (extracted shuffle=shuffle)"),
    T("Rl4co.Ops.eval_call_aligned", "proved", "EvalBase.__call__: rewards[i] / actions[i] are instance i's, actions right-padded with zeros to the common length, any batching"),
    T("Rl4co.Ops.eval_call_roundtrip", "proved", "… over a sequential loader: one reward per instance of the data set in order"),
    T("Rl4co.Ops.padRow_eq", "proved", "pad(action, (0, L - len)) appends zeros only"),
    T("Rl4co.Ops.rollout_eval_aligned", "proved", "RolloutBaseline.rollout and MDAM's own rollout put the policy in eval mode (extracted): values = map g ds for a policy whose INFERENCE behaviour is row-wise, whatever it does in train mode"),
    T("Rl4co.Ops.rollout_eval_batch_size_independent", "proved", "… hence identical for any two evaluation batch sizes"),
    T("Rl4co.Ops.rolloutWith_train_mode_counterexample", "proved", "without .eval() a batch-centred policy attaches batch-size dependent values"),
    T("Rl4co.Ops.blWrap_eq", "proved", "WarmupBaseline.wrap_dataset with a row-wise baseline policy attaches g(policy, x), or nothing while alpha = 0"),
    T("Rl4co.Ops.epoch_end_wrap_uses_updated_baseline", "proved", "REINFORCE.on_train_epoch_end (extracted order: callback, then reset): the new training set carries the rewards of the baseline policy AFTER the callback and is wrapped iff the alpha AFTER the callback is > 0"),
    T("Rl4co.Ops.epoch_end_swapped_counterexample", "proved", "NOT the same claim for the swapped order (reset before callback)"),
    T("Rl4co.Ops.epoch_end_swapped_is_stale", "proved", "with the swapped order the attached values are those of the PRE-update baseline"),
    T("Rl4co.Ops.runEpochs_current", "proved", "after ANY sequence of epoch boundaries the current training set is the one wrapped by the CURRENT baseline state"),
    T("Rl4co.Ops.rewrap_current", "proved", "shared list-of-dicts items: after ANY history, a read through a wrapper returns the current wrapper's value, other entries untouched"),
    T("Rl4co.Ops.readMany_current", "proved", "the same for a whole pass over any index list (any order, repetitions) from any store"),
]

NOTE_P = ("translator tie: `Params.opsLoopsReversed`, `opsNumStartsDepotEnvs`, `opsNoDepotStartEnvs`, `opsOpClampMin`, `opsOpArgsortStable`, `opsOpCountPerInstance`, `opsNoDepotInterleave`, `opsDepotInterleave`, `opsDepotArangeStart`, `opsDepotModAdd`, `opsDepotPlus`, `opsOpReplicaMajor`, `opsSampleNReplicaMajor`, `amFlattenReplicaMajor`, `amStaticUnbatchify`, `amCacheUsesBatchify`, `decMultistartEnvSelect`, `decBeamEnvSelect`, `opsGatherSqueezeDefault/DimDefault/SqueezeSize`, `fjspStartsDelegate`, `l2dHiddenUsesBatchify`, `narIndexUsesBatchify`, `matnetTdUsesBatchify`, `easTdUsesBatchify`, "
          "`opsSampleNReplaceCmp` are regenerated from utils/ops.py (harness/probes/ops.py) and unfolded by the C12 proofs")

register(Unit("C12", "ops", run_c12, drivers=["drv_ops"],
              lean_modules=["Rl4co.Props.C12.Batchify", "Rl4co.Props.C12.Select", "Rl4co.Props.C12.OpsSpec", "Rl4co.Spec.Ops"],
              theorems=C12_THEOREMS, assumptions=[NOTE_T, NOTE_S, NOTE_P], replay=replay_c12, search=run_c12))
register(Unit("C17", "ops", run_c17, drivers=["drv_ops"],
              lean_modules=["Rl4co.Props.C17.Dataset", "Rl4co.Props.C17.DatasetPos", "Rl4co.Props.C12.OpsSpec", "Rl4co.Spec.Ops"],
              theorems=C17_THEOREMS, assumptions=[NOTE_D, NOTE_PD], replay=replay_c17, search=run_c17))
