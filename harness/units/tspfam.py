"""Equal-length routing / scheduling family: TSPEnv, ATSPEnv, PDPEnv (both `force_start_at_depot`),
SMTWTPEnv  vs  the Lean models `Rl4co.{Tsp,Atsp,Pdp,Smtwtp}`  vs  the specs `Rl4co.Spec.*`.

Every episode of these environments has the same length for every instance of a (rectangular) batch;
after the last step the mask is all-False, which is fine because no row is ever stepped again.  The
generic routines of `envcorr` are used for C01 / C03 / C05; C02 / C04 / C06 / C07 have routines of
their own here (no post-finish padding exists in this family; the batch-global first-step test of
TSP/ATSP is compared through the model's `batchStep`; the checkers get family-specific corruptions).
"""
from __future__ import annotations

import itertools
import math
from fractions import Fraction
from typing import List

import envcorr
import geom
import rl
from common import Theorem, Unit, register
from envcorr import EpisodeFailed, compare_trace, make_batch, run_batch
from leanio import parse_fields
from rl import TensorDict, torch

GRID = geom.GRID  # 2^10; matrix / coordinate values are k / GRID
TPG = geom.TICKS_PER_GRID


class SizedEnv:
    """ATSP / PDP / SMTWTP size their reset tensors from `generator.num_loc`, so one env object serves
    one instance size; this proxy keeps one real env per size and forwards the calls."""

    def __init__(self, factory, size_of):
        self.factory, self.size_of, self.envs, self.cur = factory, size_of, {}, None

    def reset(self, td):
        n = self.size_of(td)
        if n not in self.envs:
            self.envs[n] = self.factory(n)
        self.cur = self.envs[n]
        return self.cur.reset(td)

    def step(self, td):
        return self.cur.step(td)

    def _get_reward(self, td, actions):
        return self.cur._get_reward(td, actions)

    def get_reward(self, td, actions):
        return self.cur.get_reward(td, actions)

    def check_solution_validity(self, td, actions):
        return self.cur.check_solution_validity(td, actions)


def _flat(M):
    return " ".join(str(v) for row in M for v in row)


def _acts(a):
    return " ".join(map(str, a))


# ------------------------------------------------------------------------------------------------
# configurations (constructor / generator options) and instance representation
# ------------------------------------------------------------------------------------------------
# A configuration = keyword arguments of the env constructor + generator parameters.  Configurations
# with generator parameters draw their instances from the repo's own generator built with those
# parameters (generic stream: float32 data, rewards compared with a tolerance); the others use the
# exact stream (hand-built instances whose float32 arithmetic is exact) mixed with default-generator
# instances.
ENV_CFG = {
    "default": {},
    "chk": {"env": {"check_solution": True}},      # reward through get_reward = checker + _get_reward
    "trl": {"env": {"_torchrl_mode": True}},       # step through _torchrl_step
}
GEN_CFG = {
    "tsp": {"box1000": dict(min_loc=1000.0, max_loc=1001.0), "boxneg": dict(min_loc=-1.0, max_loc=1.0),
            "box100": dict(min_loc=0.0, max_loc=100.0), "boxtiny": dict(min_loc=0.5, max_loc=0.5 + 2.0 ** -6),
            "normal": dict(loc_distribution="normal", loc_mean=50.0, loc_std=0.25)},
    "atsp": {"notmat": dict(tmat_class=False), "dist10": dict(min_dist=5.0, max_dist=10.0, tmat_class=False),
             "dist1000": dict(min_dist=1000.0, max_dist=1001.0), "disttiny": dict(min_dist=0.0, max_dist=2.0 ** -10)},
    "pdp": {"box1000": dict(min_loc=1000.0, max_loc=1001.0), "boxneg": dict(min_loc=-1.0, max_loc=1.0),
            "box100": dict(min_loc=0.0, max_loc=100.0), "depotcenter": dict(depot_distribution="center"),
            "depotuniform": dict(depot_distribution="uniform", min_loc=10.0, max_loc=12.0)},
    "smtwtp": {"span": dict(min_time_span=2.0, max_time_span=3.0), "w10": dict(min_job_weight=1.0, max_job_weight=10.0),
               "pt100": dict(min_process_time=1.0, max_process_time=100.0, max_time_span=1000.0),
               "big": dict(min_process_time=100.0, max_process_time=1000.0, min_job_weight=10.0, max_job_weight=1000.0,
                           min_time_span=0.0, max_time_span=20000.0)},
}
K_GEN = 30  # generic-stream values are passed to the model as integers in units of 2^-30


def f32(x: float) -> float:
    return float(torch.tensor(x, dtype=torch.float32))


def q(x: float, K: int) -> int:
    """float → integer in units of 2^-K (exact whenever x is on that grid)"""
    return int((Fraction(x) * (1 << K)).__round__())


class EqAdapter(envcorr.Adapter):
    lean_env = "?"
    gen_family = "?"
    has_batch_op = False
    BIG = [26, 50, 101]

    def n_of(self, inst):
        return inst["n"]

    def step_bound(self, inst):
        return inst["n"]

    def sizes(self, tier):
        # a share of instances well above 25 nodes (size-dependent code paths, e.g. cdist's matmul mode)
        small = [1, 2, 3, 5, 8] if tier == "quick" else [1, 2, 3, 5, 8, 13, 20]
        return small * 3 + self.BIG

    def small_sizes(self, tier):
        return [1, 2, 3, 5, 8]

    def feasible_key(self):  # reply field that judges checker soundness
        return "feas"

    def variants(self):
        return [{}] * 3 + [{"cfg": c} for c in ("chk", "trl")] + [{"cfg": c} for c in GEN_CFG[self.gen_family]]

    def cfg_parts(self, cfg):
        env_kw = dict(ENV_CFG.get(cfg, {}).get("env", {}))
        gen_kw = GEN_CFG[self.gen_family].get(cfg)
        return env_kw, gen_kw

    def make_generator(self, n, gen_kw):
        raise NotImplementedError

    def from_generator(self, rng, n, gen_kw, cfg):
        """one instance drawn from the repo's own generator (seeded from the harness PRNG)"""
        torch.manual_seed(rng.getrandbits(31))
        td = self.make_generator(n, gen_kw or {})(batch_size=[1])
        inst = self.inst_of_td(td, n)
        inst.update(kind="gen", exact=False, cfg=cfg, K=K_GEN)
        return inst

    # value (as an exact rational) of one unit of the model's reward / objective integers
    def unit(self, inst) -> Fraction:
        return Fraction(1, 1 << inst["K"])

    def time_unit(self, inst) -> Fraction:
        return self.unit(inst)

    # magnitude the float32 rounding error of the reward scales with
    def magnitude(self, inst, actions, obj_units: int) -> Fraction:
        return abs(obj_units) * self.unit(inst)


# ------------------------------------------------------------------------------------------------
class TspAdapter(EqAdapter):
    name = "tsp"
    lean_env = "tsp"
    gen_family = "tsp"
    has_batch_op = True

    def make_env(self, cfg="default", **kw):
        from rl4co.envs.routing.tsp.env import TSPEnv

        env_kw, gen_kw = self.cfg_parts(cfg)
        env_kw.setdefault("check_solution", False)
        return SizedEnv(lambda n: TSPEnv(generator_params=dict(num_loc=n, **(gen_kw or {})), **env_kw),
                        lambda td: td["locs"].shape[-2])

    def make_generator(self, n, gen_kw):
        from rl4co.envs.routing.tsp.generator import TSPGenerator

        return TSPGenerator(num_loc=n, **gen_kw)

    def inst_of_td(self, td, n):
        return {"n": n, "xy": [[float(v) for v in p] for p in td["locs"][0].tolist()]}

    def kinds(self):
        return ["random", "dup", "shifted", "scaled", "gen"]

    def n_points(self, n):
        return n

    def gen_instance(self, rng, n, kind="random", cfg="default"):
        _, gen_kw = self.cfg_parts(cfg)
        if gen_kw is not None or kind == "gen":
            return self.from_generator(rng, n, gen_kw, cfg)
        m = self.n_points(n)
        pts = geom.gen_points(rng, m)
        if kind == "dup" and m >= 2:
            for _ in range(rng.randint(1, max(1, m // 2))):
                pts[rng.randrange(m)] = pts[rng.randrange(m)]
        # coordinates far from the origin (whole-unit shifts keep the 2^-10 grid exact in float32) and
        # scaled by powers of two: x = (pt / 2^10 + shift) * 2^s
        shift = (0, 0)
        s = 0
        if kind == "shifted" or rng.random() < (0.5 if n > 20 else 0.15):  # large n AND large magnitude together
            shift = rng.choice([(1000, 1000), (-512, 300), (4000, 0), (0, -2048), (8000, 8000), (1, -1)])
        if kind == "scaled" or rng.random() < 0.15:
            s = rng.choice([-6, -3, 3, 7, 10])
        xy = [[((x + shift[0] * GRID) / GRID) * 2.0 ** s, ((y + shift[1] * GRID) / GRID) * 2.0 ** s] for (x, y) in pts]
        assert all(f32(v) == v for p in xy for v in p)
        inst = {"kind": kind, "exact": True, "cfg": cfg, "K": 20, "n": n, "pts": pts, "shift": shift, "s": s, "xy": xy}
        return inst

    def D_units(self, inst):
        if inst["exact"]:
            D = geom.D_ticks(inst["pts"])
            s = inst["s"]
            return [[v << s if s >= 0 else v >> -s for v in row] for row in D] if s else D
        xy, K = inst["xy"], inst["K"]
        return [[q(math.hypot(a[0] - b[0], a[1] - b[1]), K) for b in xy] for a in xy]

    def to_td(self, insts):
        locs = torch.tensor([i["xy"] for i in insts], dtype=torch.float32)
        return TensorDict({"locs": locs}, batch_size=[len(insts)])

    def line(self, op, inst, actions):
        D = _flat(self.D_units(inst)) if op == "episode" else "0"
        return f"tspfam.tsp.{op} {inst['n']} | {D} | {_acts(actions)}"

    def handbuilt(self, rng, inst):
        n = inst["n"]
        ident = list(range(n))
        perm = ident[:]
        rng.shuffle(perm)
        k = rng.randrange(n)
        return [("identity", ident), ("reversed", ident[::-1]), ("shuffled", perm), ("rotated", perm[k:] + perm[:k])]

    def enumerate_solutions(self, inst):
        for p in itertools.permutations(range(inst["n"])):
            yield list(p)


class AtspAdapter(TspAdapter):
    name = "atsp"
    lean_env = "atsp"
    gen_family = "atsp"

    def make_env(self, cfg="default", **kw):
        from rl4co.envs.routing.atsp.env import ATSPEnv

        env_kw, gen_kw = self.cfg_parts(cfg)
        env_kw.setdefault("check_solution", False)
        return SizedEnv(lambda n: ATSPEnv(generator_params=dict(num_loc=n, **(gen_kw or {})), **env_kw),
                        lambda td: td["cost_matrix"].shape[-1])

    def make_generator(self, n, gen_kw):
        from rl4co.envs.routing.atsp.generator import ATSPGenerator

        return ATSPGenerator(num_loc=n, **gen_kw)

    def inst_of_td(self, td, n):
        return {"n": n, "Mf": [[float(v) for v in row] for row in td["cost_matrix"][0].tolist()]}

    def kinds(self):
        return ["random", "diag", "skew", "big", "tiny", "mixed", "gen"]

    def gen_instance(self, rng, n, kind="random", cfg="default"):
        _, gen_kw = self.cfg_parts(cfg)
        if gen_kw is not None or kind == "gen":
            return self.from_generator(rng, n, gen_kw, cfg)
        # any dyadic matrix: entries k / 2^10 (times 2^s), asymmetric; `diag`: non-zero diagonal and some
        # zero arcs; `skew`: M[a][b] and M[b][a] differ by a lot, so a wrong roll direction cannot cancel out;
        # `big` / `tiny`: large / tiny costs; `mixed`: both in one matrix (float32 sums inexact → tolerance)
        M = [[rng.randrange(0, GRID + 1) for _ in range(n)] for _ in range(n)]
        if kind != "diag":
            for a in range(n):
                M[a][a] = 0
        else:
            for _ in range(n):
                M[rng.randrange(n)][rng.randrange(n)] = 0
        if kind == "skew":
            for a in range(n):
                for b in range(a + 1, n):
                    M[a][b] = rng.randrange(0, 8)
                    M[b][a] = rng.randrange(GRID // 2, GRID + 1)
        s = {"big": rng.choice([4, 10, 14]), "tiny": rng.choice([-8, -10])}.get(kind, 0)
        exact = True
        Mf = [[v * 2.0 ** (s - 10) for v in row] for row in M]
        if kind == "mixed":
            exact = False
            Mf = [[f32(v * 2.0 ** (rng.choice([-14, 0, 12]) - 10) + rng.random() * 1e-3) for v in row] for row in M]
        return {"kind": kind, "exact": exact, "cfg": cfg, "K": 20 if exact else 40, "n": n, "Mf": Mf}

    def D_units(self, inst):
        return [[q(v, inst["K"]) for v in row] for row in inst["Mf"]]

    def to_td(self, insts):
        cm = torch.tensor([i["Mf"] for i in insts], dtype=torch.float32)
        return TensorDict({"cost_matrix": cm}, batch_size=[len(insts)])

    def line(self, op, inst, actions):
        D = _flat(self.D_units(inst)) if op == "episode" else "0"
        return f"tspfam.atsp.{op} {inst['n']} | {D} | {_acts(actions)}"

    def magnitude(self, inst, actions, obj_units):
        n = len(actions)
        return sum(abs(Fraction(inst["Mf"][actions[k]][actions[(k + 1) % n]])) for k in range(n)) if n else Fraction(0)


class PdpAdapter(TspAdapter):
    lean_env = "pdp"
    gen_family = "pdp"
    has_batch_op = False
    BIG = [26, 50, 100]

    def __init__(self, force: bool):
        self.force = force
        self.name = "pdpf" if force else "pdp"

    def make_env(self, cfg="default", **kw):
        from rl4co.envs.routing.pdp.env import PDPEnv

        env_kw, gen_kw = self.cfg_parts(cfg)
        env_kw.setdefault("check_solution", False)
        return SizedEnv(lambda n: PDPEnv(generator_params=dict(num_loc=n, **(gen_kw or {})), force_start_at_depot=self.force,
                                         **env_kw),
                        lambda td: td["locs"].shape[-2])

    def make_generator(self, n, gen_kw):
        from rl4co.envs.routing.pdp.generator import PDPGenerator

        return PDPGenerator(num_loc=n, **gen_kw)

    def inst_of_td(self, td, n):
        xy = [[float(v) for v in td["depot"][0].tolist()]] + [[float(v) for v in p] for p in td["locs"][0].tolist()]
        return {"n": n, "h": n // 2, "force": int(self.force), "xy": xy}

    def sizes(self, tier):  # number of customers (even)
        small = [2, 4, 6, 8] if tier == "quick" else [2, 4, 6, 8, 12, 20]
        return small * 3 + self.BIG

    def small_sizes(self, tier):
        return [2, 4, 6, 8]

    def n_points(self, n):
        return n + 1

    def gen_instance(self, rng, n, kind="random", cfg="default"):
        h = max(1, (n + 1) // 2)
        n = 2 * h
        inst = TspAdapter.gen_instance(self, rng, n, kind, cfg)
        inst.update(n=n, h=h, force=int(self.force))
        return inst

    def step_bound(self, inst):
        return inst["n"] + (1 if self.force else 0)

    def to_td(self, insts):
        locs = torch.tensor([i["xy"][1:] for i in insts], dtype=torch.float32)
        depot = torch.tensor([i["xy"][0] for i in insts], dtype=torch.float32)
        return TensorDict({"locs": locs, "depot": depot}, batch_size=[len(insts)])

    def line(self, op, inst, actions):
        D = _flat(self.D_units(inst)) if op == "episode" else "0"
        return f"tspfam.pdp.{op} {inst['h']} {inst['force']} | {D} | {_acts(actions)}"

    def feasible_key(self):
        return "feasT"

    def _wrap(self, cs):
        return ([0] + cs) if self.force else cs

    def handbuilt(self, rng, inst):
        h = inst["h"]
        picks = list(range(1, h + 1))
        rng.shuffle(picks)
        all_then = picks + [p + h for p in picks]
        paired = []
        for p in picks:
            paired += [p, p + h]
        rev = picks + [p + h for p in reversed(picks)]
        out = [("pickups-then-deliveries", self._wrap(all_then)), ("pair-by-pair", self._wrap(paired)),
               ("lifo", self._wrap(rev))]
        if self.force:
            out.append(("depot-last", paired + [0]))  # the same closed depot tour, written with the depot at the end
        return out

    def enumerate_solutions(self, inst):
        for p in itertools.permutations(range(1, inst["n"] + 1)):
            yield self._wrap(list(p))


class SmtwtpAdapter(EqAdapter):
    name = "smtwtp"
    lean_env = "smtwtp"
    gen_family = "smtwtp"
    has_checker = False

    def make_env(self, cfg="default", **kw):
        from rl4co.envs.scheduling.smtwtp.env import SMTWTPEnv

        env_kw, gen_kw = self.cfg_parts(cfg)
        env_kw.setdefault("check_solution", False)
        return SizedEnv(lambda n: SMTWTPEnv(generator_params=dict(num_job=n, **(gen_kw or {})), **env_kw),
                        lambda td: td["job_due_time"].shape[-1] - 1)

    def make_generator(self, n, gen_kw):
        from rl4co.envs.scheduling.smtwtp.generator import SMTWTPGenerator

        return SMTWTPGenerator(num_job=n, **gen_kw)

    def inst_of_td(self, td, n):
        g = lambda k: [float(v) for v in td[k][0].tolist()]
        return {"n": n, "p": g("job_process_time"), "d": g("job_due_time"), "w": g("job_weight")}

    def kinds(self):
        return ["random", "tight", "loose", "large", "huge", "gen"]

    def gen_instance(self, rng, n, kind="random", cfg="default"):
        _, gen_kw = self.cfg_parts(cfg)
        if gen_kw is not None or kind == "gen":
            inst = self.from_generator(rng, n, gen_kw, cfg)
            return inst
        exact = True
        if kind == "large":
            # large times and weights that stay exact in float32: multiples of 64, power-of-two weights
            p = [64 * rng.randint(1, 64) for _ in range(n)]
            w = [rng.choice([0, 1, 2, 4, 8, 16, 32, 64]) for _ in range(n)]
            tot = sum(p)
            d = [64 * rng.randint(0, tot // 64) for _ in range(n)]
        elif kind == "huge":
            # arbitrary large integers: float32 sums are inexact → tolerance comparison
            exact = False
            p = [rng.randint(1, 10000) for _ in range(n)]
            w = [rng.randint(0, 1000) for _ in range(n)]
            tot = sum(p)
            d = [rng.randint(0, tot) for _ in range(n)]
        else:
            p = [rng.randint(1, 9) for _ in range(n)]
            w = [rng.randint(0, 5) for _ in range(n)]
            tot = sum(p)
            if kind == "tight":  # due dates hit exactly by some order (tardiness 0 boundary) or all early
                d = [rng.choice([0, p[k], tot, rng.randint(0, tot)]) for k in range(n)]
            elif kind == "loose":
                d = [rng.randint(tot, 2 * tot) for _ in range(n)]
            else:
                d = [rng.randint(0, tot) for _ in range(n)]
        # dummy node 0: the bundled generator puts zeros there; hand-supplied data may hold anything
        z = [0, 0, 0] if rng.random() < 0.5 else [rng.randint(1, 9), rng.randint(0, 9), rng.randint(1, 5)]
        return {"kind": kind, "exact": exact, "cfg": cfg, "K": 0, "n": n, "p": [float(z[0])] + [float(v) for v in p],
                "d": [float(z[1])] + [float(v) for v in d], "w": [float(z[2])] + [float(v) for v in w]}

    def to_td(self, insts):
        f = lambda key: torch.tensor([i[key] for i in insts], dtype=torch.float32)
        return TensorDict({"job_due_time": f("d"), "job_weight": f("w"), "job_process_time": f("p")},
                          batch_size=[len(insts)])

    def line(self, op, inst, actions):
        K = inst["K"]
        qq = lambda xs: _acts([q(v, K) for v in xs])
        return f"tspfam.smtwtp.{op} {inst['n']} | {qq(inst['p'])} | {qq(inst['d'])} | {qq(inst['w'])} | {_acts(actions)}"

    def unit(self, inst):  # weight × time
        return Fraction(1, 1 << (2 * inst["K"]))

    def time_unit(self, inst):
        return Fraction(1, 1 << inst["K"])

    def magnitude(self, inst, actions, obj_units):
        t, m = Fraction(0), Fraction(0)
        for a in actions:
            t += Fraction(inst["p"][a])
            m += abs(Fraction(inst["w"][a])) * (t + abs(Fraction(inst["d"][a])))
        return m

    def enumerate_solutions(self, inst):
        for p in itertools.permutations(range(1, inst["n"] + 1)):
            yield list(p)


TSP, ATSP, PDP, PDPF, SM = TspAdapter(), AtspAdapter(), PdpAdapter(False), PdpAdapter(True), SmtwtpAdapter()


def pick_env_n(ctx, ad: EqAdapter, n: int):
    """configuration for a batch of size-n instances: large instances get a magnitude / box configuration half
    of the time (size-dependent code paths only misbehave together with unusual magnitudes)"""
    mags = [c for c in GEN_CFG[ad.gen_family] if c not in ("notmat", "depotcenter", "span")]
    if n > 20 and ctx.rng.random() < 0.5:
        var = {"cfg": ctx.rng.choice(mags)}
        ctx.count(f"{ad.name}.variant=cfg={var['cfg']}")
        return ad.env_for(var), var
    return envcorr.pick_env(ctx, ad)


# ------------------------------------------------------------------------------------------------
# rewards: exact rationals of the real float32 values against the model's integers
# ------------------------------------------------------------------------------------------------
class RewardShape(Exception):
    pass


def real_rewards(env, td, ep, var):
    """exact rational value of every row's reward (None for nan/inf); through `get_reward` (checker
    included) in the `chk` configuration, else `_get_reward`"""
    acts = rl.actions_tensor(ep)
    fn = env.get_reward if (var or {}).get("cfg") == "chk" else env._get_reward
    r = fn(td, acts)
    B = acts.shape[0]
    if r.numel() != B:
        raise RewardShape(f"reward has shape {list(r.shape)} for a batch of {B} instances")
    out = []
    for v in r.flatten().tolist():
        out.append(Fraction(float(v)) if math.isfinite(v) else None)
    return out


def judge(ad: EqAdapter, inst, actions, real, units: int) -> str:
    """`exact` / `close` (within float32 accumulation error) / `far`"""
    if real is None:
        return "far"
    val = units * ad.unit(inst)
    if real == val:
        return "exact"
    tol = ad.magnitude(inst, actions, units) / 50000 + ad.unit(inst) * (len(actions) + 2)
    return "close" if abs(real - val) <= tol else "far"


def same_reward(ad: EqAdapter, inst, actions, a, b) -> bool:
    """two real rewards of the same instance and actions (solo / batched / other position)"""
    if a is None or b is None:
        return a is b
    if a == b:
        return True
    if inst["exact"]:
        return False
    return abs(a - b) <= max(abs(a), abs(b)) / 50000


def check_reward_eq(ctx, ad: EqAdapter, episodes_quick=150, episodes_thorough=3000):
    """C03: the real reward against the model's `_get_reward` and against the Spec objective computed by the
    Lean oracle from the instance and the action list alone.  Exact-stream instances (any size, shifted and
    scaled coordinates, large / tiny costs) must agree bit for bit; generic-stream instances (the repo's
    generators under non-default options) within float32 accumulation error."""
    total = ctx.budget(episodes_quick, episodes_thorough)
    done_eps = 0
    while done_eps < total:
        n = ctx.rng.choice(ad.sizes(ctx.tier))
        env, var = pick_env_n(ctx, ad, n)
        B = ctx.rng.choice([1, 2, 4]) if n <= 20 else ctx.rng.choice([1, 2, 3])
        insts = make_batch(ad, ctx, n, B, var)
        try:
            td0, ep = run_batch(ctx, ad, env, insts)
        except EpisodeFailed:
            done_eps += B
            continue
        try:
            real = real_rewards(env, ep.td, ep, var)
        except RewardShape as e:
            ctx.violation(f"{ad.name}:reward-shape", str(e), {"insts": insts, "actions": ep.actions})
            done_eps += B
            continue
        except AssertionError as e:
            ctx.violation(f"{ad.name}:checker-rejects-feasible", f"get_reward raised on a mask-generated episode: {e}",
                          {"insts": insts, "actions": ep.actions})
            done_eps += B
            continue
        lines = [ad.line("episode", insts[r], ep.actions[r]) for r in range(B)]
        replies = ctx.driver.ask_many(lines)
        for r in range(B):
            inst = insts[r]
            f = compare_trace(ctx, ad, inst, ep.actions[r], ep.masks[r], ep.done[r], replies[r], "C03 stream", trace=False)
            if "reward" not in f:
                continue
            ctx.case((ad.name, repr(inst), tuple(ep.actions[r])), nontrivial=real[r] != 0)
            ctx.count(f"{ad.name}.n={ad.n_of(inst)}")
            ctx.count(f"{ad.name}.kind={inst['kind']}")
            vr = judge(ad, inst, ep.actions[r], real[r], int(f["reward"]))
            vo = judge(ad, inst, ep.actions[r], real[r], ad.reward_sign * int(f["obj"]))
            bad = (lambda v: v != "exact") if inst["exact"] else (lambda v: v == "far")
            shown = None if real[r] is None else float(real[r])
            if bad(vr):
                ctx.disagreement(f"{ad.name}: reward differs",
                                 {"inst": inst, "actions": ep.actions[r], "real": shown,
                                  "model": float(int(f["reward"]) * ad.unit(inst)), "verdict": vr})
            if bad(vo):
                ctx.violation(f"{ad.name}:reward-ne-objective",
                              "reward of the real env differs from the Spec objective",
                              {"inst": inst, "actions": ep.actions[r], "real_reward": shown,
                               "spec_objective": float(int(f["obj"]) * ad.unit(inst)), "verdict": vo, "variant": var,
                               "lean_line": lines[r] if len(lines[r]) < 4000 else lines[r][:4000] + " …"})
            ctx.count(f"{ad.name}.reward-{vo}")
            ctx.sample({"env": ad.name, "inst": inst if ad.n_of(inst) <= 8 else {"n": ad.n_of(inst), "kind": inst["kind"]},
                        "actions": ep.actions[r], "reward": shown, "spec_obj": float(int(f["obj"]) * ad.unit(inst)), "variant": var})
        done_eps += B


# ------------------------------------------------------------------------------------------------
# C02 for equal-length families
# ------------------------------------------------------------------------------------------------
def check_termination_eq(ctx, ad: EqAdapter, episodes_quick=60, episodes_thorough=1000):
    """No dead end before the last step; every row finishes after exactly `bound` steps, all rows of the
    batch at the same step (so the all-False mask after the last step is never fed to a policy); `done`
    does not revert, even when a finished batch is stepped once more with an arbitrary node."""
    total = ctx.budget(episodes_quick, episodes_thorough)
    done_eps = 0
    while done_eps < total:
        n = ctx.rng.choice(ad.sizes(ctx.tier))
        env, var = pick_env_n(ctx, ad, n)
        B = ctx.rng.choice([1, 2, 3, 5, 8]) if n <= 20 else ctx.rng.choice([1, 2, 3])
        insts = make_batch(ad, ctx, n, B, var)
        try:
            td0, ep = run_batch(ctx, ad, env, insts, nonterm_is_violation=True)
        except EpisodeFailed:
            done_eps += B
            continue
        lines = [ad.line("episode", insts[r], ep.actions[r]) for r in range(B)]
        replies = ctx.driver.ask_many(lines)
        firsts = []
        for r in range(B):
            f = compare_trace(ctx, ad, insts[r], ep.actions[r], ep.masks[r], ep.done[r], replies[r], "C02 stream")
            d = ep.done[r]
            ctx.case((ad.name, repr(insts[r]), tuple(ep.actions[r])))
            ctx.count(f"{ad.name}.n={ad.n_of(insts[r])}")
            ctx.count(f"{ad.name}.B={B}")
            if any(d[k] == 1 and d[k + 1] == 0 for k in range(len(d) - 1)):
                ctx.violation(f"{ad.name}:done-unstable", "a finished row became unfinished again",
                              {"inst": insts[r], "actions": ep.actions[r], "done": d})
            first_done = d.index(1) if 1 in d else None
            firsts.append(first_done)
            bound = ad.step_bound(insts[r])
            if first_done is None:
                if not ep.empty_mask_rows:
                    ctx.violation(f"{ad.name}:not-finished", "row not finished at the end of the batch episode",
                                  {"inst": insts[r], "actions": ep.actions[r]})
            elif first_done != bound:
                ctx.violation(f"{ad.name}:step-bound", f"row finished after {first_done} steps, the problem's length is {bound}",
                              {"inst": insts[r], "actions": ep.actions[r]})
            if "bound" in f and int(f["bound"]) != bound:
                ctx.disagreement(f"{ad.name}: bound differs", {"model": f["bound"], "harness": bound})
            for t, m in enumerate(ep.masks[r]):
                if "1" not in m and not (first_done is not None and t >= first_done):
                    ctx.violation(f"{ad.name}:dead-end", "an unfinished row is offered no action",
                                  {"inst": insts[r], "actions": ep.actions[r], "step": t})
        if len(set(firsts)) > 1:
            ctx.violation(f"{ad.name}:rows-finish-apart", "rows of one rectangular batch finish at different steps",
                          {"insts": insts, "first_done": firsts})
        for (r, t) in ep.empty_mask_rows:
            ctx.violation(f"{ad.name}:dead-end", "a row is offered no action while the batch is still running",
                          {"inst": insts[r], "actions": ep.actions[r], "step": t})
        # one more (not mask-admitted) step on the finished batch: done must stay set ("whatever is stepped")
        if not ep.empty_mask_rows and all(fd is not None for fd in firsts):
            extra = [ctx.rng.randrange(len(ep.masks[r][0])) for r in range(B)]
            td = ep.td.clone()
            td.set("action", torch.tensor(extra, dtype=torch.long))
            try:
                td2 = env.step(td)["next"]
                d2 = td2["done"].reshape(B).tolist()
                m2 = [rl.mask_str(td2["action_mask"][r]) for r in range(B)]
            except Exception as e:  # pragma: no cover
                d2, m2 = None, None
                ctx.note(f"{ad.name}: extra step on a finished batch raised {type(e).__name__}")
            if d2 is not None:
                rep2 = ctx.driver.ask_many([ad.line("episode", insts[r], ep.actions[r] + [extra[r]]) for r in range(B)])
                for r in range(B):
                    f2 = parse_fields(rep2[r])
                    ctx.count(f"{ad.name}.extra-step-after-done")
                    if not d2[r]:
                        ctx.violation(f"{ad.name}:done-unstable", "a finished row became unfinished when stepped again",
                                      {"inst": insts[r], "actions": ep.actions[r], "extra": extra[r]})
                    if f2.get("done", "")[-1:] != str(int(d2[r])) or f2.get("masks", "").split(",")[-1] != m2[r]:
                        ctx.disagreement(f"{ad.name}: state after an extra step on a finished row differs",
                                         {"inst": insts[r], "actions": ep.actions[r] + [extra[r]], "real_done": d2[r],
                                          "real_mask": m2[r], "model": rep2[r]})
        ctx.sample({"env": ad.name, "n": n, "B": B, "steps": ep.steps, "first_done": firsts})
        done_eps += B


# ------------------------------------------------------------------------------------------------
# C04 for equal-length families
# ------------------------------------------------------------------------------------------------
def _aux_state(td, r):
    out = {}
    for k in ("first_node", "current_node", "i", "current_job", "current_time"):
        if k in td.keys():
            out[k] = td[k][r].flatten().tolist()
    return out


def _time_ok(ad, inst, real_time, model_units) -> bool:
    val = int(model_units) * ad.time_unit(inst)
    real = Fraction(float(real_time))
    return real == val if inst["exact"] else abs(real - val) <= abs(val) / 50000 + ad.time_unit(inst) * 200


def check_batch_eq(ctx, ad: EqAdapter, groups_quick=16, groups_thorough=300):
    """Each row of a batch (unrelated mates, copies of itself, any position, batch size 1..8) against
    (a) the per-instance Lean model, (b) the model's batched step with the code's batch-global flag,
    (c) a real solo run and a real run at another position with the same actions."""
    total = ctx.budget(groups_quick, groups_thorough)
    for g in range(total):
        n = ctx.rng.choice(ad.sizes(ctx.tier))
        env, var = pick_env_n(ctx, ad, n)
        B = ctx.rng.choice([2, 3, 5, 8]) if n <= 20 else ctx.rng.choice([2, 3])
        insts = make_batch(ad, ctx, n, B, var)
        if ctx.rng.random() < 0.5:
            insts[ctx.rng.randrange(B)] = insts[0]
        try:
            td0, ep = run_batch(ctx, ad, env, insts)
        except EpisodeFailed:
            continue
        if ep.empty_mask_rows:
            ctx.count(f"{ad.name}.dead-end-skipped")
            continue
        try:
            rew_b = real_rewards(env, ep.td, ep, var)
        except RewardShape as e:
            ctx.violation(f"{ad.name}:batch-dependence:reward-shape", str(e), {"insts": insts, "actions": ep.actions})
            rew_b = None
        replies = ctx.driver.ask_many([ad.line("episode", insts[r], ep.actions[r]) for r in range(B)])
        for r in range(B):
            f = compare_trace(ctx, ad, insts[r], ep.actions[r], ep.masks[r], ep.done[r], replies[r],
                              "C04 batched row vs solo model")
            aux = _aux_state(ep.td, r)
            for key, fld in (("first_node", "first"), ("current_node", "cur"), ("i", "i"), ("current_job", "cur")):
                if key in aux and fld in f and aux[key] != [int(f[fld])]:
                    ctx.disagreement(f"{ad.name}: {key} of a batched row differs from the solo model",
                                     {"inst": insts[r], "actions": ep.actions[r], "real": aux[key], "model": f[fld], "row": r, "B": B})
            if "current_time" in aux and "time" in f and not _time_ok(ad, insts[r], aux["current_time"][0], f["time"]):
                ctx.disagreement(f"{ad.name}: current_time differs", {"real": aux["current_time"], "model": f["time"]})
            if rew_b is not None and "reward" in f:
                v = judge(ad, insts[r], ep.actions[r], rew_b[r], int(f["reward"]))
                if (v != "exact") if insts[r]["exact"] else (v == "far"):
                    ctx.disagreement(f"{ad.name}: reward of a batched row differs from the solo model",
                                     {"inst": insts[r], "actions": ep.actions[r], "real": None if rew_b[r] is None else float(rew_b[r]),
                                      "model": float(int(f["reward"]) * ad.unit(insts[r])), "row": r, "B": B})
                    # the Spec objective equals the model reward (theorem): the batched reward of this row is wrong
                    ctx.violation(f"{ad.name}:batch-dependence:reward-vs-objective",
                                  "reward of a row inside a batch differs from the objective of its own instance and actions",
                                  {"inst": insts[r], "actions": ep.actions[r], "batch_actions": ep.actions, "row": r, "B": B,
                                   "batched_reward": None if rew_b[r] is None else float(rew_b[r]),
                                   "objective": float(-int(f["reward"]) * ad.unit(insts[r]))})
        if ad.has_batch_op:  # the model of the batched `_step` (one first-step flag for the whole batch)
            line = f"tspfam.{ad.lean_env}.batch {ad.n_of(insts[0])} | " + " | ".join(_acts(ep.actions[r]) for r in range(B))
            fb = parse_fields(ctx.driver.ask(line))
            real_first = ep.td["first_node"].flatten().tolist()
            real_i = ep.td["i"].flatten().tolist()
            if fb.get("first") != ",".join(map(str, real_first)) or fb.get("i") != ",".join(map(str, real_i)):
                ctx.disagreement(f"{ad.name}: batched model (batchStep) differs from the real batched _step",
                                 {"insts": insts, "actions": ep.actions, "real_first": real_first, "real_i": real_i, "model": fb})
            ctx.count(f"{ad.name}.batchStep-compared")
        # real solo re-runs, and a re-run of the whole batch in another order, with the same actions
        rows = list(range(B)) if ctx.tier == "thorough" else ctx.rng.sample(range(B), min(B, 3))
        for r in rows:
            try:
                td1, ep1 = run_batch(ctx, ad, env, [insts[r]], forced=[ep.actions[r]])
            except EpisodeFailed:
                continue
            ctx.case((ad.name, repr(insts[r]), tuple(ep.actions[r]), B, r), nontrivial=True)
            ctx.count(f"{ad.name}.B={B}")
            ctx.count(f"{ad.name}.n={ad.n_of(insts[r])}")
            wit = {"inst": insts[r], "actions": ep.actions[r], "batch": insts, "row": r}
            if ep1.actions[0] != ep.actions[r] or ep1.done[0] != ep.done[r]:
                ctx.violation(f"{ad.name}:batch-dependence:finish-step",
                              "solo run does not finish at the same step as inside the batch",
                              dict(wit, solo_actions=ep1.actions[0], solo_done=ep1.done[0], batched_done=ep.done[r]))
                continue
            if ep1.masks[0] != ep.masks[r]:
                ctx.violation(f"{ad.name}:batch-dependence:mask", "masks differ between solo and batched run",
                              dict(wit, solo=ep1.masks[0], batched=ep.masks[r]))
            if _aux_state(ep1.td, 0) != _aux_state(ep.td, r):
                ctx.violation(f"{ad.name}:batch-dependence:state",
                              "observation state (first/current node, step counter, time) differs between solo and batched run",
                              dict(wit, solo=_aux_state(ep1.td, 0), batched=_aux_state(ep.td, r)))
            if rew_b is not None:
                try:
                    rew_s = real_rewards(env, ep1.td, ep1, var)[0]
                except RewardShape:
                    rew_s = "shape"
                if rew_s == "shape" or not same_reward(ad, insts[r], ep.actions[r], rew_s, rew_b[r]):
                    ctx.violation(f"{ad.name}:batch-dependence:reward", "reward differs between the solo and the batched run",
                                  dict(wit, solo_reward=str(rew_s), batched_reward=str(rew_b[r])))
        perm = list(range(B))
        ctx.rng.shuffle(perm)
        try:
            td2, ep2 = run_batch(ctx, ad, env, [insts[p] for p in perm], forced=[ep.actions[p] for p in perm])
            rew2 = real_rewards(env, ep2.td, ep2, var) if rew_b is not None else None
            for k, p in enumerate(perm):
                if ep2.masks[k] != ep.masks[p] or ep2.done[k] != ep.done[p] \
                        or (rew2 is not None and not same_reward(ad, insts[p], ep.actions[p], rew2[k], rew_b[p])) \
                        or _aux_state(ep2.td, k) != _aux_state(ep.td, p):
                    ctx.violation(f"{ad.name}:batch-dependence:position", "outcome of a row depends on its position in the batch",
                                  {"inst": insts[p], "actions": ep.actions[p], "position_a": p, "position_b": k, "batch": insts})
            ctx.count(f"{ad.name}.reordered-batches")
        except (EpisodeFailed, RewardShape):
            pass
        ctx.sample({"env": ad.name, "n": n, "B": B, "steps": ep.steps, "variant": var,
                    "kinds": [i["kind"] for i in insts], "actions_row0": ep.actions[0][:12]})


# ------------------------------------------------------------------------------------------------
# C06 for the permutation checkers
# ------------------------------------------------------------------------------------------------
def eq_corruptions(ad: EqAdapter, rng, inst, sol: List[int]) -> List[tuple]:
    out = []
    L = len(sol)
    nodes = ad.n_of(inst) + (0 if ad.lean_env in ("tsp", "atsp") else 1)  # number of node ids
    if L >= 1:
        k = rng.randrange(L)
        out.append(("drop", sol[:k] + sol[k + 1:]))
        out.append(("dup-extra", sol + [sol[k]]))
        out.append(("out-of-range", sol[:k] + [nodes] + sol[k + 1:]))
        # a prefix of the node ids only: visits 0..m-1 (TSP) resp. customers 1..m (PDP) and nothing else
        m = rng.randrange(1, L + 1) if L > 1 else 1
        if ad.lean_env in ("tsp", "atsp"):
            pre = [a for a in sol if a < m]
        else:
            cut = m - (1 if getattr(ad, "force", False) else 0)
            pre = [a for a in sol if a <= cut]
        if len(pre) < L:
            out.append(("short-tour", pre))
    if L >= 2:
        a, b = rng.sample(range(L), 2)
        dup = list(sol)
        dup[a] = sol[b]
        out.append(("dup", dup))
        sw = list(sol)
        sw[a], sw[b] = sw[b], sw[a]
        out.append(("swap", sw))
    if ad.lean_env == "pdp":
        h = inst["h"]
        p = rng.randint(1, h)
        sw = list(sol)
        ip, idl = sw.index(p), sw.index(p + h)
        sw[ip], sw[idl] = sw[idl], sw[ip]
        out.append(("delivery-before-pickup", sw))
        if L >= 3:
            k = rng.randrange(1, L - 1)
            out.append(("depot-inside", sol[:k] + [0] + sol[k:]))
            mid = list(sol)
            mid[k] = 0
            out.append(("depot-replaces-customer", mid))
    out.append(("empty", []))
    return out


def check_checker_eq(ctx, ad: EqAdapter, episodes_quick=40, episodes_thorough=600):
    total = ctx.budget(episodes_quick, episodes_thorough)
    done_eps = 0
    fk = ad.feasible_key()
    while done_eps < total:
        n = ctx.rng.choice(ad.sizes(ctx.tier))
        env, var = pick_env_n(ctx, ad, n)
        B = ctx.rng.choice([1, 2, 4]) if n <= 20 else 1
        insts = make_batch(ad, ctx, n, B, var)
        try:
            td0, ep = run_batch(ctx, ad, env, insts)
        except EpisodeFailed:
            done_eps += B
            continue
        cases = []
        for r in range(B):
            cases.append((insts[r], "mask-generated", ep.actions[r]))
            for lab, sol in ad.handbuilt(ctx.rng, insts[r]):
                cases.append((insts[r], lab, sol))
            for lab, sol in eq_corruptions(ad, ctx.rng, insts[r], ep.actions[r]):
                cases.append((insts[r], lab, sol))
        replies = ctx.driver.ask_many([ad.line("check", i, s) for (i, lab, s) in cases])
        for (inst, lab, sol), rep in zip(cases, replies):
            f = parse_fields(rep)
            td1 = env.reset(ad.to_td([inst]))
            acc = rl.checker_accepts(env, td1, torch.tensor([sol], dtype=torch.long).reshape(1, len(sol)))
            ctx.case((ad.name, repr(inst), lab, tuple(sol)), nontrivial=True)
            ctx.count(f"{ad.name}.{lab}.{'feasible' if f.get(fk) == '1' else 'infeasible'}")
            if "check" not in f:
                ctx.disagreement(f"{ad.name}: driver error", {"reply": rep, "inst": inst, "actions": sol})
                continue
            if (f["check"] == "1") != acc:
                ctx.disagreement(f"{ad.name}: checker model differs from real checker",
                                 {"inst": inst, "label": lab, "actions": sol, "real_accepts": acc, "model": f["check"]})
            if "fix" in f and f["fix"] != f.get(fk):
                ctx.disagreement(f"{ad.name}: repaired checker model (sizes from the instance) differs from the Spec",
                                 {"inst": inst, "label": lab, "actions": sol, "model_fix": f["fix"], "spec": f.get(fk)})
            if f.get("feas") == "1" and not acc:
                ctx.violation(f"{ad.name}:checker-rejects-feasible",
                              "the real checker raises for a solution that is feasible by the Lean Spec",
                              {"inst": inst, "label": lab, "actions": sol})
            if f.get(fk) == "0" and acc:
                # known defect class: every size is derived from the WIDTH of the action tensor, so a list
                # narrower than the instance that is a permutation of the node ids 0..L-1 (after the depot
                # has been prepended where the checker does so) is accepted.  Anything else that is accepted
                # although infeasible (duplicates, wrong precedence, full-width lists, …) gets the generic key.
                full = ad.step_bound(inst)
                acts = sol if (ad.lean_env != "pdp" or getattr(ad, "force", False)) else [0] + sol
                explained = len(sol) < full and f["check"] == "1" and sorted(acts) == list(range(len(acts)))
                key = (f"checker-width-derived:{ad.name}:accepts-permutation-of-first-{'nodes' if ad.lean_env != 'pdp' else 'ids'}"
                       if explained else f"{ad.name}:checker-accepts-infeasible:{lab}")
                ctx.violation(key,
                              "the real checker accepts a solution that is infeasible by the Lean Spec",
                              {"inst": inst, "label": lab, "actions": sol})
            ctx.sample({"env": ad.name, "label": lab, "inst": inst, "actions": sol, "real_checker_accepts": acc,
                        "spec_feasible": f.get(fk)}, cap=4)
        done_eps += B


# ------------------------------------------------------------------------------------------------
# multi-dimensional batch sizes (legal API usage: batch_size = [B1, B2] as list / tuple / torch.Size)
# ------------------------------------------------------------------------------------------------
MULTIDIM_NOTE = ("multi-dimensional batch sizes [B1, B2] / [B1, B2, B3] (list, tuple, torch.Size; B2 = n and B2 ≠ n) are "
                 "exercised for TSPEnv reset + step (the only env of this family whose clean code supports them: ATSPEnv "
                 "raises in batch_to_scalar, PDPEnv in the depot concatenation, SMTWTPEnv masks a whole batch slice with "
                 "`available[:, 0] = 0`); `TSPEnv._get_reward` gathers along dim 1 and does not support them either (it "
                 "raises, or for B2 = n returns values of the wrong instances), so the reward of a multi-dimensional run is "
                 "taken through the flat view `td.reshape(-1)`")


def check_multidim_batch(ctx, groups_quick=14, groups_thorough=150):
    """TSPEnv with `batch_size = [B1, B2]` (…): every index must show exactly the trace of the per-instance model —
    mask width = number of cities, no dead end, done after n steps, a feasible tour — and the same masks / done
    flags / first and current node as the flat `[B1·B2]` run of the same instances with the same actions."""
    ad = TSP
    from rl4co.envs.routing.tsp.env import TSPEnv

    total = ctx.budget(groups_quick, groups_thorough)
    for g in range(total):
        n = ctx.rng.choice([2, 3, 4, 5, 8, 8, 26])
        B1 = ctx.rng.choice([1, 2, 3])
        B2 = ctx.rng.choice([1, 2, 3, n, n, n + 1, max(1, n - 1)])
        dims = [B1, B2] if ctx.rng.random() < 0.8 else [B1, 1, B2]
        if n > 20:
            dims = [2, ctx.rng.choice([2, n])]
        N = 1
        for d in dims:
            N *= d
        how = ctx.rng.choice(["list", "tuple", "Size"])
        bs = {"list": list(dims), "tuple": tuple(dims), "Size": torch.Size(dims)}[how]
        explicit = ctx.rng.random() < 0.5  # pass batch_size= to reset as well, in the same spelling
        insts = make_batch(ad, ctx, n, N)
        cfg = ctx.rng.choice([{}, {"_torchrl_mode": True}])
        env = TSPEnv(generator_params=dict(num_loc=n), check_solution=False, **cfg)
        flat0 = ad.to_td(insts)
        td0 = TensorDict({"locs": flat0["locs"].reshape(*dims, n, 2)}, batch_size=bs)
        tag = f"{how}{'+explicit' if explicit else ''}"
        ctx.count(f"tsp.multidim.dims={len(dims)}.{'B2=n' if dims[-1] == n else 'B2!=n'}")
        ctx.count(f"tsp.multidim.{tag}")
        wit0 = {"batch_size": list(dims), "batch_size_given_as": tag, "n": n, "env_kwargs": cfg}
        try:
            td = env.reset(td0.clone(), batch_size=bs) if explicit else env.reset(td0.clone())
        except Exception as e:
            ctx.violation("tsp:multidim-batch:reset-raises", f"reset with a multi-dimensional batch size raised {type(e).__name__}: {e}",
                          dict(wit0, inst0=insts[0]))
            continue
        width = td["action_mask"].shape[-1]
        if tuple(td["action_mask"].shape[:-1]) != tuple(dims) or width != n:
            ctx.violation("tsp:multidim-batch:mask-width",
                          f"action mask has shape {tuple(td['action_mask'].shape)} for batch_size {list(dims)} and {n} cities "
                          "(one entry per city expected)", dict(wit0, inst0=insts[0]))
        masks = [[] for _ in range(N)]
        dones = [[] for _ in range(N)]
        acts = [[] for _ in range(N)]
        dead = None
        t = 0
        while True:
            m = td["action_mask"].reshape(N, -1)
            d = td["done"].reshape(N) if "done" in td.keys() else torch.zeros(N, dtype=torch.bool)
            for r in range(N):
                masks[r].append(rl.mask_str(m[r]))
                dones[r].append(int(d[r]))
            if bool(d.all()) or t > 3 * n + 5:
                break
            a = []
            for r in range(N):
                feas = [j for j, b in enumerate(m[r].tolist()) if b]
                if not feas:
                    dead = (r, t)
                    a.append(0)
                else:
                    a.append(ctx.rng.choice(feas))
            if dead is not None:
                break
            for r in range(N):
                acts[r].append(a[r])
            td.set("action", torch.tensor(a, dtype=torch.long).reshape(*dims))
            td = env.step(td)["next"]
            t += 1
        replies = ctx.driver.ask_many([ad.line("episode", insts[r], acts[r]) for r in range(N)])
        for r in range(N):
            f = parse_fields(replies[r])
            ctx.case((ad.name, "multidim", repr(insts[r]), tuple(acts[r]), tuple(dims), r), nontrivial=True)
            wit = dict(wit0, flat_index=r, inst=insts[r] if n <= 8 else {"n": n, "kind": insts[r]["kind"]}, actions=acts[r],
                       real_masks=masks[r][:3], real_done=dones[r])
            first_done = dones[r].index(1) if 1 in dones[r] else None
            if dead is not None and dead[0] == r:
                ctx.violation("tsp:dead-end", "an unfinished instance of a multi-dimensional batch is offered no action", wit)
            if first_done is not None and first_done != n:
                ctx.violation("tsp:step-bound", f"instance finished after {first_done} steps, it has {n} cities", wit)
            if first_done is None and dead is None:
                ctx.violation("tsp:not-finished", "instance of a multi-dimensional batch never finished", wit)
            if f.get("feas") == "0" and dead is None:
                ctx.violation("tsp:infeasible-episode",
                              "mask-confined episode of the real env (multi-dimensional batch) is infeasible by the Lean Spec", wit)
            if "masks" in f and (f["masks"].split(",") != masks[r] or [int(c) for c in f["done"]] != dones[r]):
                ctx.disagreement("tsp: trace of an instance inside a multi-dimensional batch differs from the per-instance model",
                                 dict(wit, model_masks=f["masks"].split(",")[:3], model_done=f["done"]))
        # the same instances and actions as a flat batch: the [B1, B2] run must be the flat run reshaped
        if dead is None:
            try:
                tdf, epf = run_batch(ctx, ad, SizedEnv(lambda k: env, lambda x: x["locs"].shape[-2]), insts, forced=acts)
                for r in range(N):
                    same = epf.masks[r] == masks[r] and epf.done[r] == dones[r] and epf.actions[r] == acts[r]
                    aux_f = _aux_state(epf.td, r)
                    aux_m = {k: td[k].reshape(N, -1)[r].tolist() for k in ("first_node", "current_node", "i") if k in td.keys()}
                    if not same or aux_f != aux_m:
                        ctx.violation("tsp:batch-dependence:batch-shape",
                                      "outcome of an instance differs between the multi-dimensional batch and the flat batch",
                                      dict(wit0, flat_index=r, actions=acts[r], flat_masks=epf.masks[r][:3], multidim_masks=masks[r][:3],
                                           flat_done=epf.done[r], multidim_done=dones[r], flat_state=aux_f, multidim_state=aux_m))
                        break
                # reward of the multi-dimensional run through the flat view of its final state
                rew = real_rewards(env, td.reshape(N), epf, {})
                rf = ctx.driver.ask_many([ad.line("episode", insts[r], acts[r]) for r in range(N)]) if False else replies
                for r in range(N):
                    f = parse_fields(rf[r])
                    if "obj" in f and dones[r] and dones[r][-1] == 1:
                        v = judge(ad, insts[r], acts[r], rew[r], -int(f["obj"]))
                        if (v != "exact") if insts[r]["exact"] else (v == "far"):
                            ctx.violation("tsp:reward-ne-objective", "reward (flat view of a multi-dimensional run) differs from the Spec objective",
                                          dict(wit0, flat_index=r, actions=acts[r], real_reward=None if rew[r] is None else float(rew[r])))
            except (EpisodeFailed, RewardShape, RuntimeError) as e:
                ctx.note(f"tsp multidim: flat comparison skipped ({type(e).__name__})")
        ctx.sample({"env": "tsp", "batch_size": list(dims), "given_as": tag, "n": n, "mask_shape": list(td["action_mask"].shape),
                    "steps": t, "actions_index0": acts[0][:12]}, cap=4)


# ------------------------------------------------------------------------------------------------
# TSP with a single node (regression probe: the reward used to go through a squeezing gather)
# ------------------------------------------------------------------------------------------------
def tsp_single_node_probe(ctx, prop: str):
    """n = 1: masks / done against the model, reward against the Spec objective (0) alone and inside a
    batch.  Regression probe for the defect fixed in /repo commit f2d5960 (`gather_by_index` squeezed the
    one-step action dimension, after which `get_tour_length` rolled over the BATCH dimension); a
    reappearance is a plain violation."""
    ad = TSP
    env = ad.make_env()
    for B in (1, 2, 3):
        insts = [ad.gen_instance(ctx.rng, 1, "random") for _ in range(B)]
        try:
            td0, ep = run_batch(ctx, ad, env, insts)
        except EpisodeFailed:
            continue
        replies = ctx.driver.ask_many([ad.line("episode", insts[r], ep.actions[r]) for r in range(B)])
        r_real = env._get_reward(ep.td, rl.actions_tensor(ep))
        vals = [float(v) for v in r_real.flatten().tolist()]
        for r in range(B):
            f = compare_trace(ctx, ad, insts[r], ep.actions[r], ep.masks[r], ep.done[r], replies[r], "single node")
            ctx.case((ad.name, "single-node", repr(insts[r]), B, r), nontrivial=B > 1)
            ctx.count(f"tsp.single-node.B={B}")
            obj = int(f.get("obj", "0"))
            ok = len(vals) == B and Fraction(vals[r]) == -obj * ad.unit(insts[r])
            if not ok:
                wit = {"insts": insts, "row": r, "actions": [ep.actions[k] for k in range(B)], "real_reward": vals,
                       "real_reward_shape": list(r_real.shape), "spec_objective_ticks": obj}
                if prop == "C03":
                    ctx.violation("tsp:reward-ne-objective:single-node-squeeze",
                                  "reward of a one-node TSP tour inside a batch is not its tour length 0", wit)
                else:
                    ctx.violation("tsp:batch-dependence:reward:single-node-squeeze",
                                  "reward of a one-node TSP tour depends on its batch-mates", wit)


# ------------------------------------------------------------------------------------------------
# C12, PDP clause: the env's own select_start_nodes / get_num_starts override
# ------------------------------------------------------------------------------------------------
def check_pdp_starts(ctx, groups_quick=40, groups_thorough=400):
    """real `PDPEnv.get_num_starts` / `select_start_nodes` against the model (`Rl4co.Pdp.numStarts`,
    `selectStartNodes`), and every forced start against the REAL reset mask of its own instance (row r of the
    k-fold expanded batch belongs to instance r mod B); starts of one instance distinct when k ≤ num_starts."""
    for ad in (PDP, PDPF):
        total = ctx.budget(groups_quick, groups_thorough)
        for g in range(total):
            n = ctx.rng.choice(ad.sizes(ctx.tier))
            env, var = pick_env_n(ctx, ad, n)
            B = ctx.rng.choice([1, 2, 3, 5])
            insts = make_batch(ad, ctx, n, B, var)
            h = insts[0]["h"]
            k = ctx.rng.choice([1, h, max(1, h // 2), h, h + 1, 2 * h + 1])
            td = env.reset(ad.to_td(insts))
            num_real = int(env.cur.get_num_starts(td))
            sel_real = [int(v) for v in env.cur.select_start_nodes(td, k).flatten().tolist()]
            f = parse_fields(ctx.driver.ask(f"tspfam.pdp.starts {h} {int(ad.force)} {B} {k}"))
            ctx.case((ad.name, "starts", h, B, k), nontrivial=True)
            ctx.count(f"{ad.name}.starts.h={h}")
            ctx.count(f"{ad.name}.starts.{'k<=num' if k <= h else 'k>num'}")
            if str(num_real) != f.get("num") or ",".join(map(str, sel_real)) != f.get("starts"):
                ctx.disagreement(f"{ad.name}: select_start_nodes / get_num_starts differ from the model",
                                 {"h": h, "B": B, "k": k, "real_num": num_real, "real_starts": sel_real, "model": f})
                continue
            mask = td["action_mask"]
            for r, a in enumerate(sel_real):
                ok = 0 <= a < mask.shape[-1] and bool(mask[r % B, a])
                if f.get("feas", "")[r:r + 1] != str(int(ok)):
                    ctx.disagreement(f"{ad.name}: reset mask at a start node differs from the model",
                                     {"h": h, "B": B, "k": k, "row": r, "start": a, "real": ok, "model": f.get("feas")})
                if not ok and k <= num_real:
                    key = (f"{ad.name}:start-masked:force_start_at_depot" if ad.force else f"{ad.name}:start-masked")
                    ctx.violation(key, "a forced multi-start node is not admitted by the reset mask of its own instance",
                                  {"num_loc": 2 * h, "force_start_at_depot": bool(ad.force), "B": B, "num_starts": k, "row": r,
                                   "start": a, "reset_mask": rl.mask_str(mask[r % B])})
                    break
            if k <= num_real:
                for b in range(B):
                    mine = [sel_real[j * B + b] for j in range(k)]
                    if len(set(mine)) != len(mine):
                        ctx.violation(f"{ad.name}:starts-not-distinct", "forced starts of one instance repeat although k ≤ num_starts",
                                      {"h": h, "B": B, "k": k, "instance": b, "starts": mine})
            ctx.sample({"env": ad.name, "h": h, "B": B, "k": k, "starts": sel_real[:12], "num_starts": num_real}, cap=4)


# ------------------------------------------------------------------------------------------------
# C07, SMTWTP clause
# ------------------------------------------------------------------------------------------------
def check_smtwtp_perm(ctx, ad: SmtwtpAdapter = None, episodes_quick=80, episodes_thorough=1500):
    """Every mask-confined episode is a permutation of the jobs 1..n; the dummy node 0 is never offered
    and never scheduled; `current_time` is the sum of the processing times scheduled so far."""
    ad = ad or SM
    total = ctx.budget(episodes_quick, episodes_thorough)
    done_eps = 0
    while done_eps < total:
        n = ctx.rng.choice(ad.sizes(ctx.tier))
        env, var = pick_env_n(ctx, ad, n)
        B = ctx.rng.choice([1, 2, 4, 6]) if n <= 20 else ctx.rng.choice([1, 2])
        insts = make_batch(ad, ctx, n, B, var)
        try:
            td0, ep = run_batch(ctx, ad, env, insts)
        except EpisodeFailed:
            done_eps += B
            continue
        if ep.empty_mask_rows:
            r, t = ep.empty_mask_rows[0]
            ctx.violation("smtwtp:dead-end", "all-False mask row while the batch is running",
                          {"inst": insts[r], "actions": ep.actions[r], "step": t})
        replies = ctx.driver.ask_many([ad.line("episode", insts[r], ep.actions[r]) for r in range(B)])
        for r in range(B):
            f = compare_trace(ctx, ad, insts[r], ep.actions[r], ep.masks[r], ep.done[r], replies[r], "C07 stream")
            ctx.case((ad.name, repr(insts[r]), tuple(ep.actions[r])), nontrivial=len(ep.actions[r]) > 1)
            ctx.count(f"smtwtp.n={n}")
            ctx.count(f"smtwtp.kind={insts[r]['kind']}")
            wit = {"inst": insts[r], "actions": ep.actions[r]}
            if any(m[0] == "1" for m in ep.masks[r]):
                ctx.violation("smtwtp:dummy-offered", "the dummy start node 0 is offered by the mask", wit)
            if 0 in ep.actions[r]:
                ctx.violation("smtwtp:dummy-scheduled", "the dummy start node 0 was scheduled", wit)
            if f.get("feas") == "0" and not ep.empty_mask_rows:
                ctx.violation("smtwtp:not-a-permutation", "episode is not a permutation of all jobs (Lean Spec)", wit)
            if sorted(ep.actions[r]) != list(range(1, n + 1)) and not ep.empty_mask_rows and f.get("feas") == "1":
                ctx.disagreement("smtwtp: Spec oracle calls a non-permutation feasible", wit)
            t_real = ep.td["current_time"][r].flatten().tolist()
            if "time" in f and not _time_ok(ad, insts[r], t_real[0], f["time"]):
                ctx.disagreement("smtwtp: current_time differs", dict(wit, real=t_real, model=f["time"]))
            ctx.sample({"env": "smtwtp", "inst": insts[r] if n <= 8 else {"n": n, "kind": insts[r]["kind"]},
                        "actions": ep.actions[r], "spec_feasible": f.get("feas"), "variant": var})
        done_eps += B


# ------------------------------------------------------------------------------------------------
# registration
# ------------------------------------------------------------------------------------------------
DRV = ["drv_tspfam"]
NOTE = {
    "tsp": "TSPEnv modelled per instance over integer ticks (Rl4co/Env/Tsp.lean) plus its batched _step with the batch-global "
           "first-step test; coordinate→distance arithmetic (symmetric Euclidean norm) and float32 rounding are glue "
           "(integral-distance point sets make them exact)",
    "atsp": "ATSPEnv modelled per instance over integer ticks (Rl4co/Env/Atsp.lean) plus its batched _step (first-step test reads "
            "row 0); instances are arbitrary dyadic cost matrices (asymmetric, optionally non-zero diagonal); the generator's "
            "triangle-inequality closure is not part of this unit",
    "pdp": "PDPEnv modelled per instance (Rl4co/Env/Pdp.lean) for both values of force_start_at_depot, num_loc even "
           "(odd num_loc crashes in _reset/_step); coordinate→distance arithmetic and float32 rounding are glue",
    "smtwtp": "SMTWTPEnv modelled per instance (Rl4co/Env/Smtwtp.lean) over integers; the harness uses small integral processing "
              "times / due dates / weights, exact in float32",
}
STREAMS_PLACEHOLDER = None
STREAMS = ("input streams: exact stream (hand-built instances on dyadic grids incl. sizes 26/50/101, coordinates shifted up to 8000 "
           "units and scaled by 2^-6..2^10, large/tiny costs, large times/weights: real float32 values must equal the model bit for "
           "bit) + generic stream (the repo's own generators under default and non-default options such as min_loc/max_loc, "
           "distributions, tmat_class, weight/time ranges: values passed to the model as exact 2^-30 multiples, rewards compared "
           "within 2e-5 of the instance's magnitude); env options check_solution=True (reward through get_reward) and "
           "_torchrl_mode=True are exercised as variants; generator parameters outside the Lean model are covered by "
           "correspondence + Spec oracle only")
NOTHM = "no theorem yet: correspondence + spec oracle only"


def _both(fn):
    def run(ctx):
        fn(ctx, PDP)
        fn(ctx, PDPF)
    return run


def _thms(prop, fam):
    return THEOREMS.get((prop, fam), [])


THEOREMS = {}


def _mods(prop, fam):
    import os
    from common import LEAN_DIR

    m = f"Rl4co.Props.{prop}.{fam.capitalize()}"
    return [m] if os.path.exists(os.path.join(LEAN_DIR, m.replace(".", "/") + ".lean")) else []


# proof obligations on the extracted source tokens (Rl4co/Proofs/TspfamParams.lean): each holds only for the
# committed value of the `Params` constants it unfolds, and the property theorems of that unit go through it
PARAM_THMS = {
    ("C03", "tsp"): [("Rl4co.Tsp.tourNext_eq", "roll shift −1 along the step dimension (utils/ops.get_tour_length)")],
    ("C03", "atsp"): [("Rl4co.Atsp.tourNext_eq", "roll shift −1 with dims=1 (ATSPEnv._get_reward)"),
                      ("Rl4co.Atsp.reward_eq", "gather index order `M[b, nodes_src, nodes_tgt]`")],
    ("C03", "smtwtp"): [("Rl4co.Smtwtp.weightedTardiness_eq", "cumsum along jobs, presum − due, clamp `< 0`")],
    ("C04", "tsp"): [("Rl4co.Tsp.firstFlag_eq", "first-step test `td['i'].all() == 0`")],
    ("C02", "tsp"): [("Rl4co.Tsp.resetWidth_eq", "`_reset` size expression `init_locs.shape[-2]` (counted from the end)")],
    ("C01", "tsp"): [("Rl4co.Tsp.resetWidth_eq", "`_reset` size expression `init_locs.shape[-2]` (counted from the end)")],
    ("C04", "atsp"): [("Rl4co.Atsp.firstFlag_cons", "first-step test `batch_to_scalar(td['i']) == 0`")],
    ("C06", "tsp"): [("Rl4co.Tsp.check_eq", "checker operator `==`")],
    ("C06", "atsp"): [("Rl4co.Atsp.check_eq", "checker operator `==`")],
    ("C06", "pdp"): [("Rl4co.Pdp.check_unfold", "checker operators `==`, `!=`, `<`, width source, depot prepended unless forced"),
                     ("Rl4co.Pdp.checkWith_eq", "same for both width sources")],
    ("C01", "pdp"): [("Rl4co.Pdp.pairIdx_eq", "pairing offset `(a + n // 2) % (n + 1)`"),
                     ("Rl4co.Pdp.toDeliver0_eq", "reset: `n // 2 + 1` leading ones of to_deliver")],
    ("C02", "pdp"): [("Rl4co.Pdp.pairIdx_eq", "pairing offset `(a + n // 2) % (n + 1)`")],
    ("C05", "pdp"): [("Rl4co.Pdp.pairIdx_eq", "pairing offset `(a + n // 2) % (n + 1)`")],
    ("C12", "pdp"): [("Rl4co.Pdp.selectStartNodes_eq", "start rule `% ((locs.shape[-2] - 1) // 2) + 1`"),
                     ("Rl4co.Pdp.numStarts_eq", "get_num_starts = h")],
}


def _reg(prop, fam, run, extra_assumptions=()):
    thms = list(_thms(prop, fam)) if _mods(prop, fam) else []
    mods = _mods(prop, fam)
    if thms and (prop, fam) in PARAM_THMS:
        thms += [Theorem(nm, "proved", "extracted-token obligation: " + note) for nm, note in PARAM_THMS[(prop, fam)]]
        mods = mods + ["Rl4co.Proofs.TspfamParams"]
    register(Unit(prop, fam, run, drivers=DRV, lean_modules=mods, theorems=thms,
                  assumptions=[NOTE[fam], STREAMS] + ([MULTIDIM_NOTE] if fam == 'tsp' else []) + list(extra_assumptions) + ([] if thms else [NOTHM])))


T = Theorem
THEOREMS.update({
    # ---------------- C01
    ("C01", "tsp"): [T("Rl4co.Tsp.feasible_of_run", "proved", "every finished mask-confined TSP episode visits every node exactly once (any n)")],
    ("C01", "atsp"): [T("Rl4co.Atsp.feasible_of_run", "proved", "every finished mask-confined ATSP episode visits every node exactly once (any n)")],
    ("C01", "pdp"): [T("Rl4co.Pdp.feasible_of_run", "proved", "no forced start: finished mask-confined episode = each pickup/delivery once, pickup before its delivery, depot never inside"),
                     T("Rl4co.Pdp.feasible_of_run_force", "proved", "forced start: the episode is the depot followed by such a sequence"),
                     T("Rl4co.Pdp.prec_of_run", "proved", "along any run an open pickup is visited before its delivery")],
    # ---------------- C02
    ("C02", "tsp"): [T("Rl4co.Tsp.mask_nonempty", "proved", "unfinished reachable state offers a node"),
                     T("Rl4co.Tsp.run_length", "proved", "done ⇔ exactly n steps (all rows of a batch finish together)"),
                     T("Rl4co.Tsp.run_length_any_batch_shape", "proved", "for every batch shape the mask width `_reset` allocates (extracted size expression) is n, and done ⇔ that many steps"),
                     T("Rl4co.Tsp.done_stable", "proved", "done is absorbing whatever is stepped"),
                     T("Rl4co.Tsp.steps_le", "proved", "no mask-confined run is longer than n")],
    ("C02", "atsp"): [T("Rl4co.Atsp.mask_nonempty", "proved", "unfinished reachable state offers a node"),
                      T("Rl4co.Atsp.run_length", "proved", "done ⇔ exactly n steps"),
                      T("Rl4co.Atsp.done_stable", "proved", "done is absorbing whatever is stepped"),
                      T("Rl4co.Atsp.steps_le", "proved", "no mask-confined run is longer than n")],
    ("C02", "pdp"): [T("Rl4co.Pdp.mask_nonempty", "proved", "unfinished reachable state offers an open pickup or an opened delivery (both start modes)"),
                     T("Rl4co.Pdp.run_length", "proved", "done ⇔ exactly n (+1 with forced start) steps"),
                     T("Rl4co.Pdp.done_stable", "proved", "done is absorbing whatever is stepped"),
                     T("Rl4co.Pdp.steps_le", "proved", "no mask-confined run is longer than n (+1)")],
    ("C02", "smtwtp"): [T("Rl4co.Smtwtp.mask_nonempty", "proved", "unfinished reachable state offers a job"),
                        T("Rl4co.Smtwtp.run_length", "proved", "done ⇔ exactly n steps"),
                        T("Rl4co.Smtwtp.done_stable", "proved", "done is absorbing whatever is stepped"),
                        T("Rl4co.Smtwtp.steps_le", "proved", "no mask-confined run is longer than n")],
    # ---------------- C03
    ("C03", "tsp"): [T("Rl4co.Tsp.reward_eq_objective", "proved", "reward = −closed tour length for every action list (symmetric distances)"),
                     T("Rl4co.Spec.Tsp.objective_roll1", "proved", "Spec sanity: tour length invariant under rotation of the closed tour (any matrix)"),
                     T("Rl4co.Spec.Tsp.objective_reverse", "proved", "Spec sanity: invariant under reversal for symmetric distances"),
                     T("Rl4co.Spec.Tsp.feasible_range", "proved", "Spec sanity: a feasible tour exists for every n"),
                     T("Rl4co.Spec.Tsp.feasible_roll1", "proved", "Spec sanity: feasibility invariant under rotation"),
                     T("Rl4co.Spec.Tsp.feasible_reverse", "proved", "Spec sanity: feasibility invariant under reversal"),
                     T("Rl4co.Tsp.reward_roll1", "proved", "reward independent of the start node of the closed tour"),
                     T("Rl4co.Tsp.reward_reverse", "proved", "reward independent of the direction (symmetric distances)")],
    ("C03", "atsp"): [T("Rl4co.Atsp.reward_eq_objective", "proved", "reward = −directed closed tour cost a_k→a_{k+1} for every action list and every matrix"),
                      T("Rl4co.Atsp.reward_legs", "proved", "leg by leg: reward = −Σ_k M[as[k]][as[(k+1) mod n]] (source index first; gather order and roll shift are extracted tokens)"),
                      T("Rl4co.Atsp.reward_roll1", "proved", "reward independent of the start node of the closed tour"),
                      T("Rl4co.Spec.Atsp.objective_roll1", "proved", "Spec sanity: directed tour cost invariant under rotation")],
    ("C03", "pdp"): [T("Rl4co.Pdp.reward_eq_objective", "proved", "reward = −length of depot→customers→depot for depot-free action lists"),
                     T("Rl4co.Pdp.reward_eq_objective_force", "proved", "same for action lists 0 :: customers (forced start), D 0 0 = 0"),
                     T("Rl4co.Spec.Pdp.objective_eq_tsp", "proved", "Spec sanity: PDP objective = TSP objective of depot :: customers")],
    ("C03", "smtwtp"): [T("Rl4co.Smtwtp.reward_eq_objective", "proved", "reward = −Σ w·max(0, C − d) for every action list and all data"),
                        T("Rl4co.Spec.Smtwtp.objective_nonneg", "proved", "Spec sanity: non-negative weights ⇒ objective ≥ 0"),
                        T("Rl4co.Spec.Smtwtp.wtFrom_zero_of_on_time", "proved", "Spec sanity: no job late ⇒ objective 0"),
                        T("Rl4co.Spec.Smtwtp.objective_single", "proved", "Spec sanity: one job costs w·max(0, p − d)"),
                        T("Rl4co.Spec.Smtwtp.feasible_range'", "proved", "Spec sanity: a schedule exists for every n")],
    # ---------------- C04
    ("C04", "tsp"): [T("Rl4co.Tsp.batchStep_eq_rowStep", "proved", "lock-step lemma: with a common step counter the batch-global `td['i'].all() == 0` flag equals each row's own flag"),
                     T("Rl4co.Tsp.batchExec_eq_rowExec", "proved", "a batch reset together stays in lock-step; batched execution = row-wise execution"),
                     T("Rl4co.Tsp.batch_row_eq_solo", "proved", "state of row r after any batched steps = solo run of instance r on its own actions"),
                     T("Rl4co.Tsp.batch_index_finish_together", "proved", "any index set ι (e.g. pairs of a [B1,B2] batch) through the flattening map: every index carries the solo state, done ⇔ n columns"),
                     T("Rl4co.Tsp.batch_rows_finish_together", "proved", "∀ batch ∀ row: every row of a mask-confined batch of n-node instances is the solo state and is done ⇔ n columns were played")],
    ("C04", "atsp"): [T("Rl4co.Atsp.batchStep_eq_rowStep", "proved", "lock-step lemma for the row-0 read `batch_to_scalar(td['i'])`"),
                      T("Rl4co.Atsp.batchExec_eq_rowExec", "proved", "batched execution = row-wise execution, rows stay in lock-step"),
                      T("Rl4co.Atsp.batch_row_eq_solo", "proved", "state of row r after any batched steps = solo run of instance r"),
                      T("Rl4co.Atsp.batch_rows_finish_together", "proved", "∀ batch ∀ row: solo state, done ⇔ n columns were played")],
    ("C04", "pdp"): [T("Rl4co.Pdp.batch_row_eq_solo", "proved", "row r of the (row-wise) batched step = solo run of instance r")],
    ("C04", "smtwtp"): [T("Rl4co.Smtwtp.batch_row_eq_solo", "proved", "row r of the (row-wise) batched step = solo run of instance r")],
    # ---------------- C05
    ("C05", "tsp"): [T("Rl4co.Tsp.run_of_feasible", "proved", "every permutation of the nodes is a finished mask-confined episode"),
                     T("Rl4co.Tsp.complete_run_iff_feasible", "proved", "complete mask-confined episodes = feasible tours"),
                     T("Rl4co.Tsp.opt_reachable", "proved", "∃ complete run attaining the minimum tour length over all feasible tours ∧ no complete run is shorter"),
                     T("Rl4co.Tsp.opt_reachable_reward", "proved", "same as an equation of rewards (symmetric distances)")],
    ("C05", "atsp"): [T("Rl4co.Atsp.run_of_feasible", "proved", "every permutation of the nodes is a finished mask-confined episode"),
                      T("Rl4co.Atsp.complete_run_iff_feasible", "proved", "complete mask-confined episodes = feasible tours"),
                      T("Rl4co.Atsp.opt_reachable", "proved", "∃ complete run attaining the minimum directed tour cost ∧ no complete run has a better reward")],
    ("C05", "pdp"): [T("Rl4co.Pdp.run_of_feasible", "proved", "every precedence-respecting customer permutation is a finished mask-confined episode"),
                     T("Rl4co.Pdp.run_of_feasible_force", "proved", "same with the forced depot start"),
                     T("Rl4co.Pdp.complete_run_iff_feasible", "proved", "complete mask-confined episodes = feasible solutions"),
                     T("Rl4co.Pdp.complete_run_iff_feasible_force", "proved", "same with the forced depot start"),
                     T("Rl4co.Pdp.opt_reachable", "proved", "∃ complete run attaining the minimum length over all feasible solutions ∧ none is shorter"),
                     T("Rl4co.Pdp.opt_reachable_force", "proved", "same with the forced depot start"),
                     T("Rl4co.Pdp.opt_reachable_reward", "proved", "reward form (symmetric distances)")],
    ("C05", "smtwtp"): [T("Rl4co.Smtwtp.run_of_feasible", "proved", "every order of the jobs is a finished mask-confined episode"),
                        T("Rl4co.Smtwtp.complete_run_iff_feasible", "proved", "complete mask-confined episodes = schedules"),
                        T("Rl4co.Smtwtp.opt_reachable", "proved", "∃ complete run attaining the minimum weighted tardiness over all job orders ∧ none has a better reward")],
    # ---------------- C06
    ("C06", "tsp"): [T("Rl4co.Tsp.check_complete", "proved", "feasible tour ⇒ checker accepts"),
                     T("Rl4co.Tsp.check_sound_partial", "partial", "checker accepts ∧ width = n ⇒ feasible"),
                     T("Rl4co.Tsp.check_sound_counterexample", "proved", "¬ full soundness: [0,1,2] on 5 nodes is accepted (known finding)"),
                     T("Rl4co.Tsp.check_iff", "proved", "acceptance ⇔ permutation of 0..width-1"),
                     T("Rl4co.Tsp.feasible_iff_check_and_width", "proved", "feasible ⇔ accepted ∧ width = n (exact characterisation)"),
                     T("Rl4co.Tsp.checkWith_true_iff", "proved", "repaired clause: the checker with num_loc from the instance accepts exactly the feasible tours"),
                     T("Rl4co.Tsp.check_sound_complete_of_fixed", "proved", "if the extracted width source is the instance, the checker as written is sound and complete (fix verifiable by one probe)"),
                     T("Rl4co.Tsp.width_source_is_action_tensor", "proved", "today's extracted width source: the action tensor (the known finding)")],
    ("C06", "atsp"): [T("Rl4co.Atsp.check_complete", "proved", "feasible tour ⇒ checker accepts"),
                      T("Rl4co.Atsp.check_sound_partial", "partial", "checker accepts ∧ width = n ⇒ feasible"),
                      T("Rl4co.Atsp.check_sound_counterexample", "proved", "¬ full soundness (known finding)"),
                      T("Rl4co.Atsp.check_iff", "proved", "acceptance ⇔ permutation of 0..width-1"),
                      T("Rl4co.Atsp.feasible_iff_check_and_width", "proved", "feasible ⇔ accepted ∧ width = n"),
                      T("Rl4co.Atsp.checkWith_true_iff", "proved", "repaired clause: sizes from the instance ⇒ sound and complete"),
                      T("Rl4co.Atsp.check_sound_complete_of_fixed", "proved", "fix verifiable by flipping the width-source probe"),
                      T("Rl4co.Atsp.width_source_is_action_tensor", "proved", "today's width source: the action tensor")],
    ("C06", "pdp"): [T("Rl4co.Pdp.check_complete", "proved", "feasible ⇒ checker accepts (no forced start)"),
                     T("Rl4co.Pdp.check_complete_force", "proved", "feasible ⇒ checker accepts (forced start)"),
                     T("Rl4co.Pdp.check_sound_partial", "partial", "accepts ∧ width = n ⇒ feasible (no forced start)"),
                     T("Rl4co.Pdp.check_sound_partial_force", "partial", "accepts ∧ width = n+1 ∧ depot first ⇒ feasible (forced start)"),
                     T("Rl4co.Pdp.check_sound_partial_force_tour", "partial", "accepts ∧ width = n+1 ⇒ feasible closed depot tour, depot first or last (forced start)"),
                     T("Rl4co.Pdp.check_sound_counterexample", "proved", "¬ full soundness: [1,2] on 2 pairs is accepted (known finding)"),
                     T("Rl4co.Pdp.feasible_iff_check_and_width", "proved", "no forced start: feasible ⇔ accepted ∧ width = n"),
                     T("Rl4co.Pdp.feasibleTour_iff_check_and_width", "proved", "forced start: feasible closed depot tour (depot first or last) ⇔ accepted ∧ width = n+1"),
                     T("Rl4co.Pdp.checkWith_true_iff", "proved", "repaired clause (no forced start): sizes from the instance ⇒ accepts exactly the feasible sequences"),
                     T("Rl4co.Pdp.checkWith_true_iff_force", "proved", "repaired clause (forced start): accepts exactly the feasible closed depot tours"),
                     T("Rl4co.Pdp.check_sound_complete_of_fixed", "proved", "fix verifiable by flipping the width-source probe"),
                     T("Rl4co.Pdp.check_sound_complete_of_fixed_force", "proved", "same, forced start"),
                     T("Rl4co.Pdp.width_source_is_action_tensor", "proved", "today's width source: the action tensor")],
    # ---------------- C12
    ("C12", "pdp"): [T("Rl4co.Pdp.selectStartNodes_eq_startsOf", "proved", "PDPEnv.select_start_nodes is the generic rule startsOf B k 1 h (pickups)"),
                     T("Rl4co.Pdp.starts_feasible", "proved", "no forced depot start, k ≤ get_num_starts: every forced start is admitted by the reset mask"),
                     T("Rl4co.Pdp.starts_distinct", "proved", "k ≤ get_num_starts: the starts of one instance are pairwise distinct"),
                     T("Rl4co.Pdp.starts_are_pickups", "proved", "every selected node is a pickup 1..h"),
                     T("Rl4co.Pdp.starts_feasible_force_counterexample", "proved", "¬ feasibility under force_start_at_depot=True (known finding)"),
                     T("Rl4co.Pdp.starts_infeasible_force", "proved", "exact negative: with the forced depot start no selected start is admitted")],
    # ---------------- C07
    ("C07", "smtwtp"): [T("Rl4co.Smtwtp.perm_of_run", "proved", "a finished mask-confined episode schedules every job 1..n exactly once and nothing else"),
                        T("Rl4co.Smtwtp.dummy_never_offered", "proved", "the dummy node 0 is masked in every reachable state"),
                        T("Rl4co.Smtwtp.dummy_never_scheduled", "proved", "0 occurs in no mask-confined action sequence")],
})

RUNS = {
    "C01": {"tsp": lambda c: (envcorr.check_feasibility(c, TSP), check_multidim_batch(c)), "atsp": lambda c: envcorr.check_feasibility(c, ATSP),
            "pdp": _both(envcorr.check_feasibility)},
    "C02": {"tsp": lambda c: (check_termination_eq(c, TSP), check_multidim_batch(c)), "atsp": lambda c: check_termination_eq(c, ATSP),
            "pdp": _both(check_termination_eq), "smtwtp": lambda c: check_termination_eq(c, SM)},
    "C03": {"tsp": lambda c: (check_reward_eq(c, TSP), tsp_single_node_probe(c, "C03"), check_multidim_batch(c, 6, 60)), "atsp": lambda c: check_reward_eq(c, ATSP),
            "pdp": _both(check_reward_eq), "smtwtp": lambda c: check_reward_eq(c, SM)},
    "C04": {"tsp": lambda c: (check_batch_eq(c, TSP), tsp_single_node_probe(c, "C04"), check_multidim_batch(c)), "atsp": lambda c: check_batch_eq(c, ATSP),
            "pdp": _both(check_batch_eq), "smtwtp": lambda c: check_batch_eq(c, SM)},
    "C05": {"tsp": lambda c: envcorr.check_completeness(c, TSP, nmax_quick=4), "atsp": lambda c: envcorr.check_completeness(c, ATSP, nmax_quick=4),
            "pdp": _both(lambda c, ad: envcorr.check_completeness(c, ad, nmax_quick=4)),
            "smtwtp": lambda c: envcorr.check_completeness(c, SM, nmax_quick=4)},
    "C06": {"tsp": lambda c: check_checker_eq(c, TSP), "atsp": lambda c: check_checker_eq(c, ATSP),
            "pdp": _both(check_checker_eq)},
    "C07": {"smtwtp": lambda c: check_smtwtp_perm(c, SM)},
    "C12": {"pdp": check_pdp_starts},
}
EXTRA = {
    "C04": ["batch rows are compared with the per-instance model, with the model's batched step (batch-global first-step flag "
            "as written in the code), with real solo runs and with a real re-run at another batch position; no post-finish "
            "padding exists in this family (all rows of a rectangular batch finish at the same step)"],
    "C05": ["SMTWTP/TSP/ATSP/PDP solution sets are enumerated exhaustively for tiny sizes and every Spec-feasible one is replayed "
            "through the real mask"],
}
for _prop, _fams in RUNS.items():
    for _fam, _run in _fams.items():
        _reg(_prop, _fam, _run, EXTRA.get(_prop, ()))
