"""Selection environments (C02, C03, C04, C05, C08): real `FLPEnv`, `MCPEnv`, `DPPEnv`, `MDPPEnv` vs the
per-instance Lean models `Rl4co.Flp`, `Rl4co.Mcp`, `Rl4co.Dpp` and the specs `Rl4co.Spec.{Flp,Mcp,Dpp}`.

The real environments are driven with the harness' own loop (`run_sel`, which stops like the decoding
loop when every row is done) and the harness' own PRNG.  DPP/MDPP are built through their real
constructors with the data loader `_load_dpp_data` replaced by a stub that only fixes the grid size
(the impedance simulator behind their reward is not modelled and never called).

Streams
  exact   integral point sets (`geom.py`) / small integer matrices / integer weights: every float32 the
          code holds is on the 2^-20 grid, comparison is bit-for-bit
  gen     the repo's own generators; every float32 is passed to the model as an exact dyadic (2^-60
          ticks); min-based bookkeeping is still compared exactly, summed rewards with n·ulp tolerance
"""
from __future__ import annotations

import inspect
import itertools
from fractions import Fraction
from typing import Callable, Dict, List, Optional

import geom
import rl
from common import Theorem, Unit, register
from leanio import parse_fields
from rl import TensorDict, torch

EXACT_UNIT = rl.SCALE
GEN_UNIT = 1 << 60


def to_ticks(x: float, unit: int) -> int:
    fr = Fraction(float(x)) * unit
    if fr.denominator != 1:
        raise ValueError(f"value {float(x)!r} is not a multiple of 1/{unit}")
    return int(fr)


def bits(row) -> str:
    return "".join("1" if b else "0" for b in row)


# =================================================================================================
# adapters
# =================================================================================================
class SelAdapter:
    name = "?"
    fam = "?"  # driver prefix
    has_reward = True
    per_row_quota = True
    reward_sign = -1

    def env_for(self, insts: List[dict]):
        raise NotImplementedError

    def gen_batch(self, rng, B: int, tier: str, mixed: bool, tiny: bool = False) -> List[dict]:
        raise NotImplementedError

    def to_td(self, env, insts: List[dict]):
        raise NotImplementedError

    def line(self, inst: dict, actions: List[int]) -> str:
        raise NotImplementedError

    def n_actions(self, inst: dict) -> int:
        raise NotImplementedError

    def row_done(self, td, B: int) -> List[int]:
        d = td["done"]
        if d.numel() == B:
            return [int(v) for v in d.reshape(B).tolist()]
        # a quota of shape [B,1]: `[B] >= [B,1]` broadcasts to [B,B]; entry [r][c] compares the counter of row c
        # with the quota of row r; the decoding loop reduces with `.all()`.  The counters move in lock-step, so
        # each row of that matrix is uniform.
        d = d.reshape(B, -1)
        return [int(bool(d[r].all())) for r in range(B)]

    def observe(self, td, r: int, inst: dict) -> Dict[str, str]:
        """canonical strings of the bookkeeping observables of row r (same format as the driver's)"""
        return {}

    def reward_ticks(self, env, td, actions, insts) -> List[int]:
        r = env._get_reward(td, actions)
        return [to_ticks(v, i["unit"]) for v, i in zip(r.flatten().tolist(), insts)]

    def reward_tol(self, inst: dict, value: int = 0) -> int:
        return 0


class Trace:
    def __init__(self, B):
        self.actions: List[List[int]] = [[] for _ in range(B)]
        self.masks: List[List[str]] = [[] for _ in range(B)]
        self.done: List[List[int]] = [[] for _ in range(B)]
        self.obs: List[List[Dict[str, str]]] = [[] for _ in range(B)]
        self.empty: List[tuple] = []
        self.td = None
        self.steps = 0
        self.nonuniform_done = 0


def run_sel(ad: SelAdapter, env, insts: List[dict], choose: Callable, forced: Optional[List[List[int]]] = None,
            max_steps: int = 400) -> Trace:
    """reset, then step all rows in lock-step while some row is not done (the decoding loop's guard)."""
    B = len(insts)
    td = env.reset(ad.to_td(env, insts))
    tr = Trace(B)
    t = 0
    while True:
        mask = td["action_mask"]
        done = ad.row_done(td, B)
        for r in range(B):
            tr.masks[r].append(bits(mask[r].tolist()))
            tr.done[r].append(done[r])
            tr.obs[r].append(ad.observe(td, r, insts[r]))
        if all(done):
            break
        if t >= max_steps:
            raise RuntimeError(f"episode exceeded {max_steps} steps")
        acts = []
        stop = False
        for r in range(B):
            feas = [j for j, b in enumerate(mask[r].tolist()) if b]
            if not feas:
                tr.empty.append((r, t))
                stop = True
                acts.append(0)
                continue
            if forced is not None and t < len(forced[r]):
                acts.append(forced[r][t])
            else:
                acts.append(choose(r, t, feas))
        if stop:
            break
        for r in range(B):
            tr.actions[r].append(acts[r])
        td.set("action", torch.tensor(acts, dtype=torch.long))
        td = env.step(td)["next"]
        t += 1
    tr.steps = t
    tr.td = td
    return tr


# ---- FLP ----------------------------------------------------------------------------------------
class FlpAdapter(SelAdapter):
    name = "flp"
    fam = "flp"
    reward_sign = -1
    _env = None

    def env_for(self, insts):
        if FlpAdapter._env is None:
            from rl4co.envs.graph.flp.env import FLPEnv

            FlpAdapter._env = FLPEnv(generator_params=dict(num_loc=6, to_choose=2), check_solution=False)
        return FlpAdapter._env

    def n_actions(self, inst):
        return inst["n"]

    # Every FLP instance is held in 2^-60 ticks (`GEN_UNIT`): float32 values of any magnitude used here are
    # exact multiples.  `exact` = all distances and their sums are exactly representable (tolerance 0).
    #
    # Initial `distances` filler handed to reset.  The bundled generator uses sqrt(2)·(max_loc − min_loc); the
    # value must never matter after the first selection, so instances are built where real distances are
    # larger than it, equal to it, and smaller than it.
    FILLERS = ["sqrt2", "sqrt2", 0.0, 2.0 ** -10, 1.0, 1024.0, -1.0, "mixed"]

    @staticmethod
    def _f32(x: float) -> float:
        return torch.tensor(x, dtype=torch.float32).item()

    def _filler(self, rng, n):
        import math

        f = rng.choice(self.FILLERS)
        if f == "sqrt2":
            return [self._f32(math.sqrt(2))] * n
        if f == "mixed":
            return [self._f32(rng.choice([0.0, 0.125, 1.0, math.sqrt(2), 3.5, 64.0])) for _ in range(n)]
        return [float(f)] * n

    @staticmethod
    def _euclid_check(locs, D):
        """`orig_distances` (float32, from the repo's `get_distance_matrix`) against the Euclidean distance of the
        float32 coordinates computed in double precision: within 4 float32 ulps, diagonal exactly 0, symmetric.
        Returns None or a description of the first offending entry."""
        import math

        n = len(locs)
        for a in range(n):
            if D[a][a] != 0.0:
                return {"entry": [a, a], "real": D[a][a], "true": 0.0, "what": "non-zero diagonal"}
            for b in range(n):
                t = math.hypot(locs[a][0] - locs[b][0], locs[a][1] - locs[b][1])
                if abs(D[a][b] - t) > 4 * 2.0 ** -23 * max(t, 2.0 ** -100):
                    return {"entry": [a, b], "real": D[a][b], "true": t, "locs": [locs[a], locs[b]],
                            "what": "not the Euclidean distance of the two points (beyond 4 ulp)"}
        return None

    def _inst(self, rng, n, q, kind):
        if kind == "geom":
            # integral point set, scaled by a power of two (distances stay exact) and shifted out of the unit box
            pts = geom.gen_points(rng, n)
            k = rng.choice([1, 1, 4, 4, 2, 8, 0.25])
            sx, sy = rng.choice([(0, 0), (0, 0), (3, -2), (-7, 5), (10, 10), (100, 100), (1000, 1000), (1000, -1000), (-1, -1)])
            Dg = geom.dist_matrix(pts)
            per = int(GEN_UNIT * k) // geom.GRID
            D = [[d * per for d in row] for row in Dg]
            inst = {"kind": kind, "n": n, "q": q, "D": D, "unit": GEN_UNIT, "exact": True, "scale": k, "shift": (sx, sy),
                    "pts": pts, "per": per, "locs_f": [[sx + k * x / geom.GRID, sy + k * y / geom.GRID] for (x, y) in pts]}
        elif kind == "matrix":
            # arbitrary asymmetric integer matrix, many ties, non-zero diagonal allowed; small and large magnitudes
            hi = rng.choice([2, 4, 9, 64])
            sc = rng.choice([2.0 ** -6, 2.0 ** -6, 1.0, 16.0])
            per = int(GEN_UNIT * sc)
            D = [[rng.randint(0, hi) * per for _ in range(n)] for _ in range(n)]
            if rng.random() < 0.5:
                for a in range(n):
                    D[a][a] = 0
            inst = {"kind": kind, "n": n, "q": q, "D": D, "unit": GEN_UNIT, "exact": True, "scale": sc,
                    "locs_f": [[0.0, 0.0]] * n}
        else:  # "gen": the repo's generator, default and non-default boxes / distributions
            from rl4co.envs.graph.flp.generator import FLPGenerator

            variant = rng.choice(["default", "default", "box(-2,3)", "box(10,12)", "box(0,.25)", "normal(.5,.3)", "normal(0,2)",
                                  "box(10,11)", "box(100,101)", "box(1000,1001)"])
            kw = {"box(-2,3)": dict(min_loc=-2.0, max_loc=3.0), "box(10,12)": dict(min_loc=10.0, max_loc=12.0),
                  "box(0,.25)": dict(min_loc=0.0, max_loc=0.25), "box(10,11)": dict(min_loc=10.0, max_loc=11.0),
                  "box(100,101)": dict(min_loc=100.0, max_loc=101.0), "box(1000,1001)": dict(min_loc=1000.0, max_loc=1001.0),
                  "normal(.5,.3)": dict(loc_distribution="normal", loc_mean=0.5, loc_std=0.3),
                  "normal(0,2)": dict(loc_distribution="normal", loc_mean=0.0, loc_std=2.0)}.get(variant, {})
            g = FLPGenerator(num_loc=n, to_choose=q, **kw)
            torch.manual_seed(rng.randrange(1 << 30))
            td = g(batch_size=[1])
            D = [[to_ticks(v, GEN_UNIT) for v in row] for row in td["orig_distances"][0].tolist()]
            inst = {"kind": f"gen:{variant}", "n": n, "q": int(td["to_choose"][0]), "D": D, "unit": GEN_UNIT, "exact": False,
                    "locs_f": td["locs"][0].tolist(), "D_f": td["orig_distances"][0].tolist(),
                    "d0_f": td["distances"][0].tolist()}
            inst["d0"] = [to_ticks(v, GEN_UNIT) for v in inst["d0_f"]]
            inst["dm_bad"] = self._euclid_check(inst["locs_f"], inst["D_f"])
            return inst
        inst["d0_f"] = self._filler(rng, n)
        inst["d0"] = [to_ticks(v, GEN_UNIT) for v in inst["d0_f"]]
        return inst

    def gen_batch(self, rng, B, tier, mixed, tiny=False, **kw):
        sizes = ([2, 3, 4, 5] if tier == "quick" else [2, 3, 4, 5, 6, 7, 8]) if tiny else (
            [2, 3, 5, 8] if tier == "quick" else [1, 2, 3, 5, 8, 13, 20])
        n = rng.choice(sizes)
        q0 = rng.choice([1, n, max(1, n // 2), rng.randint(1, n)])
        big = (not tiny) and rng.random() < (0.2 if tier == "quick" else 0.15)
        if big:
            # the generator's default size class: more than 25 locations (torch kernels switch algorithms there)
            n = rng.choice([26, 40, 100])
            q0 = rng.choice([1, 2, 3, 10])
        insts = []
        # `to_choose` as the generator emits it ([B]) or as its docstring documents it ([B,1])
        qshape = rng.choice(["[B]", "[B]", "[B]", "[B,1]"])
        for r in range(B):
            q = rng.randint(1, min(n, 6) if big else n) if mixed else q0
            kind = rng.choice(["geom", "geom", "matrix", "matrix", "gen", "gen"])
            if big and kind == "matrix":
                kind = "geom"
            if kind == "gen" and mixed:
                kind = "matrix"  # the bundled generator cannot produce rows with different quotas
            inst = self._inst(rng, n, q, kind)
            inst["qshape"] = qshape
            insts.append(inst)
        if mixed and B > 1 and len({i["q"] for i in insts}) == 1:
            insts[0]["q"] = insts[0]["q"] % n + 1
        return insts

    def to_td(self, env, insts):
        from rl4co.utils.ops import get_distance_matrix

        B = len(insts)
        locs, dm, d0 = [], [], []
        for i in insts:
            u = i["unit"]
            if i["kind"].startswith("gen"):
                locs.append(i["locs_f"]); dm.append(i["D_f"]); d0.append(i["d0_f"])
                continue
            exact = [[v / u for v in row] for row in i["D"]]
            if i["kind"] == "geom":
                # the distance matrix is computed from the coordinates by the repo's own routine, as the generator does
                real = get_distance_matrix(torch.tensor([i["locs_f"]], dtype=torch.float32))[0].tolist()
                try:
                    i["dm_real"] = [to_ticks(v, u) for row in real for v in row]
                except ValueError:
                    i["dm_real"] = None
                if real != exact:
                    # on the integral grid every difference, square, sum and root is exact in float32: a mismatch is
                    # a wrong distance matrix (reported by `report_distance_matrix`); the REAL matrix is kept so that
                    # reward and bookkeeping are judged against the exact Euclidean Spec values as well
                    bad = next((a, b) for a in range(len(real)) for b in range(len(real)) if real[a][b] != exact[a][b])
                    i["dm_bad"] = {"entry": list(bad), "real": real[bad[0]][bad[1]], "true": exact[bad[0]][bad[1]],
                                   "locs": [i["locs_f"][bad[0]], i["locs_f"][bad[1]]],
                                   "what": "not the (exactly representable) Euclidean distance" if bad[0] != bad[1]
                                   else "non-zero diagonal"}
                dm.append(real)
            else:
                dm.append(exact)
            locs.append(i["locs_f"])
            d0.append(i["d0_f"])
        q = torch.tensor([i["q"] for i in insts], dtype=torch.long)
        return TensorDict({
            "locs": torch.tensor(locs, dtype=torch.float32),
            "orig_distances": torch.tensor(dm, dtype=torch.float32),
            "distances": torch.tensor(d0, dtype=torch.float32),
            "chosen": torch.zeros(B, insts[0]["n"], dtype=torch.bool),
            "to_choose": q.unsqueeze(-1) if insts[0].get("qshape") == "[B,1]" else q,
        }, batch_size=[B])

    def line(self, inst, actions):
        flat = [v for row in inst["D"] for v in row]
        return (f"flp.episode {inst['n']} {inst['q']} | " + " ".join(map(str, flat)) + " | "
                + " ".join(map(str, inst["d0"])) + " | " + " ".join(map(str, actions)))

    def observe(self, td, r, inst):
        return {"chosen": bits(td["chosen"][r].tolist()),
                "dist": ",".join(str(to_ticks(v, inst["unit"])) for v in td["distances"][r].tolist())}

    def reward_tol(self, inst, value=0):
        # float32 sum of n terms: n ulps of the result magnitude (exact stream: 0)
        return 0 if inst.get("exact") else inst["n"] * (max(abs(value), inst["unit"]) >> 21)

    # the spec-side observable that corresponds to each bookkeeping observable
    spec_of = {"dist": "near"}
    skip_spec_at_reset = {"dist"}


# ---- MCP ----------------------------------------------------------------------------------------
class McpAdapter(SelAdapter):
    name = "mcp"
    fam = "mcp"
    reward_sign = +1
    _env = None

    def env_for(self, insts):
        if McpAdapter._env is None:
            from rl4co.envs.graph.mcp.env import MCPEnv

            McpAdapter._env = MCPEnv(generator_params=dict(num_items=8, num_sets=5, min_size=1, max_size=3,
                                                           n_sets_to_choose=2), check_solution=False)
        return McpAdapter._env

    def n_actions(self, inst):
        return inst["ns"]

    def _inst(self, rng, ns, ni, ms, q, kind):
        mem = []
        for j in range(ns):
            if kind == "scattered":
                # zeros anywhere, duplicates inside a set, empty sets
                row = [rng.choice([0, 0, rng.randint(1, ni)]) for _ in range(ms)]
                if rng.random() < 0.15:
                    row = [0] * ms
            elif kind == "extreme":
                # set sizes at the extremes: empty, singleton, completely filled row, the set of ALL items
                shape = rng.choice(["empty", "single", "full-row", "all-items", "last-item"])
                if shape == "empty":
                    row = [0] * ms
                elif shape == "single":
                    row = [0] * ms
                    row[rng.randrange(ms)] = rng.randint(1, ni)
                elif shape == "last-item":
                    row = [ni] + [0] * (ms - 1)
                elif shape == "all-items" and ms >= ni:
                    row = list(range(1, ni + 1)) + [0] * (ms - ni)
                    rng.shuffle(row)
                else:
                    row = [rng.randint(1, ni) for _ in range(ms)] if ms > ni else rng.sample(range(1, ni + 1), ms)
            else:
                size = rng.randint(1, ms)
                items = rng.sample(range(1, ni + 1), min(size, ni))
                row = items + [0] * (ms - len(items))
            mem.append(row)
        if kind in ("scattered", "extreme") and ns >= 2 and rng.random() < 0.3:
            mem[1] = list(mem[0])  # duplicate set
        unit = 1
        if kind == "extreme":
            # weights at the extremes: 0, 1, large (sums stay below 2^24, exact in float32), quarters
            wk = rng.choice(["zero-one", "large", "quarters", "all-zero", "all-equal"])
            if wk == "zero-one":
                w = [rng.choice([0, 1]) for _ in range(ni)]
            elif wk == "large":
                w = [rng.choice([1, 2 ** 18, 2 ** 19, 10 ** 5, 0]) for _ in range(ni)]
            elif wk == "quarters":
                unit = 4
                w = [rng.randint(0, 41) for _ in range(ni)]  # multiples of 0.25
            elif wk == "all-zero":
                w = [0] * ni
            else:
                w = [rng.choice([1, 10, 1000])] * ni
        else:
            w = [rng.choice([1, 1, 2, 3, 5, 10, 0 if kind == "scattered" else 7]) for _ in range(ni)]
        return {"kind": kind, "ns": ns, "ni": ni, "ms": ms, "q": q, "mem": mem, "w": w, "unit": unit}

    def _gen_inst(self, rng, ns, ni, ms, q):
        from rl4co.envs.graph.mcp.generator import MCPGenerator

        # default-like and non-default weight ranges; min_size = max_size keeps the bundled generator away from
        # its shape error (DESIGN §8, C18): sizes 1 .. all items
        wr = rng.choice([(1, 10), (1, 10), (5, 5), (100, 1000), (0, 1)])
        g = MCPGenerator(num_items=ni, num_sets=ns, min_size=ms, max_size=ms, n_sets_to_choose=q,
                         min_weight=wr[0], max_weight=wr[1])
        torch.manual_seed(rng.randrange(1 << 30))
        td = g(batch_size=[1])
        mem = [[int(v) for v in row] for row in td["membership"][0].tolist()]
        w = [int(v) for v in td["weights"][0].tolist()]
        return {"kind": f"gen:w{wr[0]}-{wr[1]}", "ns": ns, "ni": ni, "ms": len(mem[0]), "q": int(td["n_sets_to_choose"][0, 0]),
                "mem": mem, "w": w, "unit": 1}

    def _gen_batch(self, rng, B, ns, ni, q, big):
        from rl4co.envs.graph.mcp.generator import MCPGenerator

        lo, hi = (5, 15) if big else (1, max(2, min(4, ni)))
        try:
            g = MCPGenerator(num_items=ni, num_sets=ns, min_size=lo, max_size=hi, n_sets_to_choose=q)
            torch.manual_seed(rng.randrange(1 << 30))
            td = g(batch_size=[B])
        except Exception:
            return None
        out = []
        for r in range(B):
            mem = [[int(v) for v in row] for row in td["membership"][r].tolist()]
            out.append({"kind": f"genbatch:{lo}-{hi}", "ns": ns, "ni": ni, "ms": len(mem[0]), "q": int(td["n_sets_to_choose"][r, 0]),
                        "mem": mem, "w": [int(v) for v in td["weights"][r].tolist()], "unit": 1, "qshape": "[B,1]f"})
        return out

    def gen_batch(self, rng, B, tier, mixed, tiny=False, **kw):
        sizes = ([2, 3, 4, 5] if tier == "quick" else [2, 3, 4, 5, 6, 7, 8]) if tiny else (
            [2, 3, 5, 8] if tier == "quick" else [1, 2, 3, 5, 8, 13, 20])
        ns = rng.choice(sizes)
        ni = rng.choice([1, 3, 5, 9] if tier == "quick" or tiny else [1, 3, 5, 9, 20])
        ms = rng.choice([1, 2, 3, 4, ni, ni + 2])
        q0 = rng.choice([1, ns, max(1, ns // 2), rng.randint(1, ns)])
        big = (not tiny) and rng.random() < (0.2 if tier == "quick" else 0.15)
        if big:
            # the generator's default size class: up to 100 sets, 200 items, sets of 5..15 items
            ns = rng.choice([26, 40, 100])
            ni = rng.choice([50, 200])
            ms = rng.choice([5, 15])
            q0 = rng.choice([1, 3, 10])
        if not mixed and not tiny and rng.random() < 0.15:
            # a whole batch from ONE call of the bundled generator with min_size < max_size (total since upstream
            # fix 202be23): the membership width is the batch-wide maximum of the sampled sizes
            b = self._gen_batch(rng, B, ns, ni, q0, big)
            if b is not None:
                return b
        # quota as the bundled generator emits it (float [B,1]) or as hand-supplied data may hold it (long [B])
        qshape = rng.choice(["[B,1]f", "[B,1]f", "[B,1]f", "[B]l"])
        insts = []
        for r in range(B):
            q = rng.randint(1, min(ns, 6) if big else ns) if mixed else q0
            kind = rng.choice(["random", "scattered", "scattered", "extreme", "extreme", "gen"])
            if kind == "gen" and not mixed:
                try:
                    insts.append(self._gen_inst(rng, ns, ni, ms, q))
                    if insts[-1]["ms"] == ms:
                        continue
                    insts.pop()
                    kind = "random"
                except Exception:
                    kind = "random"
            elif kind == "gen":
                kind = "random"
            insts.append(self._inst(rng, ns, ni, ms, q, kind))
        if mixed and B > 1 and len({i["q"] for i in insts}) == 1:
            insts[0]["q"] = insts[0]["q"] % ns + 1
        for i in insts:
            i["qshape"] = qshape
        return insts

    def to_td(self, env, insts):
        B = len(insts)
        if insts[0].get("qshape") == "[B]l":
            q = torch.tensor([i["q"] for i in insts], dtype=torch.long)
        else:
            q = torch.tensor([[float(i["q"])] for i in insts], dtype=torch.float32)
        return TensorDict({
            "membership": torch.tensor([i["mem"] for i in insts], dtype=torch.float32),
            "weights": torch.tensor([[v / i["unit"] for v in i["w"]] for i in insts], dtype=torch.float32),
            "n_sets_to_choose": q,
        }, batch_size=[B])

    def line(self, inst, actions):
        flat = [v for row in inst["mem"] for v in row]
        return (f"mcp.episode {inst['ns']} {inst['ni']} {inst['ms']} {inst['q']} | " + " ".join(map(str, flat))
                + " | " + " ".join(map(str, inst["w"])) + " | " + " ".join(map(str, actions)))

    def observe(self, td, r, inst):
        return {"chosen": bits(td["chosen"][r].tolist()),
                "weights": ",".join(str(to_ticks(v, inst["unit"])) for v in td["weights"][r].tolist()),
                "mem": ",".join(str(to_ticks(v, 1)) for v in td["membership"][r].flatten().tolist())}

    spec_of = {"weights": "unc", "mem": "rem"}
    skip_spec_at_reset = set()


# ---- DPP / MDPP ---------------------------------------------------------------------------------
_STUB_SIZE = {"DPPGenerator": 10, "MDPPGenerator": 10}


def _stub_loader(self, chip_file, decap_file, freq_file):
    """stands in for `_load_dpp_data` (which downloads the impedance data): only the grid size is needed
    by `_reset`, `_step`, the mask and the instance generator"""
    self.raw_pdn = None
    self.decap = None
    self.freq = None
    self.size = _STUB_SIZE[type(self).__name__]
    self.num_freq = 0


def make_dpp_env(multi: bool, size: int, gen_params: dict):
    from rl4co.envs.eda.dpp.env import DPPEnv
    from rl4co.envs.eda.dpp.generator import DPPGenerator
    from rl4co.envs.eda.mdpp.env import MDPPEnv
    from rl4co.envs.eda.mdpp.generator import MDPPGenerator

    saved = (DPPGenerator._load_dpp_data, MDPPGenerator._load_dpp_data)
    DPPGenerator._load_dpp_data = _stub_loader
    MDPPGenerator._load_dpp_data = _stub_loader
    # MDPPEnv.__init__ first builds a *default* DPPGenerator (num_keepout_max=50 needs a grid of >= 50 cells,
    # the shipped data is 10x10); the MDPPGenerator it is given may live on a smaller grid
    _STUB_SIZE["DPPGenerator"] = 10 if multi else size
    _STUB_SIZE["MDPPGenerator"] = size
    try:
        env = (MDPPEnv if multi else DPPEnv)(generator_params=gen_params)
    finally:
        DPPGenerator._load_dpp_data, MDPPGenerator._load_dpp_data = saved
    return env


class DppAdapter(SelAdapter):
    fam = "dpp"
    has_reward = False
    per_row_quota = False

    def __init__(self, multi: bool):
        self.multi = multi
        self.name = "mdpp" if multi else "dpp"
        self._envs: Dict[tuple, object] = {}

    def n_actions(self, inst):
        return inst["n"]

    def env_for(self, insts):
        i = insts[0]
        key = (i["size"], i["q"], i.get("kmax", 2), i.get("pmax", 3))
        if key not in self._envs:
            gp = dict(max_decaps=i["q"], num_keepout_min=1, num_keepout_max=max(2, i.get("kmax", 2)))
            if self.multi:
                gp.update(num_probes_min=1, num_probes_max=max(2, i.get("pmax", 3)))
            env = make_dpp_env(self.multi, i["size"], gp)
            # the quota under test is the one the real constructor takes from `generator_params`
            # (MDPPEnv: upstream fix 5c8314b of the former finding `mdpp-ctor-quota-C08`)
            self._envs[key] = env
        return self._envs[key]

    def gen_batch(self, rng, B, tier, mixed, tiny=False, unmasked_ok=False, **kw):
        size = rng.choice([2, 3] if tiny else ([2, 3, 4, 5, 10] if tier == "quick" else [2, 3, 4, 5, 7, 10]))
        N = size * size
        # MDPP generator: 1 cell for the legacy single probe + up to pmax-1 probes + up to kmax-1 keep-outs are
        # cleared, so at least N - pmax - kmax + 1 cells stay free (DPP: N - kmax); the quota stays within that
        pmax = min(rng.choice([2, 3, 4]), max(2, N - 3)) if self.multi else 1
        kmax = rng.randint(2, max(2, N - pmax - 1))
        free_min = (N - pmax - kmax + 1) if self.multi else (N - kmax)
        assert free_min >= 1, (N, pmax, kmax)
        q = rng.choice([1, free_min, rng.randint(1, free_min)])
        insts = []
        proto = {"size": size, "n": N, "q": q, "kmax": kmax, "pmax": pmax, "multi": self.multi, "unit": 1}
        env = self.env_for([proto])
        for r in range(B):
            kind = rng.choice(["gen", "gen", "tight", "loose", "nokeepout"])
            # "pre-masked": the instance mask already excludes the probing port(s), as the bundled generators emit
            # it.  Not pre-masked: `action_mask` = complement of the keep-out cells only, the port(s) are given in
            # `probe` alone (hand-supplied / dataset instance).  MDPPEnv must re-mask them itself; DPPEnv does not
            # (known finding `dpp:probe-offered:not-premasked`), so for DPP they are used where the caller asks.
            premasked = not ((self.multi or unmasked_ok) and rng.random() < 0.5)
            if kind == "gen":
                torch.manual_seed(rng.randrange(1 << 30))
                td = env.generator(batch_size=[1])
                avail = [int(b) for b in td["action_mask"][0].tolist()]
                if self.multi:
                    probe = [j for j, b in enumerate(td["probe"][0].tolist()) if b]
                else:
                    probe = [int(td["probe"][0, 0])]
                if not premasked and rng.random() < 0.5:
                    kind = "gen-unmasked"  # a generator instance stored with its keep-out layout only
                    for pcell in probe:
                        avail[pcell] = 1
            else:
                cells = list(range(N))
                rng.shuffle(cells)
                npb = rng.randint(1, pmax) if self.multi else 1
                probe = sorted(cells[:npb])
                rest = cells[npb:]
                nfree = q if kind == "tight" else (len(rest) if kind == "nokeepout" else rng.randint(q, len(rest)))
                free = set(rest[:nfree])
                avail = [1 if j in free else 0 for j in range(N)]
                if not premasked:
                    kind += "-unmasked"
                    for pcell in probe:
                        avail[pcell] = 1
            insts.append(dict(proto, kind=kind, avail=avail, probe=probe))
        return insts

    def to_td(self, env, insts):
        B = len(insts)
        N = insts[0]["n"]
        size = insts[0]["size"]
        locs = torch.tensor([[[a / size, b / size] for a in range(size) for b in range(size)]] * B, dtype=torch.float32)
        am = torch.tensor([i["avail"] for i in insts], dtype=torch.bool)
        if self.multi:
            probe = torch.zeros(B, N, dtype=torch.bool)
            for r, i in enumerate(insts):
                probe[r, i["probe"]] = True
        else:
            probe = torch.tensor([[i["probe"][0]] for i in insts], dtype=torch.long)
        return TensorDict({"locs": locs, "probe": probe, "action_mask": am}, batch_size=[B])

    def line(self, inst, actions):
        pb = [1 if j in inst["probe"] else 0 for j in range(inst["n"])]
        return (f"dpp.episode {inst['n']} {inst['q']} {1 if self.multi else 0} | " + " ".join(map(str, inst["avail"]))
                + " | " + " ".join(map(str, pb)) + " | " + " ".join(map(str, actions)))

    def observe(self, td, r, inst):
        return {"keepout": bits(td["keepout"][r].tolist())}

    spec_of: Dict[str, str] = {}
    skip_spec_at_reset: set = set()


FLP, MCP, DPP, MDPP = FlpAdapter(), McpAdapter(), DppAdapter(False), DppAdapter(True)


# =================================================================================================
# comparison helpers
# =================================================================================================
def ask_many(ctx, lines: List[str], chunk: int = 48) -> List[str]:
    """`leanio` pipelines up to 2000 requests before it reads a reply; the replies of this family carry
    whole bookkeeping traces, so a large batch would fill the pipe in both directions and dead-lock.
    Small chunks keep request + reply volume far below the pipe capacity."""
    out: List[str] = []
    for k in range(0, len(lines), chunk):
        out += ctx.driver.ask_many(lines[k:k + chunk])
    return out


def chooser(rng):
    return lambda r, t, feas: rng.choice(feas)


def compare_row(ctx, ad: SelAdapter, inst, tr: Trace, r: int, reply: str, what: str, bookkeeping: bool) -> Dict[str, str]:
    """model trace vs real trace of one row (masks, done, and — for C08 — the bookkeeping)"""
    f = parse_fields(reply)
    acts = tr.actions[r]
    if "masks" not in f:
        ctx.disagreement(f"{ad.name}: driver error", {"reply": reply, "inst": inst, "actions": acts})
        return f
    m_model = f["masks"].split(",")
    d_model = [int(c) for c in f["done"]]
    if m_model != tr.masks[r]:
        k = next((k for k in range(min(len(m_model), len(tr.masks[r]))) if m_model[k] != tr.masks[r][k]), -1)
        ctx.disagreement(f"{ad.name}: mask differs ({what})",
                         {"inst": inst, "actions": acts, "step": k, "real": tr.masks[r][k] if k >= 0 else tr.masks[r],
                          "model": m_model[k] if k >= 0 else m_model})
    if d_model != tr.done[r]:
        ctx.disagreement(f"{ad.name}: done differs ({what})", {"inst": inst, "actions": acts, "real": tr.done[r], "model": d_model})
    if f.get("adm") != "1":
        ctx.disagreement(f"{ad.name}: model mask does not admit an action the real mask offered ({what})",
                         {"inst": inst, "actions": acts})
    if bookkeeping:
        for key in tr.obs[r][0].keys():
            if key == "keepout":
                if f.get("keepout") != tr.obs[r][0]["keepout"]:
                    ctx.disagreement(f"{ad.name}: keepout feature differs", {"inst": inst, "real": tr.obs[r][0]["keepout"],
                                                                            "model": f.get("keepout")})
                continue
            model_states = f.get(key, "").split(":")
            real_states = [o[key] for o in tr.obs[r]]
            if model_states != real_states:
                k = next((k for k in range(min(len(model_states), len(real_states))) if model_states[k] != real_states[k]), -1)
                ctx.disagreement(f"{ad.name}: bookkeeping `{key}` differs ({what})",
                                 {"inst": inst, "actions": acts, "after_steps": k,
                                  "real": real_states[k] if k >= 0 else real_states,
                                  "model": model_states[k] if k >= 0 else model_states})
    return f


def report_distance_matrix(ctx, ad, insts: List[dict]) -> None:
    """FLP: the instance field `orig_distances` must hold the Euclidean distances of `locs` (zero diagonal).  It is
    produced by the repo's `get_distance_matrix` (the generator's own call, or the same call made by the harness on
    integral point sets); `dm_bad` was recorded when the instance was built."""
    for inst in insts:
        if inst.get("pts") is not None and not inst.get("dm_model_checked"):
            # the Lean model of `get_distance_matrix` (`Flp.distOf` on the integer grid) against the matrix the REAL
            # `get_distance_matrix` returned for these coordinates (kept in `dm_real` by `to_td`)
            inst["dm_model_checked"] = True
            pts = inst["pts"]
            f = parse_fields(ctx.driver.ask(f"flp.dm {inst['n']} | " + " ".join(str(x) for x, _ in pts) + " | "
                                            + " ".join(str(y) for _, y in pts)))
            model = [int(v) * inst["per"] for v in f.get("dm", "").split(",") if v != ""]
            ctx.count(f"{ad.name}.distance-matrix-model-checks")
            real = inst.get("dm_real")
            if real is not None and not inst.get("dm_bad") and model != real:
                k = next(k for k in range(len(real)) if k >= len(model) or model[k] != real[k])
                ctx.disagreement(f"{ad.name}: model of get_distance_matrix differs",
                                 {"n": inst["n"], "entry": [k // inst["n"], k % inst["n"]], "real": real[k],
                                  "model": model[k] if k < len(model) else None})
        b = inst.get("dm_bad")
        if b:
            ctx.violation(f"{ad.name}:orig-distances-not-euclidean",
                          f"`orig_distances[{b['entry'][0]}][{b['entry'][1]}]` = {b['real']!r}, true distance {b['true']!r}: {b['what']} "
                          f"(n = {inst['n']}, kind {inst['kind']})",
                          {"n": inst["n"], "kind": inst["kind"], "shift": inst.get("shift"), "scale": inst.get("scale"), **b})


def first_done(d: List[int]) -> Optional[int]:
    return d.index(1) if 1 in d else None


def batch_kind(ad, insts) -> str:
    return "mixed-quota" if len({i["q"] for i in insts}) > 1 else "equal-quota"


def is_mixed_quota_padding(insts: List[dict], r: int, tr: "Trace") -> bool:
    """Exactly the trigger of the known mixed-quota findings: the batch holds different quotas, row r
    finished at its OWN quota, that quota is smaller than the largest one in the batch, and the loop ran
    until the largest quota was reached (so the extra selections of row r are the padding steps and
    nothing else).  Any other way of being stepped after finishing / over-selecting is reported fresh."""
    qs = [i["q"] for i in insts]
    fd = first_done(tr.done[r])
    return (len(set(qs)) > 1 and fd is not None and fd == insts[r]["q"] and insts[r]["q"] < max(qs)
            and len(tr.actions[r]) == max(qs) and not tr.empty)


def pick_mixed(ctx, ad) -> bool:
    return ad.per_row_quota and ctx.rng.random() < 0.35


# =================================================================================================
# C08: quota, distinct, allowed, finish exactly at the quota, bookkeeping
# =================================================================================================
def check_selection(ctx, ad: SelAdapter, quick=160, thorough=2500):
    total = ctx.budget(quick, thorough)
    n_rows = 0
    while n_rows < total:
        B = ctx.rng.choice([1, 2, 3, 4, 6])
        mixed = pick_mixed(ctx, ad) and B > 1
        insts = ad.gen_batch(ctx.rng, B, ctx.tier, mixed, unmasked_ok=True)
        env = ad.env_for(insts)
        tr = run_sel(ad, env, insts, chooser(ctx.rng))
        report_distance_matrix(ctx, ad, insts)
        replies = ask_many(ctx, [ad.line(insts[r], tr.actions[r]) for r in range(B)])
        bk = batch_kind(ad, insts)
        ctx.count(f"{ad.name}.batches.{bk}")
        probe_explained = [False] * B
        if isinstance(ad, DppAdapter):
            for r in range(B):
                probe_explained[r] = check_probe_offered(ctx, ad, insts[r], tr, r)
        for (r, t) in tr.empty:
            ctx.violation(f"{ad.name}:dead-end", "a row is offered no action while the batch is still running",
                          {"inst": insts[r], "actions": tr.actions[r], "step": t})
        for r in range(B):
            inst = insts[r]
            acts = tr.actions[r]
            f = compare_row(ctx, ad, inst, tr, r, replies[r], "C08", bookkeeping=True)
            ctx.case((ad.name, repr(inst), tuple(acts)), nontrivial=len(acts) > 1)
            ctx.count(f"{ad.name}.kind={inst['kind']}")
            ctx.count(f"{ad.name}.n={ad.n_actions(inst)}")
            ctx.count(f"{ad.name}.quota={'n' if inst['q'] == ad.n_actions(inst) else ('1' if inst['q'] == 1 else 'mid')}")
            if ad.name == "flp" and ad.n_actions(inst) > 25:
                ctx.count(f"{ad.name}.more than 25 locations")
            if "qshape" in inst:
                ctx.count(f"{ad.name}.quota-tensor={inst['qshape']}")
            if "d0" in inst:
                dmax = max(max(row) for row in inst["D"])
                ctx.count(f"{ad.name}.reset-filler " + ("below" if min(inst["d0"]) < dmax else "not below") + " the largest distance")
                if dmax > (inst["unit"] * 3) // 2:
                    ctx.count(f"{ad.name}.some distance > sqrt(2) (outside the unit box)")
            fd = first_done(tr.done[r])
            # (a) finishes exactly when the quota is reached
            if not tr.empty and fd != inst["q"]:
                ctx.violation(f"{ad.name}:finish-step", f"row finished after {fd} selections, quota is {inst['q']}",
                              {"inst": inst, "actions": acts, "done": tr.done[r]})
            # (b) exactly the quota of distinct allowed items
            padded = fd is not None and len(acts) > fd
            if padded:
                ctx.count(f"{ad.name}.rows-stepped-after-finish")
                known = is_mixed_quota_padding(insts, r, tr)
                ctx.violation(f"{ad.name}:mixed-quota:over-selection" if known else f"{ad.name}:over-selection",
                              f"row with quota {inst['q']} selected {len(acts)} items: it keeps selecting "
                              "(mask = not-chosen) while a batch-mate with a larger quota is still running" if known else
                              f"row with quota {inst['q']} was stepped after it finished and selected {len(acts)} items "
                              "(not explained by a larger quota in the batch)",
                              {"inst": inst, "actions": acts, "quotas_in_batch": [i["q"] for i in insts], "row": r,
                               "final_chosen": tr.obs[r][-1].get("chosen")})
                # the selection up to the row's own finish must still be a feasible one
                own = ctx.driver.ask(ad.line(inst, acts[:fd]))
                if parse_fields(own).get("feas") != "1":
                    ctx.violation(f"{ad.name}:infeasible-episode", "selection up to the row's own finish is infeasible (Lean Spec)",
                                  {"inst": inst, "actions": acts[:fd]})
            elif f.get("feas") != "1" and not tr.empty and probe_explained[r] and \
                    parse_fields(ctx.driver.ask(ad.line(dict(inst, probe=[]), acts))).get("feas") == "1":
                # single-port DPP on a not pre-masked instance: the only defect of this episode is a decap on the
                # offered probing port, already reported under the known key by `check_probe_offered`
                ctx.count(f"{ad.name}.episodes-with-decap-on-unmasked-probe")
            elif f.get("feas") != "1" and not tr.empty:
                ctx.violation(f"{ad.name}:infeasible-episode",
                              "mask-confined episode of the real env is not a feasible selection by the Lean Spec "
                              "(quota / distinct / allowed)", {"inst": inst, "actions": acts})
            # (c) bookkeeping shown to the policy = what follows from the selection so far (Spec, from the prefix)
            for key, skey in ad.spec_of.items():
                spec_states = f.get(skey, "").split(":")
                for t, o in enumerate(tr.obs[r]):
                    if t == 0 and key in ad.skip_spec_at_reset:
                        continue
                    if t < len(spec_states) and o[key] != spec_states[t]:
                        ctx.violation(f"{ad.name}:bookkeeping:{key}",
                                      f"`{key}` shown to the policy after {t} selections differs from the value that "
                                      "follows from the selection so far (Lean Spec)",
                                      {"inst": inst, "actions": acts[:t], "real": o[key], "spec": spec_states[t]})
                        break
            # the `keepout` feature shown to the policy = the cells the instance does not offer
            if "keepout" in tr.obs[r][0]:
                want = bits([not a for a in inst["avail"]])
                for t, o in enumerate(tr.obs[r]):
                    if o["keepout"] != want:
                        ctx.violation(f"{ad.name}:bookkeeping:keepout",
                                      "`keepout` shown to the policy is not the complement of the instance's available cells",
                                      {"inst": inst, "after_steps": t, "real": o["keepout"], "want": want})
                        break
            # chosen = set of the actions so far
            if "chosen" in tr.obs[r][0]:
                for t, o in enumerate(tr.obs[r]):
                    want = bits([j in acts[:t] for j in range(ad.n_actions(inst))])
                    if o["chosen"] != want:
                        ctx.violation(f"{ad.name}:bookkeeping:chosen", "`chosen` is not the set of the selections so far",
                                      {"inst": inst, "actions": acts[:t], "real": o["chosen"], "want": want})
                        break
            ctx.sample({"env": ad.name, "inst": {k: v for k, v in inst.items() if k not in ("D_f", "locs_f", "d0_f")},
                        "actions": acts, "finished_after": fd, "spec_feasible": f.get("feas")})
        n_rows += B
    if isinstance(ad, DppAdapter):
        check_dpp_generator_contract(ctx, ad)
        check_dpp_ctor(ctx, ad)


def check_probe_offered(ctx, ad: "DppAdapter", inst: dict, tr: Trace, r: int) -> bool:
    """A probing port must never be offered (C08).  Returns True iff an offer was seen and it is exactly the
    known finding: single-port DPPEnv, instance mask not pre-masked (it offers the port), nothing else."""
    for t, m in enumerate(tr.masks[r]):
        offered = [p for p in inst["probe"] if m[p] == "1"]
        if not offered:
            continue
        known = (not ad.multi) and all(inst["avail"][p] == 1 for p in offered)
        acts = tr.actions[r]
        ctx.violation(f"{ad.name}:probe-offered:not-premasked" if known else f"{ad.name}:probe-offered",
                      ("DPPEnv._reset copies the instance's action_mask and never clears td['probe']: on an instance whose "
                       "mask encodes the keep-out layout only, the probing port is offered" if known else
                       "a probing port is offered by the mask") + f" (after {t} placements)",
                      {"inst": inst, "actions_so_far": acts[:t], "mask": m, "probe": inst["probe"],
                       "decap_placed_on_probe": [a for a in acts if a in inst["probe"]]})
        return known
    return False


def check_dpp_generator_contract(ctx, ad: "DppAdapter"):
    """the bundled generator never offers a probing port (DPPEnv relies on it: its reset does not re-mask)"""
    for _ in range(ctx.budget(6, 60)):
        size = ctx.rng.choice([2, 3, 5, 10])
        N = size * size
        env = make_dpp_env(ad.multi, size, dict(max_decaps=1, num_keepout_min=1, num_keepout_max=max(2, N // 2)))
        torch.manual_seed(ctx.rng.randrange(1 << 30))
        td = env.generator(batch_size=[4])
        td0 = env.reset(td.clone())
        for r in range(4):
            pb = [j for j, b in enumerate(td["probe"][r].tolist()) if b] if ad.multi else [int(td["probe"][r, 0])]
            ctx.case((ad.name, "generator-contract", size, tuple(pb), bits(td["action_mask"][r].tolist())))
            if any(bool(td0["action_mask"][r, p]) for p in pb):
                ctx.violation(f"{ad.name}:probe-offered", "the reset mask offers a probing port",
                              {"size": size, "probe": pb, "mask": bits(td0["action_mask"][r].tolist())})
        ctx.count(f"{ad.name}.generator-contract-instances", 4)


def check_dpp_ctor(ctx, ad: "DppAdapter"):
    """the quota the constructed environment steps with vs the quota its generator was configured with"""
    from rl4co.envs.eda.dpp.generator import DPPGenerator

    dflt = inspect.signature(DPPGenerator.__init__).parameters["max_decaps"].default
    for given in [3, 7, dflt]:
        env = make_dpp_env(ad.multi, 10, dict(max_decaps=given))
        model = parse_fields(ctx.driver.ask(f"dpp.ctor {1 if ad.multi else 0} {dflt} {given}")).get("quota")
        ctx.case((ad.name, "ctor", given))
        ctx.count(f"{ad.name}.ctor-checks")
        if str(env.max_decaps) != model:
            ctx.disagreement(f"{ad.name}: constructor quota differs", {"given": given, "default": dflt,
                                                                      "real": env.max_decaps, "model": model})
        if env.max_decaps != env.generator.max_decaps:
            # witness episode on an instance of the env's own generator
            torch.manual_seed(ctx.rng.randrange(1 << 30))
            td = env.reset(env.generator(batch_size=[1]))
            steps = 0
            while not bool(td["done"].all()) and steps < 200:
                feas = [j for j, b in enumerate(td["action_mask"][0].tolist()) if b]
                if not feas:
                    break
                td.set("action", torch.tensor([ctx.rng.choice(feas)]))
                td = env.step(td)["next"]
                steps += 1
            ctx.violation(f"{ad.name}:ctor-quota-ignored",
                          f"{type(env).__name__}(generator_params=dict(max_decaps={given})) steps with max_decaps="
                          f"{env.max_decaps}: the episode places {steps} decaps, the configured quota is {given}",
                          {"given_max_decaps": given, "env_max_decaps": env.max_decaps,
                           "generator_max_decaps": env.generator.max_decaps, "decaps_placed": steps})


# =================================================================================================
# C02: no dead ends while the batch runs, done is stable, step bound = quota
# =================================================================================================
def check_termination(ctx, ad: SelAdapter, quick=160, thorough=2500):
    total = ctx.budget(quick, thorough)
    n_rows = 0
    while n_rows < total:
        B = ctx.rng.choice([1, 2, 3, 5, 8])
        mixed = ad.per_row_quota and B > 1 and ctx.rng.random() < 0.6  # rows of different remaining length
        insts = ad.gen_batch(ctx.rng, B, ctx.tier, mixed)
        env = ad.env_for(insts)
        try:
            tr = run_sel(ad, env, insts, chooser(ctx.rng))
            report_distance_matrix(ctx, ad, insts)
        except RuntimeError as e:
            ctx.violation(f"{ad.name}:no-termination", f"real env: {e}", {"insts": insts})
            n_rows += B
            continue
        replies = ask_many(ctx, [ad.line(insts[r], tr.actions[r]) for r in range(B)])
        ctx.count(f"{ad.name}.batches.{batch_kind(ad, insts)}")
        for (r, t) in tr.empty:
            ctx.violation(f"{ad.name}:dead-end", "a row is offered no action while the batch is still running",
                          {"inst": insts[r], "actions": tr.actions[r], "step": t, "row_done": tr.done[r][t]})
        for r in range(B):
            inst, d = insts[r], tr.done[r]
            f = compare_row(ctx, ad, inst, tr, r, replies[r], "C02", bookkeeping=False)
            ctx.case((ad.name, repr(inst), tuple(tr.actions[r])))
            ctx.count(f"{ad.name}.n={ad.n_actions(inst)}")
            if any(d[k] == 1 and d[k + 1] == 0 for k in range(len(d) - 1)):
                ctx.violation(f"{ad.name}:done-unstable", "a finished row became unfinished again",
                              {"inst": inst, "actions": tr.actions[r], "done": d})
            fd = first_done(d)
            if tr.empty:
                continue
            if fd is None:
                ctx.violation(f"{ad.name}:not-finished", "row not finished at the end of the batch episode",
                              {"inst": inst, "actions": tr.actions[r]})
            elif fd > inst["q"]:
                ctx.violation(f"{ad.name}:step-bound", f"row needed {fd} steps, bound (quota) is {inst['q']}",
                              {"inst": inst, "actions": tr.actions[r]})
            if "bound" in f and int(f["bound"]) != inst["q"]:
                ctx.disagreement(f"{ad.name}: bound differs", {"model": f["bound"], "harness": inst["q"]})
            if fd is not None and fd < len(d) - 1:
                ctx.count(f"{ad.name}.rows-stepped-after-finish")
            if isinstance(ad, DppAdapter) and int(f.get("nallowed", "-1")) == inst["q"]:
                ctx.count(f"{ad.name}.allowed=quota (mask empties exactly at done)")
        ctx.sample({"env": ad.name, "B": B, "steps": tr.steps, "quotas": [i["q"] for i in insts],
                    "first_done": [first_done(d) for d in tr.done]})
        n_rows += B


# =================================================================================================
# C03: reward = objective recomputed from the instance and the executed selection
# =================================================================================================
def check_reward(ctx, ad: SelAdapter, quick=160, thorough=2500):
    total = ctx.budget(quick, thorough)
    n_rows = 0
    while n_rows < total:
        B = ctx.rng.choice([1, 2, 4])
        mixed = pick_mixed(ctx, ad) and B > 1
        insts = ad.gen_batch(ctx.rng, B, ctx.tier, mixed)
        env = ad.env_for(insts)
        tr = run_sel(ad, env, insts, chooser(ctx.rng))
        report_distance_matrix(ctx, ad, insts)
        acts = torch.tensor(tr.actions, dtype=torch.long)
        try:
            real = ad.reward_ticks(env, tr.td, acts, insts)
        except ValueError as e:
            ctx.note(f"{ad.name}: reward not representable ({e}); batch skipped")
            ctx.count("inexact-skipped")
            n_rows += B
            continue
        lines = [ad.line(insts[r], tr.actions[r]) for r in range(B)]
        replies = ask_many(ctx, lines)
        ctx.count(f"{ad.name}.batches.{batch_kind(ad, insts)}")
        for r in range(B):
            inst = insts[r]
            f = parse_fields(replies[r])
            if "reward" not in f:
                ctx.disagreement(f"{ad.name}: driver error", {"reply": replies[r]})
                continue
            tol = ad.reward_tol(inst, real[r])
            ctx.case((ad.name, repr(inst), tuple(tr.actions[r])), nontrivial=real[r] != 0)
            ctx.count(f"{ad.name}.kind={inst['kind']}")
            ctx.count(f"{ad.name}.n={ad.n_actions(inst)}")
            if abs(int(f["reward"]) - real[r]) > tol:
                ctx.disagreement(f"{ad.name}: reward differs",
                                 {"inst": inst, "actions": tr.actions[r], "real": real[r], "model": f["reward"], "tol": tol})
            if abs(ad.reward_sign * int(f["obj"]) - real[r]) > tol:
                ctx.violation(f"{ad.name}:reward-ne-objective",
                              "reward of the real env differs from the Spec objective of the executed selection",
                              {"inst": inst, "actions": tr.actions[r], "real_reward_ticks": real[r],
                               "spec_objective_ticks": int(f["obj"]), "unit": inst["unit"], "lean_line": lines[r][:2000]})
            ctx.sample({"env": ad.name, "actions": tr.actions[r], "reward_ticks": real[r], "unit": inst["unit"],
                        "spec_obj": f.get("obj"), "kind": inst["kind"]})
        n_rows += B


# =================================================================================================
# C04: independence of batch-mates, positions, copies, and of steps after the row's own finish
# =================================================================================================
def check_batch_independence(ctx, ad: SelAdapter, quick=40, thorough=500):
    total = ctx.budget(quick, thorough)
    for g in range(total):
        B = ctx.rng.choice([2, 3, 5, 8])
        mixed = ad.per_row_quota and ctx.rng.random() < 0.4
        insts = ad.gen_batch(ctx.rng, B, ctx.tier, mixed)
        if ctx.rng.random() < 0.4:  # a copy of row 0 among the batch-mates
            insts[ctx.rng.randrange(1, B)] = dict(insts[0])
        env = ad.env_for(insts)
        tr = run_sel(ad, env, insts, chooser(ctx.rng))
        report_distance_matrix(ctx, ad, insts)
        if tr.empty:
            ctx.violation(f"{ad.name}:dead-end", "a row is offered no action while the batch is still running",
                          {"inst": insts[tr.empty[0][0]], "step": tr.empty[0][1]})
            continue
        bk = batch_kind(ad, insts)
        ctx.count(f"{ad.name}.batches.{bk}")
        rew_b = None
        if ad.has_reward:
            try:
                rew_b = ad.reward_ticks(env, tr.td, torch.tensor(tr.actions, dtype=torch.long), insts)
            except ValueError:
                rew_b = None
        # batched rows vs the per-instance model
        replies = ask_many(ctx, [ad.line(insts[r], tr.actions[r]) for r in range(B)])
        for r in range(B):
            compare_row(ctx, ad, insts[r], tr, r, replies[r], "C04 batched row vs solo model", bookkeeping=True)
        # the same rows in another order, same actions: every observable of a row must be unchanged
        perm = list(range(B))
        ctx.rng.shuffle(perm)
        tr_p = run_sel(ad, env, [insts[p] for p in perm], chooser(ctx.rng), forced=[tr.actions[p] for p in perm])
        for k, p in enumerate(perm):
            if (tr_p.masks[k], tr_p.done[k], tr_p.obs[k], tr_p.actions[k]) != (tr.masks[p], tr.done[p], tr.obs[p], tr.actions[p]):
                ctx.violation(f"{ad.name}:batch-dependence:position", "a row's trajectory changes with its position in the batch",
                              {"inst": insts[p], "actions": tr.actions[p], "position_a": p, "position_b": k})
        # real solo re-run with the same selections, stopping when the row itself finishes
        rows = list(range(B)) if ctx.tier == "thorough" else ctx.rng.sample(range(B), min(B, 3))
        for r in rows:
            inst, d = insts[r], tr.done[r]
            fin = first_done(d)
            if fin is None:
                continue
            solo_actions = tr.actions[r][:fin]
            tr1 = run_sel(ad, env, [inst], chooser(ctx.rng), forced=[solo_actions])
            padded = fin < len(tr.actions[r])
            ctx.case((ad.name, repr(inst), tuple(tr.actions[r]), B, r), nontrivial=True)
            ctx.count(f"{ad.name}.B={B}")
            if padded:
                ctx.count(f"{ad.name}.rows-stepped-after-finish")
            if tr1.actions[0] != solo_actions:
                ctx.violation(f"{ad.name}:batch-dependence:finish-step",
                              "solo run does not finish at the same step as inside the batch",
                              {"inst": inst, "batched_actions": tr.actions[r], "solo_actions": tr1.actions[0], "row": r})
                continue
            if tr1.masks[0] != tr.masks[r][: fin + 1] or tr1.obs[0] != tr.obs[r][: fin + 1]:
                ctx.violation(f"{ad.name}:batch-dependence:mask", "masks / bookkeeping differ between solo and batched run",
                              {"inst": inst, "actions": solo_actions, "solo": tr1.masks[0], "batched": tr.masks[r][: fin + 1], "row": r})
            if rew_b is not None:
                try:
                    rew_s = ad.reward_ticks(env, tr1.td, torch.tensor(tr1.actions, dtype=torch.long), [inst])[0]
                except ValueError:
                    continue
                if abs(rew_s - rew_b[r]) > ad.reward_tol(inst, rew_s):
                    # known only if it is exactly the mixed-quota padding AND the batched reward is what the
                    # per-instance model computes for everything the row selected (nothing else leaked in)
                    fr = parse_fields(replies[r])
                    explained = "reward" in fr and abs(int(fr["reward"]) - rew_b[r]) <= ad.reward_tol(inst, rew_b[r])
                    key = (f"{ad.name}:mixed-quota:reward-depends-on-batch"
                           if (padded and is_mixed_quota_padding(insts, r, tr) and explained)
                           else f"{ad.name}:batch-dependence:reward")
                    ctx.violation(key, "reward of the same instance and the same selections differs between the solo run and "
                                       "the batched run (the row keeps selecting after its own quota while a batch-mate runs)"
                                  if padded else "reward differs between the solo run and the batched run",
                                  {"inst": inst, "batched_actions": tr.actions[r], "solo_actions": solo_actions,
                                   "solo_reward_ticks": rew_s, "batched_reward_ticks": rew_b[r], "unit": inst["unit"],
                                   "quotas_in_batch": [i["q"] for i in insts], "row": r})
        ctx.sample({"env": ad.name, "B": B, "kind": bk, "steps": tr.steps, "quotas": [i["q"] for i in insts]})
        if ad.name == "flp":
            check_flp_view(ctx)


def check_flp_view(ctx):
    """the batch-wide `chosen.nonzero(as_tuple=True)[1].view(B, -1)` of `FLPEnv._step` vs `Flp.flatIdx` / `viewRow`,
    on arbitrary boolean matrices (equal AND unequal numbers of chosen entries per row, total divisible by B)"""
    Bv = ctx.rng.choice([1, 2, 3, 4])
    n = ctx.rng.choice([2, 3, 5])
    for _ in range(20):
        ch = [[ctx.rng.random() < 0.5 for _ in range(n)] for _ in range(Bv)]
        tot = sum(sum(r) for r in ch)
        if tot % Bv == 0 and tot > 0:
            break
    else:
        return
    real = torch.tensor(ch).nonzero(as_tuple=True)[1].view(Bv, -1).tolist()
    flat = " ".join("1" if b else "0" for r in ch for b in r)
    f = parse_fields(ctx.driver.ask(f"flp.view {Bv} {n} | {flat}"))
    model = [[int(x) for x in row.split(",") if x != ""] for row in f.get("rows", "").split(":")]
    ctx.case(("flp", "view", Bv, n, flat))
    ctx.count("flp.view-checks." + ("equal-counts" if len({sum(r) for r in ch}) == 1 else "unequal-counts"))
    if model != real:
        ctx.disagreement("flp: model of nonzero().view(B,-1) differs from torch", {"chosen": ch, "real": real, "model": model})


# =================================================================================================
# C05: tiny instances — every ordered k-subset is reachable; best reward = brute force
# =================================================================================================
def check_completeness(ctx, ad: SelAdapter, quick=16, thorough=150):
    total = ctx.budget(quick, thorough)
    for g in range(total):
        inst = ad.gen_batch(ctx.rng, 1, ctx.tier, False, tiny=True)[0]
        n = ad.n_actions(inst)
        qmax = 3 if ctx.tier == "quick" else 4
        if inst["q"] > qmax:
            if isinstance(ad, DppAdapter):
                continue
            inst["q"] = ctx.rng.randint(1, min(qmax, n))
        q = inst["q"]
        env = ad.env_for([inst])
        # (1) brute force by the Lean Spec over ALL action lists of length q (feasible or not)
        cands = [list(c) for c in itertools.product(range(n), repeat=q)]
        if len(cands) > 4096:
            continue
        replies = ask_many(ctx, [ad.line(inst, c) for c in cands])
        spec_feas, spec_obj = set(), {}
        for c, rep in zip(cands, replies):
            f = parse_fields(rep)
            if f.get("feas") == "1":
                spec_feas.add(tuple(c))
                if "obj" in f:
                    spec_obj[tuple(c)] = int(f["obj"])
        # (2) breadth-first expansion of the REAL mask, rows stop when they are done
        frontier = [()]
        complete = set()
        while frontier:
            # replay all prefixes of this level as one batch (rows share instance and quota, so they finish
            # together and no finished row is stepped)
            B = len(frontier)
            td = env.reset(ad.to_td(env, [inst] * B))
            for t in range(len(frontier[0])):
                td.set("action", torch.tensor([p[t] for p in frontier], dtype=torch.long))
                td = env.step(td)["next"]
            dn = ad.row_done(td, B)
            rows = [(frontier[k], td["action_mask"][k].tolist(), dn[k]) for k in range(B)]
            nxt = []
            for (p, m, dn) in rows:
                if dn:
                    complete.add(p)
                    continue
                offered = [j for j, b in enumerate(m) if b]
                if not offered:
                    ctx.violation(f"{ad.name}:dead-end", "unfinished state with an empty mask",
                                  {"inst": inst, "actions": list(p)})
                for j in offered:
                    nxt.append(p + (j,))
            frontier = nxt
            if frontier and len(frontier[0]) > q + 2:
                ctx.violation(f"{ad.name}:step-bound", "mask-confined episode longer than the quota", {"inst": inst})
                break
        ctx.count(f"{ad.name}.tiny.n={n},q={q}")
        ctx.count(f"{ad.name}.tiny.feasible-solutions", len(spec_feas))
        for c in spec_feas:
            ctx.case((ad.name, repr(inst), c))
        hidden = spec_feas - complete
        extra = complete - spec_feas
        if hidden:
            c = sorted(hidden)[0]
            ctx.violation(f"{ad.name}:mask-hides-feasible",
                          f"{len(hidden)} feasible ordered selections (Lean Spec) are not reachable through the real mask",
                          {"inst": inst, "solution": list(c)})
        if extra:
            c = sorted(extra)[0]
            ctx.violation(f"{ad.name}:infeasible-episode",
                          f"{len(extra)} complete mask-confined episodes are infeasible by the Lean Spec",
                          {"inst": inst, "actions": list(c)})
        # model admits exactly the same
        adm = {tuple(c) for c, rep in zip(cands, replies)
               if parse_fields(rep).get("adm") == "1" and parse_fields(rep).get("done", "0")[-1:] == "1"}
        if adm != complete:
            ctx.disagreement(f"{ad.name}: set of complete mask-confined episodes differs",
                             {"inst": inst, "only_model": sorted(adm - complete)[:3], "only_real": sorted(complete - adm)[:3]})
        # (3) best reward through the mask = brute-force optimum
        if ad.has_reward and complete and spec_feas:
            comp = sorted(complete)
            B = len(comp)
            td = env.reset(ad.to_td(env, [inst] * B))
            for t in range(q):
                td.set("action", torch.tensor([p[t] for p in comp], dtype=torch.long))
                td = env.step(td)["next"]
            try:
                rew = ad.reward_ticks(env, td, torch.tensor(comp, dtype=torch.long), [inst] * B)
            except ValueError:
                ctx.count("inexact-skipped")
                continue
            best_real = max(rew)
            best_spec = max(ad.reward_sign * v for v in spec_obj.values())
            fo = parse_fields(ctx.driver.ask(f"{ad.fam}.opt " + ad.line(inst, []).split(" ", 1)[1]))
            if "opt" not in fo or int(fo["opt"]) != best_spec or int(fo.get("nfeas", -1)) != len(spec_feas):
                ctx.disagreement(f"{ad.name}: Lean `Spec.optimum` / candidate enumeration differs from the harness' enumeration",
                                 {"inst": inst, "lean": fo, "harness_best": best_spec, "harness_nfeas": len(spec_feas)})
            else:
                best_spec = int(fo["opt"])
                ctx.count(f"{ad.name}.tiny.optimum-by-Lean-brute-force")
            tol = ad.reward_tol(inst, max(abs(v) for v in rew))
            if abs(best_real - best_spec) > tol:
                ctx.violation(f"{ad.name}:optimum-differs",
                              "best reward reachable through the mask differs from the brute-force optimum (Lean Spec)",
                              {"inst": inst, "best_real_ticks": best_real, "best_spec_ticks": best_spec})
            for p, rv in zip(comp, rew):
                if p in spec_obj and abs(ad.reward_sign * spec_obj[p] - rv) > tol:
                    ctx.violation(f"{ad.name}:reward-ne-objective", "reward differs from the Spec objective",
                                  {"inst": inst, "actions": list(p), "real": rv, "spec": spec_obj[p]})
                    break
            ctx.sample({"env": ad.name, "n": n, "q": q, "n_feasible": len(spec_feas), "n_reachable": len(complete),
                        "best_reward_ticks": best_real, "brute_force_ticks": best_spec, "unit": inst["unit"]})
        else:
            ctx.sample({"env": ad.name, "n": n, "q": q, "n_feasible": len(spec_feas), "n_reachable": len(complete)})


# =================================================================================================
# registration
# =================================================================================================
NOTE = {
    "flp": "FLPEnv modelled per instance over integer ticks (Rl4co/Env/Flp.lean); coordinates→distance arithmetic and "
           "float32 rounding of the summed reward are outside the model (exact-stream instances make them exact; "
           "generator instances are passed as exact dyadics and the summed reward is compared within n ulp); instances "
           "include scaled / shifted integral point sets, matrices up to 1024, generator boxes [-2,3], [10,12], [0,.25], "
           "normal locations, reset fillers sqrt2 / 0 / tiny / huge / negative / per-location, `to_choose` of shape [B] and [B,1]",
    "mcp": "MCPEnv modelled per instance (Rl4co/Env/Mcp.lean) with integer weights and integer item ids; the float "
           "encoding of ids and the scatter-add into an (n_items+1)-wide buffer are glue validated by the correspondence; "
           "instances include empty / singleton / all-item sets, weights 0, 2^19, quarters, generator weight ranges 5..5, "
           "100..1000, 0..1, quota tensors float [B,1] and long [B]",
    "dpp": "DPPEnv/MDPPEnv `_reset`, `_step` and masks modelled per instance (Rl4co/Env/Dpp.lean); the environments are "
           "constructed with `_load_dpp_data` stubbed (no download); the impedance simulator / reward is not modelled; "
           "instances: bundled generators, hand-built layouts (tight / loose / no keep-out), pre-masked and NOT pre-masked "
           "(action_mask = complement of the keep-out cells only, ports in `probe` alone; for single-port DPP only in C08)",
}
NOTE["mdpp"] = NOTE["dpp"]
NO_THM = "no theorem yet: correspondence + spec oracle only"

ADS = {"flp": FLP, "mcp": MCP, "dpp": DPP, "mdpp": MDPP}
MODS = {"flp": "Flp", "mcp": "Mcp", "dpp": "Dpp", "mdpp": "Dpp"}

def _thms(ns: str, prop: str) -> List[Theorem]:
    """theorem lists per (property, Lean namespace); `ns` is Flp / Mcp / Dpp"""
    P = f"Rl4co.{ns}."
    sel = ns in ("Flp", "Mcp")
    what = {"Flp": "locations", "Mcp": "sets", "Dpp": "cells"}[ns]
    if prop == "C08":
        if sel:
            t = [Theorem(P + "quota_partial", "partial",
                         f"episode stepped only while unfinished (solo / equal quotas): exactly `quota` distinct {what} in range"),
                 Theorem(P + "quota_counterexample", "proved",
                         "¬ quota_statement: over all runs the batched loop can produce (row stepped after its own done next to "
                         "a larger quota) the number of selections exceeds the quota — known finding"),
                 Theorem(P + "done_iff_quota", "proved", "along any mask-confined run: done ⇔ at least `quota` selections"),
                 Theorem(P + "chosen_eq_history", "proved", "`chosen` = set of the selections so far, mask = its complement"),
                 Theorem(P + "feasible_of_run", "proved", "complete episode (stepped only while unfinished) is Spec-feasible")]
            if ns == "Flp":
                t.append(Theorem(P + "distances_eq", "proved",
                                 "`distances[j]` = min over the facilities selected so far of D c j (Spec.nearest), any non-empty run"))
            else:
                t += [Theorem(P + "weights_eq", "proved", "`weights[x]` = 0 if x is covered by a selected set else its weight (0-padding, 1-based ids)"),
                      Theorem(P + "membership_eq", "proved", "`membership` = original rows with the rows of selected sets zeroed")]
            return t
        return [Theorem(P + "quota", "partial", "complete episode: exactly `max_decaps` distinct cells, each offered by the instance, none a probing "
                                                "port — for MDPP, and for DPP on instances whose mask excludes the port (ProbeMasked)"),
                Theorem(P + "mdpp_quota", "proved", "MDPP: the same with no hypothesis on the instance mask"),
                Theorem(P + "dpp_probe_free_counterexample", "proved",
                        "¬ (single-port DPP never uses the probing port on ANY instance mask): DPPEnv._reset does not clear it — known finding"),
                Theorem(P + "done_iff_quota", "proved", "done ⇔ at least `max_decaps` placements"),
                Theorem(P + "feasible_of_run", "proved", "complete episode is Spec-feasible"),
                Theorem(P + "mask_eq_history", "proved", "mask = reset mask minus the cells used so far"),
                Theorem(P + "mdpp_probe_never_offered", "proved", "MDPP never offers a probing port, whatever the instance mask"),
                Theorem(P + "mdpp_ctor_quota", "proved",
                        "MDPPEnv steps with its generator's max_decaps, whatever the parent's default generator says (fixed in 5c8314b)"),
                Theorem(P + "dpp_ctor_quota", "proved", "DPPEnv steps with its generator's max_decaps")]
    if prop == "C02":
        t = [Theorem(P + "mask_nonempty", "proved", "fewer selections than offered items ⇒ the mask is non-empty (any run, finished or not)"),
             Theorem(P + "done_stable", "proved", "done is absorbing along every mask-confined run"),
             Theorem(P + "steps_le", "proved", "an episode stepped only while unfinished has at most `quota` steps"),
             Theorem(P + "progress", "proved", "an unfinished reachable state of a well-formed instance offers an action")]
        if sel:
            t.insert(1, Theorem(P + "mask_nonempty_while_batch_runs", "proved",
                                "while some batch-mate (any quota ≤ n) is unfinished, every row — finished or not — is offered an action"))
        else:
            t.append(Theorem(P + "run_length", "proved", "equal-length family: done ⇔ length = max_decaps"))
        return t
    if prop == "C03":
        return [Theorem(P + "reward_eq_objective", "proved",
                        "reward = ∓ Spec objective of the executed selection, for every mask-confined run (padded or not)")]
    if prop == "C04":
        if sel:
            return [Theorem(P + "pad_noop_counterexample", "proved",
                            "¬ pad_noop_statement: a step after the row's own done changes its reward — known finding"),
                    Theorem(P + "no_padding_of_equal_quota", "partial",
                            "rows with equal quotas are finished at the same step: no padding with the bundled generator"),
                    Theorem(P + "padded_only_if_larger_quota", "proved", "a row is stepped after done only next to a strictly larger quota"),
                    Theorem(P + "pad_effect", "proved",
                            "a padding step selects one more distinct item, keeps done, reward = objective of everything selected")]
        return [Theorem(P + "done_lockstep", "proved", "rows of one batch (same max_decaps) finish at the same step: padding never happens"),
                Theorem(P + "outcome_row_local", "proved", "mask and done of a row are functions of its own instance and selections")]
    if prop == "C05":
        t = [Theorem(P + "run_of_feasible", "proved", "every list of `quota` distinct allowed items, in every order, is a complete mask-confined episode"),
             Theorem(P + "complete_iff_feasible", "proved", "complete episodes = Spec-feasible selections")]
        if sel:
            t.append(Theorem(P + "opt_reachable", "proved", "set of reachable rewards = {∓objective as | Feasible as}: the optimum is reachable"))
        return t
    return []


THEOREMS: Dict[tuple, List[Theorem]] = {(prop, name): _thms(MODS[name], prop)
                                        for prop in ("C02", "C03", "C04", "C05", "C08") for name in MODS}


def _register():
    import os
    from common import LEAN_DIR

    def extra(prop, name):
        """further Lean modules of a unit and their theorems (growth round)"""
        ns = MODS[name]
        P = f"Rl4co.{ns}."
        mods, th = [], []
        sel = ns in ("Flp", "Mcp")
        if prop in ("C04", "C08") and sel:
            mods.append("Rl4co.Props.C04.SelectBatch")
            if prop == "C04":
                th += [Theorem("Rl4co.Bat.Loop.rows", "proved", "every row of the decoding loop is a mask-confined run of its own environment, all of one length"),
                       Theorem("Rl4co.Sel.loop_length", "proved", "the loop from reset runs exactly to the largest quota of the batch"),
                       Theorem(P + "batch_equal_quota", "proved", "∀ batch of equal quotas q, ∀ row: q steps, Spec-feasible selection, reward = ∓objective of it")]
                th.append(Theorem(P + ("batchStep_eq_map" if ns == "Flp" else "batchDone_eq_row"), "proved",
                                  "FLP: the batched `_step` with `nonzero().view(B,-1)` = row-wise map of the per-instance step on lock-step rows"
                                  if ns == "Flp" else
                                  "MCP: every entry of row r of the [B,B] `done` matrix = the per-instance done of row r on lock-step rows"))
                if ns == "Mcp":
                    th.append(Theorem(P + "batchAllDone_eq", "proved", "`.all()` over the [B,B] matrix = `.all()` over the per-row flags"))
            else:
                th += [Theorem(P + "batch_quota_counterexample", "proved",
                               "¬ batch_quota_statement: in the model of the real loop a row next to a larger quota selects more than its quota — known finding"),
                       Theorem(P + "batch_equal_quota", "partial", "the batch statement for equal quotas (all the bundled generator emits)")]
        if prop == "C03" and sel:
            mods.append("Rl4co.Props.C03.SelectSpec")
            if ns == "Flp":
                th += [Theorem(P + "distOf_sq", "proved", "model of get_distance_matrix: on an integral pair the entry is the exact Euclidean distance"),
                       Theorem(P + "distOf_self", "proved", "… zero diagonal"),
                       Theorem(P + "distOf_symm", "proved", "… symmetric"),
                       Theorem(P + "distOf_translate", "proved", "… unchanged when the point set is shifted (boxes away from the origin)"),
                       Theorem(P + "geom_reward", "proved", "C03 for instances given by coordinates: reward = −Σ_j min_c Euclid(c, j)"),
                       Theorem(P + "objective_translate", "proved", "Spec sanity: the objective is translation invariant"),
                       Theorem(P + "objective_mono", "proved", "Spec sanity: one more facility never increases the objective"),
                       Theorem(P + "objective_nonneg", "proved", "Spec sanity: non-negative for non-negative distances"),
                       Theorem(P + "objective_all_zero", "proved", "Spec sanity: opening every location costs 0 (zero diagonal)"),
                       Theorem(P + "feasible_exists", "proved", "Spec sanity: every WF instance has a feasible selection")]
            else:
                th += [Theorem(P + "objective_mono", "proved", "Spec sanity: with weights ≥ 0 one more set never decreases the covered weight"),
                       Theorem(P + "objective_le_total", "proved", "Spec sanity: covered weight ≤ total weight"),
                       Theorem(P + "objective_nil", "proved", "Spec sanity: nothing chosen, nothing covered"),
                       Theorem(P + "objective_perm", "proved", "Spec sanity: depends only on the set of chosen sets"),
                       Theorem(P + "feasible_exists", "proved", "Spec sanity: every WF instance has a feasible selection")]
            th.append(Theorem(P + "batch_row_outcome", "proved",
                              "∀ batch (any quotas) ∀ row: T distinct selections, reward = ∓objective of ALL of them (what a padded row ends with)"))
        if prop == "C08" and ns == "Flp":
            mods.append("Rl4co.Props.C03.SelectSpec")
            th.append(Theorem(P + "geom_distances", "proved", "bookkeeping for coordinate instances: distances[j] = min_c Euclid(c, j), and 0 at every chosen facility"))
        if prop == "C05" and not sel:
            mods.append("Rl4co.Props.C03.SelectSpec")
            th.append(Theorem(P + "feasible_exists_iff", "proved", "Spec sanity: a feasible placement exists ⇔ quota ≤ #cells offered and not a port"))
        if prop == "C05" and sel:
            mods += ["Rl4co.Props.C05.SelectOpt", "Rl4co.Props.C12.SelectStarts"]
            th += [Theorem(P + "best_reward_eq_optimum", "proved", "an episode attains Spec.optimum (brute force over all feasible selections) and none exceeds it"),
                   Theorem(P + "optimum_spec", "proved", "Spec.optimum is the value of a feasible selection and bounds all of them"),
                   Theorem(P + "forced_starts_ok", "proved", "multi-start: forced starts 0..k-1 (k ≤ n) are distinct, offered, and each completes to a feasible episode")]
        if prop == "C02":
            mods.append("Rl4co.Props.C02.SelectGen")
            if sel:
                th += [Theorem(P + "gen_wf", "proved", "generator post-condition (1 ≤ quota ≤ n) ⇒ WF"),
                       Theorem(P + "gen_defaults_wf", "proved", "the generator's extracted defaults give WF instances"),
                       Theorem(P + "solvable", "proved", "WF ⇒ no dead end ∧ a complete episode attaining the optimum exists")]
                if ns == "Mcp":
                    th.append(Theorem(P + "gen_ids_in_range", "proved", "generated membership entries are 0 or ids ≤ num_items (via Gen.mcp_gen_total)"))
            else:
                th += [Theorem(P + "no_dead_end_iff", "proved", "EXACT WF: dead-end free ⇔ max_decaps ≤ number of allowed cells"),
                       Theorem(P + ("gen_wf_mdpp" if name == "mdpp" else "gen_wf"), "proved", "generator post-condition ⇒ WF (incl. ProbeMasked for DPP)"),
                       Theorem(P + "gen_defaults_wf", "proved", "extracted generator defaults leave room for max_decaps on the 10×10 grid"),
                       Theorem(P + "solvable", "proved", "WF ⇒ no dead end ∧ a complete feasible placement exists")]
        if prop == "C05" and not sel:
            mods.append("Rl4co.Props.C12.SelectStarts")
            th += [Theorem(P + "forced_start_not_offered", "proved", "multi-start on DPP/MDPP (generic rule 1..k): a keep-out / probe cell among 1..k is forced although not offered"),
                   Theorem(P + "default_start_out_of_range", "proved", "with the default number of starts the cell index n (out of range) is forced")]
        return mods, th

    routines = {"C08": check_selection, "C02": check_termination, "C03": check_reward,
                "C04": check_batch_independence, "C05": check_completeness}
    for prop, fn in routines.items():
        for name, ad in ADS.items():
            if prop == "C03" and not ad.has_reward:
                continue
            mod = f"Rl4co.Props.{prop}.{MODS[name]}"
            have = os.path.exists(os.path.join(LEAN_DIR, *mod.split(".")) + ".lean")
            thms = THEOREMS.get((prop, name), []) if have else []
            xm, xt = extra(prop, name)
            xm = [m for m in xm if os.path.exists(os.path.join(LEAN_DIR, *m.split(".")) + ".lean")] if have else []
            thms = thms + (xt if have and xm else [])
            register(Unit(prop, name, (lambda ctx, fn=fn, ad=ad: fn(ctx, ad)),
                          drivers=[f"drv_{ad.fam}"],
                          lean_modules=([mod] + xm) if have else [],
                          theorems=thms,
                          assumptions=[NOTE[name]] + ([] if thms else [NO_THM])))


_register()
