"""C10 — logit processing and action selection (`rl4co/utils/decoding.py`).

Real `process_logits`, `DecodingStrategy.greedy/.sampling`, `Greedy/Sampling(...).step` versus the Lean
model `Rl4co.Decode` (instantiated with rationals and the weight `2^y`) and the spec `Rl4co.Spec.Decode`.

* the real code gets logits `y·ln 2` (clipping off) or `atanh(y·T·ln 2 / C)` (clipping on), `y` integer,
  so that after clipping and temperature the logit is `m·ln 2` with `m` an integer and `exp` of it is
  `2^m`; the model gets the integers;
* what torch's `topk` / `sort` / `argmax` / `multinomial` returned is recorded (module proxy) and handed
  to the model as oracle input; the model checks that it is *valid* (a k-th largest index, an ascending
  sorting permutation, a maximiser, an index of positive probability);
* compared: support (which log-probs are `-inf`) exactly, probabilities to 1e-5, results of greedy /
  sampling / the resampling loop exactly.  A top-p comparison `cum <= 1 - p` whose exact margin is below
  5e-5 is decided by float32 rounding: such rows are counted as `tie-skipped` (except the float-exact
  uniform rows);
* independently the spec predicates are evaluated by the Lean driver on the outcomes of the real code.
"""
from __future__ import annotations

import itertools
import math
from fractions import Fraction
from typing import List, Optional

import rl
from common import Theorem, Unit, register
from leanio import parse_fields
from rl import TensorDict, torch

LN2 = math.log(2.0)
TEMPS = [(1, 4), (1, 2), (1, 1), (2, 1), (4, 1)]
PS = [(0, 1), (1, 10), (1, 2), (9, 10), (1, 1)]
CLIPS = [0, 10]
ONE = 1 << 30
TOL = 1e-5
TOL_TICKS = int(round(TOL * ONE))
MARGIN = 5e-5
KEY_SHIFT_CLIP = "shift-invariance-with-tanh-clipping"
KEY_OVERFLOW = "overflow:logits-over-temperature-not-representable"


def _dec():
    import rl4co.utils.decoding as dec

    return dec


# ---------------------------------------------------------------------------------------------------
# recording what torch returned inside the code under test
class _TorchProxy:
    def __init__(self, real, rec):
        self.__dict__["_real"] = real
        self.__dict__["_rec"] = rec

    def __getattr__(self, name):
        return getattr(self._real, name)

    def topk(self, *a, **k):
        r = self._real.topk(*a, **k)
        self._rec.topk.append(r)
        return r

    def sort(self, *a, **k):
        r = self._real.sort(*a, **k)
        self._rec.sort.append((r, k.get("descending", False)))
        return r

    def multinomial(self, *a, **k):
        r = self._real.multinomial(*a, **k)
        self._rec.draws.append(r.reshape(-1).tolist())
        return r


class Recorder:
    """`with Recorder() as rec:` — inside, `decoding.torch` is a proxy recording topk/sort/multinomial."""

    def __enter__(self):
        self.topk, self.sort, self.draws = [], [], []
        dec = _dec()
        self._dec = dec
        self._old = dec.torch
        dec.torch = _TorchProxy(torch, self)
        orig = torch.Tensor.multinomial
        rec = self

        def multinomial(self_, *a, **k):
            r = orig(self_, *a, **k)
            rec.draws.append(r.reshape(-1).tolist())
            return r

        torch.Tensor.multinomial = multinomial
        return self

    def __exit__(self, *a):
        self._dec.torch = self._old
        try:
            del torch.Tensor.multinomial
        except Exception:
            pass


# ---------------------------------------------------------------------------------------------------
# inputs
def grid(T, C):
    """(step, bound) of the admissible post-temperature exponents m: m ∈ step·Z, |m| ≤ bound."""
    tn, td = T
    step = td if tn == 1 else 1  # T < 1: m must be a multiple of 1/T so that m·T is an integer
    if C == 0:
        bound = 60 * td // tn
    else:
        bound = int(0.99 * C * td / (tn * LN2))
    bound -= bound % step
    return step, bound


def gen_exponents(rng, n, T, C, kind):
    step, bound = grid(T, C)
    top = bound // step
    if kind == "ties":
        base = rng.randint(-min(top, 3), min(top, 3) - min(top, 2)) if top > 0 else 0
        return [step * (base + rng.randint(0, min(top, 2))) for _ in range(n)]
    if kind == "equal":
        v = step * rng.randint(-top, top)
        return [v] * n
    if kind == "extreme":
        return [step * rng.choice([-top, top, top, -top, 0, top - 1 if top > 0 else 0]) for _ in range(n)]
    if kind == "distinct":
        lo = rng.randint(-top, max(-top, top - n))
        vals = [step * min(top, lo + i) for i in range(n)]
        rng.shuffle(vals)
        return vals
    return [step * rng.randint(-top, top) for _ in range(n)]  # wide


KINDS = ["ties", "ties", "wide", "equal", "extreme", "distinct", "wide"]


def gen_mask(rng, n, kind):
    if kind == "single":
        j = rng.randrange(n)
        return [i == j for i in range(n)]
    if kind == "all":
        return [True] * n
    if kind == "allbut1":
        j = rng.randrange(n)
        return [i != j for i in range(n)] if n > 1 else [True]
    dens = rng.choice([0.2, 0.5, 0.8])
    m = [rng.random() < dens for _ in range(n)]
    if not any(m):
        m[rng.randrange(n)] = True
    return m


def real_logits(rows_m, T, C):
    tn, td = T
    if C == 0:
        vals = [[(m * tn // td) * LN2 for m in r] for r in rows_m]
    else:
        vals = [[math.atanh(m * tn * LN2 / (td * C)) for m in r] for r in rows_m]
    return torch.tensor(vals, dtype=torch.float64).to(torch.float32)


def model_line(ms, mask, T, k, p, C, kth, sigma, sel, ml=1):
    tn, td = T
    n = len(ms)
    if C == 0:
        xs = [m * tn // td for m in ms]
        cs: List[int] = []
    else:
        xs = list(ms)
        cs = [m * tn // td for m in ms]
    j = lambda l: " ".join(map(str, l))
    return (f"logits.process {n} {tn} {td} {k} {p[0]} {p[1]} {1 if C else 0} {ml} | {j(xs)} | {j([int(b) for b in mask])} | "
            f"{j(cs)} | {j(kth)} | {j(sigma)} | {j(sel)}")


def ticks(t):
    return [int(round(v * ONE)) for v in t.double().tolist()]


def spec_line(n, k, p, mask, score, kept, probs, q=None, p2=None, ga=None, sa=None, tol=TOL):
    j = lambda l: " ".join(map(str, l))
    pt = (p[0] * ONE) // p[1]
    return (f"logits.spec {n} {k} {pt} {int(round(tol * ONE))} {ONE} | {j([int(b) for b in mask])} | {j(score)} | "
            f"{j([int(b) for b in kept])} | {j(probs)} | {j(q) if q is not None else ''} | "
            f"{j(p2) if p2 is not None else ''} | {'' if ga is None else ga} | {'' if sa is None else sa}")


def frac_list(s):
    return [Fraction(t) for t in s.split(",")] if s else []


# ---------------------------------------------------------------------------------------------------
# ---- representations of option VALUES accepted by the clean tree (probed): python scalars, numpy scalars, 0-dim torch
# tensors.  (Rejected by the clean tree, hence not used: top_k as python float or bool — torch.topk raises TypeError.)
def _np():
    import numpy as np

    return np


INT_FORMS = {
    "int": int,
    "np.int64": lambda v: _np().int64(v),
    "np.int32": lambda v: _np().int32(v),
    "tensor.int64": lambda v: torch.tensor(int(v), dtype=torch.int64),
    "tensor.int32": lambda v: torch.tensor(int(v), dtype=torch.int32),
}
FLOAT_FORMS = {
    "float": float,
    "np.float64": lambda v: _np().float64(v),
    "np.float32": lambda v: _np().float32(v),          # used with dyadic values only (exactly representable)
    "tensor.float64": lambda v: torch.tensor(float(v), dtype=torch.float64),
    "tensor.float32": lambda v: torch.tensor(float(v), dtype=torch.float32),
}


def dyadic(v):
    return float(v) == float(torch.tensor(float(v), dtype=torch.float32))


def pick_forms(rng, temp, top_p, C):
    """a random representation for each option (float32 forms only for values exactly representable in float32)"""
    def ff(v):
        names = list(FLOAT_FORMS) if dyadic(v) else ["float", "np.float64", "tensor.float64"]
        return rng.choice(names)
    return {"top_k": rng.choice(list(INT_FORMS)), "temperature": ff(temp), "top_p": ff(top_p), "tanh_clipping": ff(C)}


def same_tensor(a, b):
    return a.shape == b.shape and torch.equal(torch.nan_to_num(a, nan=12345.0, neginf=-1e30), torch.nan_to_num(b, nan=12345.0, neginf=-1e30))


def near_threshold(qrow, top_p, margin=None):
    """Is some cumulative probability of the ascending-sorted row within MARGIN of `1 - top_p`?  (Then the
    float32 comparison `cum <= 1 - top_p` may go either way and the support is not determined.)"""
    if not (0 < top_p < 1):
        return False
    margin = MARGIN if margin is None else margin
    cum = 0.0
    for v in sorted(qrow):
        cum += v
        if abs(cum - (1 - top_p)) < margin:
            return True
    return False


def run_config(ctx, rows_m, masks, T, k, p, C, tag, compare_model=True, raw_logits=None, mask_logits=True,
               shifts=(3.0, -7.5, 100.0, 0.25), tol=TOL, forms=None):
    """One batched call of the real code for one configuration; rows = (exponents, mask).
    `mask_logits=False`: the real code is called with `mask=None, mask_logits=False` (the caller passes
    all-True masks, which is what that path must be equivalent to)."""
    dec = _dec()
    B, n = len(rows_m), len(rows_m[0])
    temp = T[0] / T[1]
    top_p = p[0] / p[1]
    logits = raw_logits if raw_logits is not None else real_logits(rows_m, T, C)
    mask = torch.tensor(masks, dtype=torch.bool)
    kw = dict(temperature=temp, top_k=k, tanh_clipping=float(C))
    if not mask_logits:
        assert bool(mask.all())
        kw["mask_logits"] = False
        mask = None
        ctx.count("configs with mask_logits=False (mask=None)")
    top_p_py, kw_py = top_p, dict(kw)
    if forms:  # the same option values in another representation (numpy scalar / 0-dim tensor)
        kw["top_k"] = INT_FORMS[forms["top_k"]](k)
        kw["temperature"] = FLOAT_FORMS[forms["temperature"]](temp)
        kw["tanh_clipping"] = FLOAT_FORMS[forms["tanh_clipping"]](C)
        top_p = FLOAT_FORMS[forms["top_p"]](top_p)
        ctx.count("option forms: " + ",".join(f"{o}={f}" for o, f in sorted(forms.items()) if f not in ("int", "float")) or "python")
    try:
        with Recorder() as rec:
            lp = dec.process_logits(logits.clone(), mask, top_p=top_p, **kw)
    except Exception as e:  # a crash on admissible arguments: no distribution is produced
        ctx.violation("process-logits-raises:" + type(e).__name__, f"process_logits raised {type(e).__name__}: {e}"[:300],
                      {"tag": tag, "n": n, "exponents_after_temperature": rows_m[0], "mask": [int(x) for x in masks[0]],
                       "temperature": temp, "top_k": k, "top_p": top_p, "tanh_clipping": C})
        return None
    if forms:
        lp_py = dec.process_logits(logits.clone(), mask, top_p=top_p_py, **kw_py)
        if not same_tensor(lp, lp_py):
            bad = [b for b in range(B) if not same_tensor(lp[b], lp_py[b])][:1] or [0]
            b0 = bad[0]
            ctx.violation("option-form", "process_logits depends on the REPRESENTATION of an option value (python scalar vs numpy "
                          "scalar / 0-dim tensor of the same value)",
                          {"forms": forms, "tag": tag, "n": n, "mask": [int(x) for x in masks[b0]], "temperature": temp, "top_k": k,
                           "top_p": top_p_py, "tanh_clipping": C, "logits": logits[b0].tolist(),
                           "logprobs_with_forms": [str(v) for v in lp[b0].tolist()],
                           "logprobs_python_scalars": [str(v) for v in lp_py[b0].tolist()]})
        top_p = top_p_py  # arithmetic below uses the python value
    kth_idx = rec.topk[0][1][..., -1].tolist() if (k > 0 and len(rec.topk) == 1) else None
    sig = rec.sort[0][0][1].tolist() if (len(rec.sort) == 1 and not rec.sort[0][1]) else None
    if k > 0 and kth_idx is None:
        ctx.count("oracle-topk-not-recorded")
    if 0 < top_p < 1 and sig is None:
        ctx.count("oracle-sort-not-recorded")
    q = dec.process_logits(logits.clone(), mask, top_p=0.0, **kw).exp()
    shift = ctx.rng.choice(list(shifts))
    lp2 = dec.process_logits(logits.clone() + shift, mask, top_p=top_p, **kw)
    try:
        ga = dec.DecodingStrategy.greedy(lp, mask).tolist()
    except AssertionError:
        ga = None
    torch.manual_seed(ctx.rng.randrange(1 << 30))
    try:
        sa = dec.DecodingStrategy.sampling(lp, mask).tolist()
    except (AssertionError, RuntimeError):
        sa = None
    probs = lp.exp()
    kept = torch.isfinite(lp)
    # the unfiltered distribution by its definition (float64): softmax over the feasible actions of clip(logit)/T
    # (clipping and the division by T are done in the logits' dtype, as the code does: at magnitude 1e4 a float32
    # quotient is only accurate to 1e-3, which is not what this check is about)
    z = ((torch.tanh(logits) * float(C) if C else logits) / temp).double()
    z = z.masked_fill(~torch.tensor(masks, dtype=torch.bool), float("-inf"))
    q_ref = torch.softmax(z, -1)
    nanrow = (torch.isnan(lp).any(-1) | torch.isnan(lp2).any(-1) | torch.isnan(q).any(-1)).tolist()
    lines, meta = [], []
    for b in range(B):
        ms, mk = rows_m[b], masks[b]
        wit = {"tag": tag, "n": n, "exponents_after_temperature": ms, "mask": [int(x) for x in mk], "temperature": temp,
               "top_k": k, "top_p": top_p, "tanh_clipping": C,
               "logits": [float(v) for v in logits[b].tolist()]}
        if nanrow[b]:
            ctx.violation("nan-row", "process_logits returned NaN log-probabilities (for these logits, their shift, or with top_p=0)", wit)
            continue
        g = ga[b] if ga is not None else None
        s = sa[b] if sa is not None else None
        if g is None:
            ctx.violation("greedy-assert", "DecodingStrategy.greedy raised on process_logits output", wit)
        if s is None:
            ctx.violation("sampling-assert", "DecodingStrategy.sampling raised on process_logits output", wit)
        if compare_model:
            # mask_logits=False: the model (processLogitsOpt false) gets an arbitrary mask and must ignore it
            mm = mk if mask_logits else [ctx.rng.random() < 0.5 for _ in range(n)]
            lines.append(model_line(ms, mm, T, k, p, C, [kth_idx[b]] if kth_idx is not None else [],
                                    sig[b] if sig is not None else [], [g if g is not None else 0, s if s is not None else 0],
                                    ml=1 if mask_logits else 0))
            meta.append(("model", b, wit))
        if k == 0 and float((q[b].double() - q_ref[b]).abs().max()) > tol:
            ctx.violation("spec-unfiltered", "process_logits with top_k=0, top_p=0 is not the masked softmax of clip(logits)/T",
                          {"real": q[b].tolist(), "definition": q_ref[b].tolist(), **wit})
        score = ms if raw_logits is None else rows_m[b]
        lines.append(spec_line(n, k, p, mk, score, kept[b].tolist(), ticks(probs[b]), ticks(q[b]),
                               ticks(lp2[b].exp()), g, s, tol=tol))
        meta.append(("spec", b, wit))
    replies = ctx.driver.ask_many(lines)
    margin_of = {}
    for (what, b, wit), rep in zip(meta, replies):
        f = parse_fields(rep)
        if what == "model":
            ctx.case((tag, tuple(rows_m[b]), tuple(masks[b]), T, k, p, C), nontrivial=n > 1)
            if "err" in f or "kept" not in f:
                ctx.disagreement("model could not evaluate the row", {"reply": rep, **wit})
                continue
            if f["kthvalid"] != "1":
                ctx.disagreement("index returned by torch.topk is not a k-th largest entry of the model's pre-filter logits",
                                 {"kth": kth_idx[b] if kth_idx else None, **wit})
                continue
            if f["sortvalid"] != "1":
                ctx.disagreement("permutation returned by torch.sort does not sort the model's pre-top-p logits",
                                 {"sigma": sig[b] if sig else None, **wit})
                continue
            skip = False
            if f["margin"] != "none":
                mg = Fraction(f["margin"])
                margin_of[b] = mg
                if mg < MARGIN:
                    fin = [m for m, keep in zip(rows_m[b], masks[b]) if keep]
                    exact = (mg == 0 and p == (1, 2) and len(set(fin)) == 1 and len(fin) in (2, 4, 8) and k in (0,) )
                    if exact:
                        ctx.count("top-p exact tie at the threshold (float-exact uniform row)")
                    else:
                        skip = True
                        ctx.count("tie-skipped (top-p margin < 5e-5)")
            if not skip:
                real_kept = rl.mask_str(kept[b])
                if real_kept != f["kept"]:
                    ctx.disagreement("support of process_logits output", {"real": real_kept, "model": f["kept"], **wit})
                    continue
                mp = frac_list(f["probs"])
                rp = probs[b].double().tolist()
                err = max(abs(float(a) - r) for a, r in zip(mp, rp))
                if err > TOL:
                    ctx.disagreement("probabilities of process_logits output", {"max_abs_err": err, "real": rp,
                                                                                 "model": [float(a) for a in mp], **wit})
                    continue
                if ga is not None and (f["gvalid"] != "1" or f["greedy"] != str(ga[b])):
                    ctx.disagreement("greedy selection", {"real": ga[b], "model_valid": f["gvalid"], "model": f["greedy"], **wit})
                if sa is not None and (f["svalid"] != "1" or f["sample"] != str(sa[b])):
                    ctx.disagreement("sampled action", {"real": sa[b], "model_valid": f["svalid"], "model": f["sample"], **wit})
            ctx.count(f"rows n={'1' if n == 1 else '2-6' if n <= 6 else '7-30' if n <= 30 else '31-100'}")
            nf = sum(masks[b])
            ctx.count("feasible=1" if nf == 1 else "feasible<k" if (k > 0 and nf < k) else "feasible=k" if nf == k else "feasible>k")
            ctx.count(f"T={T[0]}/{T[1]}")
            ctx.count(f"p={p[0]}/{p[1]}")
            ctx.count(f"clip={C}")
            ctx.count("k=0" if k == 0 else "k>n" if k > n else "k=n" if k == n else "0<k<n")
            if len(set(m for m, keep in zip(rows_m[b], masks[b]) if keep)) < nf:
                ctx.count("ties among feasible logits")
            if ctx.evaluations % 997 == 1:
                ctx.sample({"input": wit, "model_reply": rep[:300], "real_support": rl.mask_str(kept[b])})
        else:
            near = (b in margin_of and margin_of[b] < MARGIN) or near_threshold(q[b].double().tolist(), top_p, max(MARGIN, 5 * tol))
            names = {"isdist": "probabilities are a normalised distribution", "maskedzero": "masked actions have zero probability",
                     "argmax": "a most likely feasible action is kept", "topkcard": "top-k keeps at most k (ties aside)",
                     "topkge": "no more feasible actions than k: nothing feasible removed by top-k",
                     "toppmass": "kept mass >= top_p of the pre-top-p distribution",
                     "tight": "top-p keeps nothing superfluous: the actions strictly more likely than a kept action carry mass < top_p",
                     "close": "adding a constant changes nothing",
                     "greedy": "greedy returns a feasible maximiser", "sample": "sampling returns a feasible action of positive probability"}
            for key, txt in names.items():
                v = f.get(key)
                if v is None:
                    ctx.disagreement("spec oracle could not evaluate", {"reply": rep, **wit})
                    break
                if v != "0":
                    continue
                if key == "topkge" and 0 < top_p < 1:
                    continue  # the top-p filter may remove feasible actions
                if key == "argmax":
                    # float32 stream: tanh clipping saturates (tanh(x) = 1.0f for x ≳ 9) and the division by the temperature
                    # rounds, so logits that are distinct for the exact oracle can be EQUAL scores for the code; a kept action
                    # whose float32 score equals the maximal feasible float32 score is "a most likely action" (false alarm at
                    # thorough seed 13: tanh_clipping 50, several logits > 9)
                    z32 = ((torch.tanh(logits[b]) * float(C)) if C else logits[b]) / temp
                    zf = [float(v) for v, keep in zip(z32.tolist(), mk) if keep]
                    zk = [float(v) for v, kp in zip(z32.tolist(), kept[b].tolist()) if kp]
                    if zf and zk and max(zk) >= max(zf):
                        ctx.count("argmax check tie-skipped (float32 scores of the kept action and of the maximiser are equal)")
                        continue
                if key == "close":
                    if C != 0:
                        ctx.count("shift changes the distribution under tanh clipping (known scope note)")
                        if ctx.counts.get("shift changes the distribution under tanh clipping (known scope note)") > 2:
                            continue  # keep room in the violation list for anything else
                        ctx.violation(KEY_SHIFT_CLIP, "with tanh clipping on, adding a constant to all logits changes the distribution",
                                      {"shift": shift, "p": probs[b].tolist(), "p_shifted": lp2[b].exp().tolist(), **wit})
                        continue
                    if near:
                        ctx.count("shift check tie-skipped")
                        continue
                    # float32 stream: adding the constant rounds the logits; two feasible logits around the top-k cut that
                    # differ by less than that rounding become a tie (or swap), which the clause does not speak about
                    # ("ties aside"; the theorem is over exact arithmetic) — skipped and counted, like the top-p margin
                    fl = sorted((float(v) for v, keep in zip(logits[b].tolist(), mk) if keep), reverse=True)
                    if 0 < k < len(fl):
                        gap = abs(fl[k - 1] - fl[k]) / float(temp)
                        ulp = (max(abs(v) for v in fl) + abs(float(shift))) * 2.0 ** -23
                        if gap <= 8 * ulp:
                            ctx.count("shift check tie-skipped (top-k cut within float32 rounding of the shift)")
                            continue
                    # float32 stream: the rounding of `logit + shift` (≈ (|logit|+|shift|)·2^-23) is divided by the temperature
                    # before the softmax; at T = 1e-3 it moves the probabilities of two near-equal logits by ~1e-4 (false alarm at
                    # thorough seed 12: 2.152367 vs 2.152385, T = 0.001, shift −7.5) — the clause is about exact arithmetic
                    if fl:
                        amp = (max(abs(v) for v in fl) + abs(float(shift))) * 2.0 ** -23 / max(float(temp), 1e-30)
                        if amp > 0.1 * tol:
                            ctx.count("shift check skipped (float32 rounding of the shift amplified by 1/temperature exceeds the tolerance)")
                            continue
                    wit = {"shift": shift, "p": probs[b].tolist(), "p_shifted": lp2[b].exp().tolist(), **wit}
                ctx.violation("spec-" + key, "property clause fails on the real code: " + txt,
                              {"spec_reply": rep, "real_probs": probs[b].tolist(), "real_support": rl.mask_str(kept[b]),
                               "pre_top_p_distribution": q[b].tolist(), **wit})
    return lp


# ---------------------------------------------------------------------------------------------------
def corr_process(ctx):
    rng = ctx.rng
    thorough = ctx.tier == "thorough" or ctx.searching
    # exhaustive masks, n ≤ 6
    for n in range(1, 7):
        masks_all = [list(m) for m in itertools.product([False, True], repeat=n) if any(m)]
        configs = [(T, k, p, C) for T in TEMPS for k in range(0, n + 3) for p in PS for C in CLIPS]
        if not thorough and n >= 5:
            frac = {5: 0.5, 6: 0.25}[n]
            configs = [c for c in configs if rng.random() < frac]
        reps = 2 if thorough and n <= 4 else 1
        for (T, k, p, C) in configs:
            rows, mk = [], []
            for m in masks_all:
                for _ in range(reps):
                    rows.append(gen_exponents(rng, n, T, C, rng.choice(KINDS)))
                    mk.append(m)
            run_config(ctx, rows, mk, T, k, p, C, "exhaustive-masks",
                       forms=pick_forms(rng, T[0] / T[1], p[0] / p[1], C) if rng.random() < 0.3 else None)
            ctx.count("configs exhaustive-masks")
    # random, n ≤ 100
    for it in range(ctx.budget(300, 4000)):
        n = rng.choice([7, 8, 10, 13, 16, 20, 30, 50, 100]) if it % 3 else rng.randint(2, 12)
        T, p, C = rng.choice(TEMPS), rng.choice(PS), rng.choice(CLIPS)
        k = rng.choice([0, 1, 2, n - 1, n, n + 1, n + 2, rng.randint(0, n + 2)])
        B = 4 if n > 30 else 8
        rows, mk = [], []
        for _ in range(B):
            rows.append(gen_exponents(rng, n, T, C, rng.choice(KINDS)))
            mk.append(gen_mask(rng, n, rng.choice(["random", "random", "single", "all", "allbut1"])))
        if k > 0 and it % 5 == 0:  # number of feasible actions exactly k / k-1
            for b in range(B):
                want = max(1, min(n, k - (b % 2)))
                idx = rng.sample(range(n), want)
                mk[b] = [i in idx for i in range(n)]
        run_config(ctx, rows, mk, T, k, p, C, "random",
                   forms=pick_forms(rng, T[0] / T[1], p[0] / p[1], C) if it % 2 else None)
        ctx.count("configs random")
    # float-exact top-p ties at the threshold: uniform rows, p = 1/2
    for n in (2, 4, 8):
        for T in TEMPS:
            v = grid(T, 0)[0] * rng.randint(-3, 3)
            run_config(ctx, [[v] * n], [[True] * n], T, 0, (1, 2), 0, "uniform-exact-tie")
    # saturating clipping (raw logits ±60·ln2, tanh ≈ ±1): spec oracle on the real outcomes only
    dec = _dec()
    for it in range(ctx.budget(40, 400)):
        n = rng.randint(1, 12)
        T, p = rng.choice(TEMPS), rng.choice(PS)
        k = rng.randint(0, n + 2)
        B = 6
        ks = [[rng.choice([-60, -40, -3, -1, 0, 0, 1, 2, 30, 60]) for _ in range(n)] for _ in range(B)]
        mk = [gen_mask(rng, n, rng.choice(["random", "single", "all"])) for _ in range(B)]
        raw = torch.tensor([[v * LN2 for v in r] for r in ks], dtype=torch.float64).to(torch.float32)
        clipped = torch.tanh(raw) * 10.0
        # order-equivalent integer scores of the clipped logits (dense ranks; float32 tanh saturates)
        scores = []
        for b in range(B):
            vals = sorted(set(clipped[b].tolist()))
            scores.append([vals.index(v) for v in clipped[b].tolist()])
        run_config(ctx, scores, mk, T, k, p, 10, "saturating-clip", compare_model=False, raw_logits=raw)
        ctx.count("configs saturating-clip (spec only)")

    # huge magnitudes (float32 logits up to ±3e30, clipping off): spec oracle on the real outcomes only
    for it in range(ctx.budget(30, 300)):
        n = rng.randint(1, 10)
        T, p = rng.choice(TEMPS), rng.choice(PS)
        k = rng.randint(0, n + 2)
        B = 6
        scale = rng.choice([1e4, 1e10, 1e30])
        ks = [[rng.randint(-3, 3) for _ in range(n)] for _ in range(B)]
        mk = [gen_mask(rng, n, rng.choice(["random", "single", "all"])) for _ in range(B)]
        raw = torch.tensor([[v * scale for v in r] for r in ks], dtype=torch.float64).to(torch.float32)
        run_config(ctx, ks, mk, T, k, p, 0, "huge-magnitude", compare_model=False, raw_logits=raw)
        ctx.count("configs huge-magnitude (spec only)")

    # mask_logits=False (mask=None): must behave as an all-feasible mask
    for it in range(ctx.budget(60, 600)):
        n = rng.randint(1, 12)
        T, p, C = rng.choice(TEMPS), rng.choice(PS), rng.choice(CLIPS)
        k = rng.choice([0, 1, 2, n - 1, n, n + 1, rng.randint(0, n + 2)])
        rows = [gen_exponents(rng, n, T, C, rng.choice(KINDS)) for _ in range(4)]
        run_config(ctx, rows, [[True] * n] * 4, T, max(k, 0), p, C, "mask_logits=False", mask_logits=False,
                   forms=pick_forms(rng, T[0] / T[1], p[0] / p[1], C) if it % 3 == 0 else None)
    # generic stream: arbitrary float logits, non-dyadic temperatures, arbitrary top_p / clipping constants;
    # spec oracle on the real outcomes only (scores = order of the clipped float32 logits)
    for it in range(ctx.budget(250, 2500)):
        n = rng.choice([2, 3, 4, 5, 6, 8, 10, 20, 50]) if it % 4 else rng.randint(1, 7)
        T = rng.choice([(3, 10), (7, 10), (1, 1), (3, 2), (3, 1), (10, 1), (1, 10)])
        p = rng.choice([(0, 1), (1, 20), (3, 10), (3, 5), (4, 5), (19, 20), (99, 100), (1, 1)])
        C = rng.choice([0, 0, 1, 10, 50])
        k = rng.choice([0, 0, 1, 2, 3, n // 2, n - 1, n, n + 3])
        B = 6
        kind = rng.choice(["normal", "peaked", "flat", "ties"])
        raws = []
        for _ in range(B):
            if kind == "normal":
                r = [rng.gauss(0, 3) for _ in range(n)]
            elif kind == "peaked":
                r = [rng.gauss(0, 0.3) for _ in range(n)]
                r[rng.randrange(n)] += rng.choice([3.0, 6.0, 20.0])
            elif kind == "flat":
                r = [rng.gauss(0, 0.05) for _ in range(n)]
            else:
                pool = [rng.gauss(0, 2) for _ in range(max(1, n // 2))]
                r = [rng.choice(pool) for _ in range(n)]
            raws.append(r)
        raw = torch.tensor(raws, dtype=torch.float32)
        clipped = torch.tanh(raw) * float(C) if C else raw
        scores = []
        for b in range(B):
            vals = sorted(set(clipped[b].tolist()))
            scores.append([vals.index(v) for v in clipped[b].tolist()])
        # rows of one batch with different numbers of feasible actions (1, all, all but one, random)
        mk = [gen_mask(rng, n, ["single", "all", "allbut1", "random", "random", "all"][b]) for b in range(B)]
        ml = True
        if it % 7 == 0:
            mk, ml = [[True] * n] * B, False
        run_config(ctx, scores, mk, T, max(k, 0), p, C, "generic-floats", compare_model=False, raw_logits=raw,
                   mask_logits=ml, shifts=(3.0, -7.5, 0.25),
                   forms=pick_forms(rng, T[0] / T[1], p[0] / p[1], C) if it % 3 == 1 else None)
        ctx.count("configs generic-floats (spec only)")


def dtype_scores(raw, C, temp):
    """order-equivalent integer scores of the logits that enter the filters, computed with the operations and
    in the dtype of the code (`tanh(x) * C / T`): dense ranks per row"""
    z = (torch.tanh(raw) * float(C) if C else raw) / temp
    out = []
    for b in range(z.shape[0]):
        vals = sorted(set(z[b].double().tolist()))
        idx = {v: i for i, v in enumerate(vals)}
        out.append([idx[v] for v in z[b].double().tolist()])
    return out


def corr_audit(ctx):
    """Input dimensions beyond the float32 / n ≤ 100 / moderate-magnitude streams: other dtypes, very long rows,
    magnitudes ±1e4 next to -inf, temperatures 1e-3 / 1e3.  Spec oracle on the real outcomes (tolerance of the
    dtype); rows whose `logits / temperature` is not representable in the dtype are outside the property's
    scope and are reported once under the key `overflow`."""
    rng = ctx.rng

    def rows(n, B, kind):
        out = []
        for _ in range(B):
            if kind == "normal":
                r = [rng.gauss(0, 2) for _ in range(n)]
            elif kind == "ties":
                pool = [rng.gauss(0, 2) for _ in range(max(1, n // 3))]
                r = [rng.choice(pool) for _ in range(n)]
            elif kind == "big":
                r = [rng.choice([1e4, -1e4, 0.0, 5.0, 1e4 - 1, -1e4 + 1, 9999.5]) for _ in range(n)]
            else:
                r = [rng.gauss(0, 0.3) for _ in range(n)]
                r[rng.randrange(n)] += 8.0
            out.append(r)
        return out

    def masks(n, B):
        return [gen_mask(rng, n, ["single", "all", "allbut1", "random", "random", "single"][b % 6]) for b in range(B)]

    def one(raw, mk, T, k, p, C, tag, tol):
        temp = T[0] / T[1]
        fin = torch.finfo(raw.dtype).max
        zmax = float((torch.tanh(raw.double()) * C if C else raw.double()).abs().max()) / temp
        if zmax > fin:
            ctx.count("audit rows skipped: logits/temperature overflows the dtype")
            return
        run_config(ctx, dtype_scores(raw, C, temp), mk, T, k, p, C, tag, compare_model=False, raw_logits=raw,
                   shifts=(0.0,) if raw.dtype in (torch.float16, torch.bfloat16) else (3.0, -7.5, 0.25), tol=tol)
        ctx.count(f"audit configs {tag}")

    PSA = [(0, 1), (1, 20), (1, 2), (9, 10), (99, 100), (1, 1), (1, 10 ** 9)]
    # dtypes
    for dt, tol in ((torch.float16, 1e-2), (torch.bfloat16, 6e-2), (torch.float64, TOL)):
        for it in range(ctx.budget(24, 240)):
            n = rng.choice([1, 2, 3, 5, 8, 12])
            B = 6
            T = rng.choice([(1, 2), (1, 1), (2, 1), (3, 1)])
            C = rng.choice([0, 0, 10])
            k = rng.choice([0, 0, 1, 2, n, n + 2])
            raw = torch.tensor(rows(n, B, rng.choice(["normal", "ties", "peaked"])), dtype=torch.float64).to(dt)
            one(raw, masks(n, B), T, k, rng.choice(PSA), C, f"dtype-{str(dt).split('.')[-1]}", tol)
    # very long rows
    for n in ([1000] if ctx.tier != "thorough" else [1000, 3000]):
        for it in range(ctx.budget(4, 12)):
            B = 2
            T = rng.choice([(1, 2), (1, 1), (3, 1)])
            k = rng.choice([0, 1, 10, n - 1, n, n + 5])
            raw = torch.tensor(rows(n, B, rng.choice(["normal", "ties", "peaked"])), dtype=torch.float32)
            mk = [gen_mask(rng, n, rng.choice(["random", "all", "allbut1", "single"])) for _ in range(B)]
            one(raw, mk, T, k, rng.choice(PSA), rng.choice([0, 10]), f"long-rows n={n}", TOL)
    # magnitudes ±1e4 next to -inf, temperatures 1e-3 .. 1e3
    for it in range(ctx.budget(60, 600)):
        n = rng.randint(1, 8)
        B = 6
        T = rng.choice([(1, 1000), (1, 100), (1, 1), (100, 1), (1000, 1)])
        k = rng.choice([0, 0, 1, 2, n, n + 1])
        kind = rng.choice(["big", "big", "normal", "peaked"])
        raw = torch.tensor(rows(n, B, kind), dtype=torch.float32)
        one(raw, masks(n, B), T, k, rng.choice(PSA), rng.choice([0, 0, 10]), "magnitude-1e4/extreme-temperature", TOL)


def corr_select(ctx):
    """`DecodingStrategy.greedy` / `.sampling` on arbitrary log-probabilities and masks (not necessarily
    produced by `process_logits`): assertion behaviour and the resample-while-infeasible loop."""
    dec = _dec()
    rng = ctx.rng
    lines, checks = [], []
    for it in range(ctx.budget(300, 3000)):
        n = rng.randint(1, 8)
        B = rng.choice([1, 1, 2, 3, 5])
        vals = [[rng.randint(-6, 0) for _ in range(n)] for _ in range(B)]
        fin = [[rng.random() < 0.8 for _ in range(n)] for _ in range(B)]
        for b in range(B):
            if not any(fin[b]):
                fin[b][rng.randrange(n)] = True
        # masks that may or may not agree with the support
        mk = []
        for b in range(B):
            m = [f and rng.random() < 0.7 for f in fin[b]]
            if not any(m):
                j = rng.choice([i for i in range(n) if fin[b][i]])
                m[j] = True
            if rng.random() < 0.3:
                m[rng.randrange(n)] = True  # a feasible action outside the support
            mk.append(m)
        lp = torch.tensor([[v * LN2 if f else float("-inf") for v, f in zip(vals[b], fin[b])] for b in range(B)],
                          dtype=torch.float32)
        mask = torch.tensor(mk, dtype=torch.bool)
        # greedy
        am = lp.argmax(-1).tolist()
        via = it % 2 == 1  # the module-level entry point used by PtrNet / MDAM / MatNet-FFSP loops
        ctx.count("select via decode_logprobs" if via else "select via DecodingStrategy static methods")
        try:
            ga = (dec.decode_logprobs(lp.clone(), mask, decode_type="greedy") if via
                  else dec.DecodingStrategy.greedy(lp.clone(), mask)).tolist()
        except AssertionError:
            ga = None
        for b in range(B):
            lines.append(f"logits.greedy {n} | {' '.join(str(int(f)) for f in fin[b])} | {' '.join(map(str, vals[b]))} | "
                         f"{' '.join(str(int(x)) for x in mk[b])} | {ga[b] if ga is not None else am[b]}")
        checks.append(("greedy", B, ga, {"logprobs_over_ln2": vals, "finite": fin, "mask": mk}))
        # sampling loop
        torch.manual_seed(rng.randrange(1 << 30))
        with Recorder() as rec:
            try:
                sa = (dec.decode_logprobs(lp.clone(), mask, decode_type="sampling") if via
                      else dec.DecodingStrategy.sampling(lp.clone(), mask)).tolist()
            except AssertionError:
                sa = None
        draws = rec.draws
        ctx.count("sampling: resampled" if len(draws) > 1 else "sampling: first draw accepted")
        if not draws:
            ctx.count("draws-not-recorded")
            draws = [sa] if sa is not None else []
        flatm = " ".join(str(int(x)) for r in mk for x in r)
        flatd = " ".join(str(x) for d in draws for x in d)
        lines.append(f"logits.sampleB {B} {n} {len(draws)} | {flatm} | {flatd}")
        checks.append(("sampleB", B, sa, {"mask": mk, "draws": draws}))
        if B == 1:
            lines.append(f"logits.sample {n} | {flatm} | {flatd}")
            checks.append(("sample", 1, sa, {"mask": mk, "draws": draws}))
            if via:  # the model's decode_logprobs dispatch
                lines.append(f"logits.decode 0 {n} | {flatm} | 0 | {flatd}")
                checks.append(("decode-sampling", 1, sa, {"mask": mk, "draws": draws}))
                lines.append(f"logits.decode 1 {n} | {flatm} | {ga[0] if ga is not None else am[0]} | ")
                checks.append(("decode-greedy", 1, ga, {"mask": mk, "logprobs_over_ln2": vals, "finite": fin}))
    replies = ctx.driver.ask_many(lines)
    pos = 0
    for what, B, real, wit in checks:
        if what == "greedy":
            reps = replies[pos:pos + B]
            pos += B
            model_fail = any(parse_fields(r).get("res") == "none" for r in reps)
            ctx.case(("greedy", str(wit)))
            ctx.count("greedy: assertion fires" if real is None else "greedy: returns")
            if (real is None) != model_fail:
                ctx.disagreement("greedy assertion", {"real_raised": real is None, "model": reps, **wit})
            elif real is not None:
                for b, r in enumerate(reps):
                    f = parse_fields(r)
                    if f.get("valid") != "1" or f.get("res") != str(real[b]):
                        ctx.disagreement("greedy selection (raw call)", {"row": b, "real": real[b], "model": r, **wit})
                    if not wit["mask"][b][real[b]]:
                        ctx.violation("greedy-infeasible", "greedy returned an infeasible action", {"row": b, **wit})
        else:
            r = parse_fields(replies[pos]).get("res")
            pos += 1
            ctx.case((what, str(wit)))
            # the model answers `assert` when the loop exits on an infeasible draw and the assertion fires
            # (never, by Rl4co.Decode.sampleLoopB_never_asserts, for the committed loop condition)
            want = "assert" if real is None else (",".join(map(str, real)) if what == "sampleB" else str(real[0]))
            if r != want:
                ctx.disagreement("resampling loop of DecodingStrategy.sampling", {"real": real, "model": r, "op": what, **wit})
            if real is not None:
                for b, a in enumerate(real):
                    if not wit["mask"][b][a]:
                        ctx.violation("sampling-infeasible", "sampling returned an infeasible action", {"row": b, **wit})


def corr_step(ctx):
    """`Greedy(...).step` / `Sampling(...).step` (process_logits + selection as the strategies call them)."""
    dec = _dec()
    rng = ctx.rng
    for it in range(ctx.budget(60, 600)):
        n = rng.randint(1, 10)
        T, p, C = rng.choice(TEMPS), rng.choice(PS), rng.choice(CLIPS)
        k = rng.randint(0, n + 2)
        B = 4
        rows = [gen_exponents(rng, n, T, C, rng.choice(KINDS)) for _ in range(B)]
        mk = [gen_mask(rng, n, rng.choice(["random", "single", "all"])) for _ in range(B)]
        logits = real_logits(rows, T, C)
        mask = torch.tensor(mk, dtype=torch.bool)
        ml = it % 4 != 3
        given_mask = mask
        if not ml:  # mask_logits=False: the strategy drops the mask; must behave as an all-feasible mask
            mk = [[True] * n for _ in range(B)]
            ctx.count("step with mask_logits=False")
        for name, cls in (("greedy", dec.Greedy), ("sampling", dec.Sampling)):
            fm = pick_forms(rng, T[0] / T[1], p[0] / p[1], C) if it % 2 else None
            if fm:
                ctx.count("step with option forms (numpy scalars / 0-dim tensors)")
                strat = cls(temperature=FLOAT_FORMS[fm["temperature"]](T[0] / T[1]), top_p=FLOAT_FORMS[fm["top_p"]](p[0] / p[1]),
                            top_k=INT_FORMS[fm["top_k"]](k), tanh_clipping=FLOAT_FORMS[fm["tanh_clipping"]](C), mask_logits=ml)
            else:
                strat = cls(temperature=T[0] / T[1], top_p=p[0] / p[1], top_k=k, tanh_clipping=float(C), mask_logits=ml)
            mask = given_mask
            td = TensorDict({}, batch_size=[B])
            torch.manual_seed(rng.randrange(1 << 30))
            with Recorder() as rec:
                td = strat.step(logits.clone(), mask, td)
            act = td["action"].tolist()
            lpa = strat.logprobs[-1].tolist()
            if fm:  # judged on the real outcome: the representation of the option values must not matter
                lp_py = dec.process_logits(logits.clone(), mask if ml else None, temperature=T[0] / T[1], top_p=p[0] / p[1],
                                           top_k=k, tanh_clipping=float(C), mask_logits=ml)
                for b in range(B):
                    if not same_tensor(strat.logprobs[-1][b], lp_py[b, act[b]]):
                        ctx.violation("option-form:step", f"{name}.step depends on the representation of an option value",
                                      {"forms": fm, "strategy": name, "n": n, "mask": [int(x) for x in mk[b]], "temperature": T[0] / T[1],
                                       "top_k": k, "top_p": p[0] / p[1], "tanh_clipping": C, "logits": logits[b].tolist(),
                                       "action": act[b], "logprob_with_forms": lpa[b], "logprob_python_scalars": lp_py[b, act[b]].item(),
                                       "support_python_scalars": rl.mask_str(torch.isfinite(lp_py[b]))})
            kth_idx = rec.topk[0][1][..., -1].tolist() if (k > 0 and len(rec.topk) == 1) else None
            sig = rec.sort[0][0][1].tolist() if (len(rec.sort) == 1 and not rec.sort[0][1]) else None
            lines = [model_line(rows[b], mk[b] if ml else given_mask[b].tolist(), T, k, p, C,
                                [kth_idx[b]] if kth_idx is not None else [],
                                sig[b] if sig is not None else [], [act[b], act[b]], ml=1 if ml else 0) for b in range(B)]
            for b, rep in enumerate(ctx.driver.ask_many(lines)):
                f = parse_fields(rep)
                wit = {"strategy": name, "n": n, "exponents_after_temperature": rows[b], "mask": [int(x) for x in mk[b]],
                       "temperature": T[0] / T[1], "top_k": k, "top_p": p[0] / p[1], "tanh_clipping": C, "action": act[b]}
                ctx.case(("step", name, tuple(rows[b]), tuple(mk[b]), T, k, p, C), nontrivial=n > 1)
                ctx.count(f"step {name}")
                if "kept" not in f or f["kthvalid"] != "1" or f["sortvalid"] != "1":
                    ctx.disagreement("strategy.step: oracle invalid / row not evaluated", {"reply": rep, **wit})
                    continue
                if not mk[b][act[b]]:
                    ctx.violation("step-infeasible", f"{name}.step emitted an infeasible action", wit)
                if f["margin"] != "none" and Fraction(f["margin"]) < MARGIN:
                    ctx.count("tie-skipped (top-p margin < 5e-5)")
                    continue
                ok = (f["gvalid"] == "1" and f["greedy"] == str(act[b])) if name == "greedy" else \
                     (f["svalid"] == "1" and f["sample"] == str(act[b]))
                if not ok:
                    ctx.disagreement(f"{name}.step action", {"model": rep[:400], **wit})
                    continue
                mp = float(frac_list(f["probs"])[act[b]])
                if abs(math.exp(lpa[b]) - mp) > TOL:
                    ctx.disagreement(f"{name}.step gathered log-probability", {"real": lpa[b], "model_prob": mp, **wit})


def corr_book(ctx):
    """Bookkeeping of a strategy object: `step` appends the selected action and the gathered log-prob (or the whole
    row with `store_all_logp`), `post_decoder_hook` stacks them; `Evaluate` takes the given action; the buffers are
    not reset between decoding sequences on the same object (model: Rl4co.Decode.postHook_fresh / _reuse /
    evaluate_gathers).  Judged on the real outcome: the stacked actions are the per-step choices in order and
    entry t is the log-prob that step t's distribution gives to the action chosen at step t."""
    dec = _dec()
    rng = ctx.rng
    for it in range(ctx.budget(60, 500)):
        n = rng.randint(2, 8)
        B = rng.choice([1, 2, 4])
        L1, L2 = rng.randint(1, 5), rng.randint(0, 4)
        store_all = it % 3 == 0
        kind = ["greedy", "sampling", "evaluate"][it % 3 if it % 2 else rng.randrange(3)]
        T, p, C = rng.choice(TEMPS), rng.choice(PS), rng.choice(CLIPS)
        k = rng.randint(0, n + 1)
        cls = {"greedy": dec.Greedy, "sampling": dec.Sampling, "evaluate": dec.Evaluate}[kind]
        kw = dict(temperature=T[0] / T[1], top_p=p[0] / p[1], top_k=k, tanh_clipping=float(C))
        strat = cls(store_all_logp=store_all, **kw)
        ctx.count(f"bookkeeping {kind}{' store_all_logp' if store_all else ''}")
        chosen, rows_lp, given_all = [], [], []
        outs = []
        for seq, L in enumerate((L1, L2)):
            if seq == 1 and L == 0:
                break
            td = TensorDict({}, batch_size=[B])
            td, _, _ = strat.pre_decoder_hook(td, None)
            for t in range(L):
                rows = [gen_exponents(rng, n, T, C, rng.choice(KINDS)) for _ in range(B)]
                mk = [gen_mask(rng, n, rng.choice(["random", "all", "single"])) for _ in range(B)]
                logits, mask = real_logits(rows, T, C), torch.tensor(mk, dtype=torch.bool)
                full = dec.process_logits(logits.clone(), mask, **kw)
                torch.manual_seed(rng.randrange(1 << 30))
                if kind == "evaluate":
                    given = torch.tensor([rng.choice([j for j in range(n) if mk[b][j]]) for b in range(B)])
                    td = strat.step(logits.clone(), mask, td, action=given)
                    given_all.append(given.tolist())
                else:
                    td = strat.step(logits.clone(), mask, td)
                chosen.append(td["action"].tolist())
                rows_lp.append(full)
            lp, act, td, _ = strat.post_decoder_hook(td, None)
            outs.append((lp, act))
        total = len(chosen)
        rep = parse_fields(ctx.driver.ask(
            f"logits.book {int(store_all)} {L1} {int(kind == 'evaluate')} | " + " ".join(str(chosen[t][0]) for t in range(total))))
        for seq, (lp, act) in enumerate(outs):
            upto = L1 if seq == 0 else total
            wit = {"strategy": kind, "store_all_logp": store_all, "n": n, "B": B, "L1": L1, "L2": L2, "sequence": seq,
                   "chosen_per_step": [chosen[t] for t in range(upto)], "returned_actions": act.tolist()}
            ctx.case(("book", it, seq))
            if seq == 1:
                ctx.count("bookkeeping: second sequence on the same object (buffers continue)")
            ok_shape = act.shape[1] == upto and lp.shape[1] == upto
            if not ok_shape:
                key = "book-length" if seq == 0 else "book-reuse-length"
                (ctx.violation if seq == 0 else ctx.disagreement)(
                    *((key, "post_decoder_hook does not return one entry per step", wit) if seq == 0 else
                      ("buffers after a second sequence are not first ++ second", wit)))
                continue
            for b in range(B):
                for t in range(upto):
                    if act[b, t].item() != chosen[t][b]:
                        ctx.violation("book-actions", "stacked actions are not the per-step choices in order", {"row": b, "step": t, **wit})
                    if kind == "evaluate" and act[b, t].item() != given_all[t][b]:
                        ctx.violation("book-evaluate", "Evaluate did not take the given action", {"row": b, "step": t, **wit})
                    want = rows_lp[t][b] if store_all else rows_lp[t][b, chosen[t][b]]
                    got = lp[b, t]
                    same = torch.equal(torch.nan_to_num(got, neginf=-1e30), torch.nan_to_num(want, neginf=-1e30))
                    if not same:
                        ctx.violation("book-logprobs", "entry t of the stacked log-probs is not step t's log-prob of the action "
                                      "chosen at step t", {"row": b, "step": t, "got": got.tolist(), "want": want.tolist(), **wit})
            # the model's view of row 0
            m = rep["first" if seq == 0 else "reuse"].split("/")
            macts = [int(v) for v in m[0].split(",")] if m[0] else []
            ments = m[1].split(",") if len(m) > 1 and m[1] else []
            want_e = ["all"] * upto if store_all else [str(1000 * t + chosen[t][0]) for t in range(upto)]
            if macts != [chosen[t][0] for t in range(upto)] or ments != want_e or act[0].tolist() != macts:
                ctx.disagreement("strategy bookkeeping (actions / gathered entries)", {"model": rep, **wit})


def corr_policy_forms(ctx):
    """The options reach `process_logits` through a policy call (`policy(td, env, decode_type=…, top_k=…, …)` →
    `get_decoding_strategy(**config)` → `DecodingStrategy.step`).  Every `process_logits` call made inside is
    intercepted; its output must be bit-identical to the call with the same option VALUES as python scalars, and
    the top-k clause (at most k kept, ties aside) is judged on it."""
    dec = _dec()
    rng = ctx.rng
    try:
        from rl4co.envs import TSPEnv
        from rl4co.models.zoo.am import AttentionModelPolicy
    except Exception as e:  # the zoo is not importable: nothing to drive
        ctx.note(f"policy path not driven: {type(e).__name__}")
        return
    torch.manual_seed(rng.randrange(1 << 30))
    env = TSPEnv(generator_params=dict(num_loc=7))
    policy = AttentionModelPolicy(env_name="tsp", embed_dim=16, num_encoder_layers=1, num_heads=2).eval()
    orig = dec.process_logits
    for it in range(ctx.budget(6, 40)):
        k = rng.choice([1, 2, 3])
        temp, top_p, C = rng.choice([0.5, 1.0, 2.0]), rng.choice([0.0, 0.5, 0.75]), rng.choice([0.0, 8.0])
        fm = pick_forms(rng, temp, top_p, C)
        if fm["top_k"] == "int":
            fm["top_k"] = rng.choice(["np.int64", "tensor.int64", "tensor.int32", "np.int32"])
        calls = []

        def spy(logits, mask=None, **kw):
            out = orig(logits.clone(), mask, **kw)
            calls.append((logits.clone(), None if mask is None else mask.clone(), dict(kw), out.clone()))
            return orig(logits, mask, **kw)

        dec.process_logits = spy
        try:
            td = env.reset(batch_size=[3])
            with torch.no_grad():
                policy(td, env, phase="test", decode_type=rng.choice(["sampling", "greedy"]),
                       top_k=INT_FORMS[fm["top_k"]](k), top_p=FLOAT_FORMS[fm["top_p"]](top_p),
                       temperature=FLOAT_FORMS[fm["temperature"]](temp), tanh_clipping=FLOAT_FORMS[fm["tanh_clipping"]](C))
        finally:
            dec.process_logits = orig
        ctx.count("policy calls with option forms")
        for (lg, mk, kw, out) in calls:
            ctx.case(("policy-form", it, len(calls)))
            kwp = dict(kw)
            kwp.update(top_k=k, top_p=top_p, temperature=temp, tanh_clipping=C)
            ref = orig(lg.clone(), mk, **kwp)
            wit = {"forms": fm, "top_k": k, "top_p": top_p, "temperature": temp, "tanh_clipping": C,
                   "logits": lg[0].tolist(), "mask": None if mk is None else [int(x) for x in mk[0].tolist()],
                   "support_with_forms": rl.mask_str(torch.isfinite(out[0])), "support_python_scalars": rl.mask_str(torch.isfinite(ref[0]))}
            if not same_tensor(out, ref):
                ctx.violation("option-form:policy", "a policy call depends on the representation of an option value", wit)
                break
            # top-k clause on the real outcome: kept entries strictly above the lowest kept logit number fewer than k
            z = (torch.tanh(lg) * C if C else lg) / temp
            for b in range(out.shape[0]):
                kept = torch.isfinite(out[b])
                if kept.any():
                    lo = z[b][kept].min()
                    if int((z[b][kept] > lo).sum()) >= k:
                        ctx.violation("spec-topkcard", "property clause fails on the real code: top-k keeps at most k (ties aside)",
                                      {"row": b, **wit})
                        break


def probe_overflow(ctx):
    """Scope note: when `logits / temperature` is not representable in the logits' dtype the quotient is ±inf and
    log_softmax returns NaN (float16 logits 1e4 with T = 0.1; float32 logits 3e38 with T = 0.5)."""
    dec = _dec()
    for dt, val, temp in ((torch.float16, 1e4, 0.1), (torch.float32, 3e38, 0.5)):
        lg = torch.tensor([[val, -val, 1.0]], dtype=dt)
        mask = torch.ones(1, 3, dtype=torch.bool)
        lp = dec.process_logits(lg.clone(), mask, temperature=temp)
        ctx.case(("overflow", str(dt)))
        if torch.isnan(lp).any():
            ctx.violation(KEY_OVERFLOW, "logits / temperature overflows the dtype: the row is NaN",
                          {"dtype": str(dt), "logits": lg.tolist(), "temperature": temp, "logprobs": [str(v) for v in lp[0].tolist()]})


def probe_float(ctx):
    """Float32 effects outside the real-number model (DESIGN §6 C10 L / §8): for `top_p` below float32
    resolution `1 - top_p` rounds to 1.0.  Before upstream fix 0ef23b5 (`sorted_indices_to_remove[..., -1] =
    False`, mirrored in the model, `Rl4co.Decode.last_never_removed`) the whole row was filtered out.  Rows of
    different sizes, with and without masked actions, ties at the top; the outcome of the real code is judged by
    the spec oracle (no NaN, normalised, masked zero, a most likely feasible action kept, nothing superfluous
    kept)."""
    rng = ctx.rng
    for pd in (10 ** 9, 10 ** 12, 10 ** 15, 10 ** 20, 10 ** 8, 3 * 10 ** 7, 10 ** 7, 10 ** 6, 10 ** 5, 10 ** 4):
        for it in range(ctx.budget(4, 30)):
            n = rng.choice([1, 2, 3, 5, 8, 20, 100])
            B = 6
            T = rng.choice(TEMPS)
            k = rng.choice([0, 0, 0, 1, n, rng.randint(0, n + 1)])
            ks = [[rng.randint(-4, 4) for _ in range(n)] for _ in range(B)]
            mk = [gen_mask(rng, n, ["all", "random", "allbut1", "single", "random", "all"][b]) for b in range(B)]
            raw = torch.tensor([[v * LN2 for v in r] for r in ks], dtype=torch.float64).to(torch.float32)
            run_config(ctx, ks, mk, T, k, (1, pd), 0, f"tiny-top-p", compare_model=False, raw_logits=raw,
                       forms=pick_forms(rng, T[0] / T[1], 1 / pd, 0) if it % 2 else None)
            ctx.count(f"float probe rows top_p=1e-{len(str(pd)) - 1}" if str(pd)[0] == "1" else "float probe rows top_p=3.3e-8", B)
            for _ in range(B):
                ctx.case(("probe", pd, it, _))


def run(ctx):
    corr_process(ctx)
    corr_audit(ctx)
    corr_select(ctx)
    corr_step(ctx)
    corr_book(ctx)
    corr_policy_forms(ctx)
    probe_float(ctx)
    probe_overflow(ctx)


MODEL_NOTE = ("process_logits / top-k / top-p / greedy / sampling modelled per row over an abstract ordered field with an "
              "abstract exp-like weight (Rl4co/Decode/ProcessLogits.lean); float32 rounding is outside the model "
              "(rows whose top-p comparison has an exact margin < 5e-5 are counted as tie-skipped)")
TOKEN_NOTE = ("translator tie: 12 AST probes (harness/probes/logits.py) regenerate the decision-critical tokens of decoding.py "
              "(statement order, comparison operators, top_k clamp/offset/index, top-p threshold/guard/sort direction/protected "
              "index, mask fill, sampling loop condition, greedy reduction) into Generated/Params.lean; the model is parametric in "
              "them and the `*_eq` / `*_iff` lemmas need the committed values")
ORACLE_NOTE = ("torch.topk / sort / argmax tie-breaking and torch.multinomial are oracle inputs: the model only requires "
               "them to be valid (k-th largest index, ascending sorting permutation, maximiser, positive probability); "
               "what torch returned is recorded through a module proxy and validated by the model on every row")
FORMS_NOTE = ("option values are passed as python scalars, numpy scalars (int64/int32, float64/float32) and 0-dim torch tensors "
              "(int64/int32, float64/float32) to process_logits, to the strategies and through a policy call; forms the clean "
              "tree itself rejects are not used: top_k as python float or bool (torch.topk raises TypeError); float32 forms only "
              "for values exactly representable in float32")
SCOPE_NOTE = ("mask_logits=False (mask=None) is modelled as an all-feasible mask (processLogitsOpt, nomask_sound) and driven through "
              "process_logits and the strategies' step")

T = "Rl4co.Decode."
THEOREMS = [
    Theorem(T + "probs_sum_one", "proved", "the emitted probabilities are non-negative and sum to 1 (any ordered field, any exp-like weight, valid oracles)"),
    Theorem(T + "masked_zero", "proved", "masked actions have probability 0 and are outside the support (unconditionally)"),
    Theorem(T + "argmax_kept", "proved", "a feasible action of maximal (clipped) logit survives top-k and top-p"),
    Theorem(T + "unique_argmax_kept", "proved", "the strictly best feasible action survives top-k and top-p"),
    Theorem(T + "kept_iff_pos", "proved", "support = where the probability is positive"),
    Theorem(T + "topk_card_le", "proved", "kept actions scoring strictly above any kept action number < k (at most k, ties aside)"),
    Theorem(T + "topk_ge_feasible_stage", "proved", "#feasible ≤ k ⇒ the top-k filter removes no feasible action"),
    Theorem(T + "topk_ge_feasible", "proved", "top-p off and #feasible ≤ k ⇒ every feasible action is in the support"),
    Theorem(T + "topp_mass_ge", "proved", "the support carries mass ≥ top_p of the distribution entering the top-p filter (top_p ≤ 1)"),
    Theorem(T + "last_never_removed", "proved", "the upstream line `sorted_indices_to_remove[..., -1] = False` (mirrored in the model) is a no-op in exact arithmetic: the last sorted position has cumulative probability 1 > 1 - top_p"),
    Theorem(T + "topp_tight", "proved", "top_p > 0: the actions strictly more likely than a kept action carry mass < top_p (nothing superfluous is kept, ties aside)"),
    Theorem(T + "runStages_canonical", "proved", "translator tie: with the extracted statement order, process_logits is clip → mask → /T → top-k → top-p (→ softmax)"),
    Theorem(T + "stageOrder_eq", "proved", "obligation on the extracted `logitsStageOrder`"),
    Theorem(T + "guardPlain_eq", "proved", "obligation on the extracted `logitsStageGuards`: the guards of the clip / top-k / top-p stages test the VALUE of the option only (no isinstance / type test)"),
    Theorem(T + "topkOn_eq", "proved", "obligation on the extracted `if top_k > 0`"),
    Theorem(T + "kEff_eq", "proved", "obligation on the extracted `min(top_k, n)` clamp and `torch.topk(logits, top_k)[0][..., -1]` (the threshold is the min(k,n)-th largest)"),
    Theorem(T + "cmpO_topk", "proved", "obligation on the extracted top-k comparison `logits < kth`"),
    Theorem(T + "toppOff_iff", "proved", "obligation on the extracted guards `top_p > 0`, `top_p <= 0.0 or top_p >= 1.0`"),
    Theorem(T + "toppFlag_iff", "proved", "obligation on the extracted `cumulative_probs <= (1 - top_p)`"),
    Theorem(T + "sortLe_eq", "proved", "obligation on the extracted `descending=False`"),
    Theorem(T + "protPos_eq", "proved", "obligation on the extracted protected index `[..., -1]`"),
    Theorem(T + "maskStage_eq", "proved", "obligation on the extracted mask fill `logits[~mask] = -inf`"),
    Theorem(T + "greedyLe_eq", "proved", "obligation on the extracted `argmax` of greedy"),
    Theorem(T + "rowFlag_eq", "proved", "obligation on the extracted loop flag `(~mask).gather(...)` of sampling"),
    Theorem(T + "contCond_eq", "proved", "obligation on the extracted `.any()` of the sampling loop"),
    Theorem(T + "sampleLoop_never_asserts", "proved", "the assertion after the sampling loop never fires (single row)"),
    Theorem(T + "sampleLoopB_never_asserts", "proved", "… nor for a batch: the loop `.any()` exits only when every row is feasible"),
    Theorem(T + "decodeLogprobs_feasible", "proved", "decode_logprobs (greedy / sampling dispatch) only returns feasible actions"),
    Theorem(T + "nomask_sound", "proved", "mask_logits=False: all distribution clauses hold with every action feasible, whatever mask is passed"),
    Theorem(T + "step_nomask", "proved", "Greedy/Sampling(mask_logits=False).step return the argmax / first draw unchecked"),
    Theorem(T + "processLogitsGen_eq", "proved", "translator tie: the statement sequence regenerated from process_logits (Generated/LogitsPipeline.lean) is the model"),
    Theorem(T + "decoding_sound_generated", "proved", "all distribution / greedy / sampling clauses restated on the generated process_logits"),
    Theorem(T + "shift_invariant_generated", "proved", "shift invariance (clipping off) on the generated process_logits"),
    Theorem(T + "postHook_fresh", "proved", "fresh strategy object: post_decoder_hook returns the per-step selected actions in order and, per step, the probability of the action selected at that step (whole row with store_all_logp)"),
    Theorem(T + "postHook_reuse", "proved", "object reuse: the buffers are not reset, a second sequence returns first ++ second"),
    Theorem(T + "evaluate_gathers", "proved", "Evaluate: returned actions are the given ones and entry t is step t's probability of the given action"),
    Theorem(T + "runSteps_append", "proved", "step only appends to the buffers"),
    Theorem("Rl4co.Spec.Decode.isDist_uniform", "proved", "spec sanity: the uniform distribution satisfies IsDist (n > 0)"),
    Theorem("Rl4co.Spec.Decode.feasible_mass_one", "proved", "spec sanity: IsDist ∧ MaskedZero ⇒ the feasible actions carry mass 1"),
    Theorem("Rl4co.Spec.Decode.topkCard_of_card_le", "proved", "spec sanity: #kept ≤ k ⇒ TopkCard (the ties-aside clause only weakens 'at most k')"),
    Theorem("Rl4co.Spec.Decode.argmaxKept_strictMono", "proved", "spec sanity: ArgmaxKept depends only on the order of the scores"),
    Theorem("Rl4co.Spec.Decode.toppMass_all_kept", "proved", "spec sanity: keeping everything satisfies the mass clause"),
    Theorem("Rl4co.Spec.Decode.toppTight_excludes", "proved", "spec sanity: tightness excludes an action dominated by a strictly more likely one of mass ≥ p"),
    Theorem("Rl4co.Spec.Decode.toppTight_subset", "proved", "spec sanity: tightness is inherited by smaller supports"),
    Theorem(T + "shift_invariant", "proved", "clipping off: adding a constant to all logits changes neither probabilities nor support"),
    Theorem(T + "valid_shift", "proved", "clipping off: the valid oracle inputs of shifted and unshifted logits coincide"),
    Theorem(T + "shift_invariant_clipped_counterexample", "proved",
            "NEGATION of shift invariance with clipping on, for every bounded clipping function with clip 0 ≠ clip 1 (Archimedean field)"),
    Theorem(T + "shift_invariant_tanh_counterexample", "proved", "… in particular for tanh(·)·C over ℝ with exp"),
    Theorem(T + "greedy_is_max", "proved", "any argmax of the log-probs passes greedy's assertion, is feasible, maximises the distribution and the score among feasible actions"),
    Theorem(T + "sample_feasible", "proved", "an index of positive probability is feasible and accepted by the resampling loop at once"),
    Theorem(T + "sampleLoop_feasible", "proved", "the resampling loop only returns feasible actions, whatever is drawn"),
    Theorem(T + "sampleLoopB_feasible", "proved", "the batched resampling loop (.any() over rows) returns only all-feasible draw vectors"),
    Theorem(T + "no_infeasible_emitted", "proved", "Greedy.step / Sampling.step never emit an infeasible action"),
    Theorem(T + "expLike_exp", "proved", "Real.exp is exp-like (hypothesis of the generic theorems is satisfiable)"),
    Theorem(T + "decoding_sound_real", "proved", "all clauses over ℝ with Real.exp"),
    Theorem(T + "shift_invariant_real", "proved", "shift invariance over ℝ with Real.exp, clipping off"),
    Theorem(T + "exists_valid", "proved", "non-vacuity in general: for every row with a feasible action and T > 0 valid oracle inputs (k-th largest index, sorting permutation) exist"),
    Theorem(T + "exists_greedyValid", "proved", "an argmax exists for every non-empty row"),
    Theorem(T + "exists_sampleValid", "proved", "an index of positive probability exists"),
    Theorem(T + "ex_valid", "proved", "non-vacuity: a concrete 4-action row with a tie, a masked action, T=2, top_k=2, top_p=1/2 and valid oracle inputs"),
]

register(Unit("C10", "logits", run, drivers=["drv_logits"],
              lean_modules=["Rl4co.Props.C10.Logits", "Rl4co.Props.C10.LogitsReal", "Rl4co.Props.C10.LogitsExists", "Rl4co.Props.C10.LogitsTight", "Rl4co.Props.C10.LogitsOpt", "Rl4co.Props.C10.LogitsGenerated",
                            "Rl4co.Props.C10.LogitsSpecSanity", "Rl4co.Decode.LogitsStep"],
              theorems=THEOREMS,
              assumptions=[MODEL_NOTE, ORACLE_NOTE, SCOPE_NOTE, TOKEN_NOTE, FORMS_NOTE,
                           "the driver instantiates the model with rationals and the weight 2^y on integer logits "
                           "(the real code is fed y·ln 2); the theorems are stated for every ordered field and exp-like weight, "
                           "instantiated with Real.exp",
                           "softmax is modelled as w(x)/Σw(x) (torch subtracts the row maximum first; equal for an exp-like weight); "
                           "log_softmax as its support plus the probabilities exp(logprob)"]))
