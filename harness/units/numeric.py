"""C20 on the definitions REGENERATED from the Python source (translator tie, expression level).

`harness/pytrans.py` translates the statements of `RewardScaler.update/__call__`,
`ExponentialBaseline.eval`, `WarmupBaseline.epoch_callback/eval` operator by operator into
`lean/Rl4co/Generated/Numeric.lean` on every run; `Rl4co/Props/C20/TrainGenerated.lean` proves C20's
clauses about these generated definitions (and that each of them is the hand-written model).  This unit
 * reports what the translator could translate this run (a construct outside its language = `pattern-miss`:
   the committed text stays, never an alarm),
 * runs the generated definitions (native driver `drv_numeric`, exact rationals) and the real classes on
   the same histories — a check of the translator itself, independent of the hand-written model —
 * and judges the property on the real outcome (mean / sample variance of everything seen; recurrence;
   convex combination) by the closed forms computed here in exact arithmetic.
"""
from __future__ import annotations

import math
from fractions import Fraction

import torch

import pytrans
from common import Theorem, Unit, register


def fs(q: Fraction) -> str:
    return str(q.numerator) if q.denominator == 1 else f"{q.numerator}/{q.denominator}"


def pq(s: str) -> Fraction:
    return Fraction(s)


def close(a: float, q: Fraction, rel=1e-9, ab=1e-9) -> bool:
    b = float(q)
    if math.isnan(a) or math.isinf(a):
        return False
    return abs(a - b) <= ab + rel * max(abs(a), abs(b))


def dy(rng, bits=3, lo=-6, hi=6) -> Fraction:
    return Fraction(rng.randrange(lo << bits, (hi << bits) + 1), 1 << bits)


def history(rng):
    kind = rng.choice(["mixed", "mixed", "ones", "const", "big"])
    nb = rng.randint(1, 7)
    out = []
    for _ in range(nb):
        n = 1 if kind == "ones" else rng.choice([1, 2, 3, 4, 5, 8, 13])
        if kind == "const":
            c = dy(rng)
            out.append([c] * n)
        elif kind == "big":
            out.append([dy(rng) + 1000 for _ in range(n)])
        else:
            out.append([dy(rng) for _ in range(n)])
    return kind, out


def t64(xs):
    return torch.tensor([float(x) for x in xs], dtype=torch.float64)


def run_c20(ctx):
    rep = pytrans.generate(write=False)
    for k, v in rep.items():
        ctx.count(f"translator.{v['status']}")
        if v["status"] != "extracted":
            ctx.note(f"{k}: {v.get('why', '')} — committed definition kept (pattern-miss is not an alarm)")
    check_scaler(ctx)
    check_ema(ctx)
    check_warmup(ctx)


# ---------------------------------------------------------------------------------------------
def check_scaler(ctx):
    from rl4co.models.rl.common.utils import RewardScaler

    eps64 = Fraction(torch.finfo(torch.float64).eps)
    for h in range(ctx.budget(120, 1500)):
        kind, hist = history(ctx.rng)
        mode = ctx.rng.choice(["norm", "scale"])
        ctx.count(f"scaler.kind.{kind}")
        ctx.count(f"scaler.mode.{mode}")
        sc = RewardScaler(mode)
        stats, outs = [], []
        try:
            for b in hist:
                o = sc(t64(b))
                stats.append((int(sc.count), float(sc.mean), float(sc.M2)))
                outs.append(o.tolist())
        except Exception as e:
            ctx.violation("scaler-statistics", f"RewardScaler({mode!r}) raises {type(e).__name__}",
                          {"history": [[fs(x) for x in b] for b in hist], "error": str(e)[:200]})
            continue
        line = f"numeric.welford {len(hist)} " + " ".join(f"{len(b)} " + " ".join(fs(x) for x in b) for b in hist)
        ans = ctx.driver.ask(line).split()
        gen = [tuple(a.split(";")) for a in ans]
        seen = []
        for i, b in enumerate(hist):
            seen += b
            ctx.case(("scaler", h, i))
            n = len(seen)
            mean = sum(seen, Fraction(0)) / n
            m2 = sum(((x - mean) ** 2 for x in seen), Fraction(0))
            rc, rm, rM = stats[i]
            # the property on the real outcome (closed forms)
            if rc != n or not close(rm, mean) or not close(rM, m2, ab=1e-7):
                ctx.violation("scaler-statistics", "running statistics of RewardScaler differ from count / mean / Σ(x−mean)² of all values observed",
                              {"history": [[fs(x) for x in bb] for bb in hist[: i + 1]], "real": [rc, rm, rM],
                               "expected": [n, fs(mean), fs(m2)]})
            # translator tie: generated definition == real code
            gc, gm, gM = int(gen[i][0]), pq(gen[i][1]), pq(gen[i][2])
            if gc != rc or not close(rm, gm) or not close(rM, gM, ab=1e-7):
                ctx.disagreement("generated RewardScaler.update differs from the real update",
                                 {"history": [[fs(x) for x in bb] for bb in hist[: i + 1]], "real": [rc, rm, rM],
                                  "generated": [gc, fs(gm), fs(gM)]})
            if n < 2:
                ctx.count("scaler.N=1-skipped")
                continue
            var = m2 / (n - 1)
            # the argument the generated code hands to sqrt, and its root (harness supplies the root)
            arg = pq(ctx.driver.ask(f"numeric.scale arg 0 0 {gc} {fs(gm)} {fs(gM)} 0").split("=")[1])
            sqv = Fraction(math.sqrt(float(arg))) if arg >= 0 else Fraction(0)
            out = ctx.driver.ask(f"numeric.scale {mode} {fs(eps64)} {fs(sqv)} {gc} {fs(gm)} {fs(gM)} {len(b)} " + " ".join(fs(x) for x in b))
            gout = [pq(x) for x in out.split("out=")[1].split(",")] if "out=" in out else None
            fac = Fraction(math.sqrt(float(var))) + eps64
            exp = [((x - mean) if mode == "norm" else x) / fac for x in b]
            if var == 0:
                # numerically constant data: the real M2 is rounding noise (possibly negative → NaN after sqrt) divided by
                # eps; float rounding is outside the model — the statistics above were still compared
                ctx.count("scaler.zero-variance-output-skipped")
                continue
            tol = dict(rel=1e-7, ab=1e-9)
            if any(not close(r, e, **tol) for r, e in zip(outs[i], exp)):
                ctx.violation("scaler-output", f"RewardScaler({mode!r}) output is not the stated transformation with the statistics of all values observed",
                              {"history": [[fs(x) for x in bb] for bb in hist[: i + 1]], "real": outs[i][:6],
                               "expected": [float(e) for e in exp[:6]]})
            if gout is None or len(gout) != len(outs[i]) or any(not close(r, g, **tol) for r, g in zip(outs[i], gout)):
                ctx.disagreement("generated RewardScaler.__call__ branch differs from the real output",
                                 {"history": [[fs(x) for x in bb] for bb in hist[: i + 1]], "mode": mode, "real": outs[i][:6],
                                  "generated": None if gout is None else [float(g) for g in gout[:6]]})
        ctx.sample({"scaler": mode, "history": [[fs(x) for x in b] for b in hist][:3], "stats": stats[-1]})


# ---------------------------------------------------------------------------------------------
def check_ema(ctx):
    from rl4co.models.rl.reinforce.baselines import ExponentialBaseline

    for h in range(ctx.budget(80, 1000)):
        beta = ctx.rng.choice([Fraction(4, 5), Fraction(1, 2), Fraction(0), Fraction(1, 4), Fraction(7, 8), Fraction(1)])
        kind, hist = history(ctx.rng)
        if ctx.rng.random() < 0.3:  # moving average exactly 0 after the first batch
            hist = [[Fraction(1), Fraction(-1)]] + hist
            ctx.count("ema.first-mean-zero")
        ctx.count(f"ema.beta.{fs(beta)}")
        bl = ExponentialBaseline(beta=float(beta))
        real = []
        for b in hist:
            v, loss = bl.eval(None, t64(b))
            real.append(float(v))
            if float(loss) != 0:
                ctx.violation("ema-recurrence", "ExponentialBaseline returns a non-zero loss", {"loss": float(loss)})
        line = f"numeric.ema {fs(beta)} {len(hist)} " + " ".join(f"{len(b)} " + " ".join(fs(x) for x in b) for b in hist)
        gen = [pq(x) for x in ctx.driver.ask(line).split()]
        v = None
        for i, b in enumerate(hist):
            ctx.case(("ema", h, i))
            m = sum(b, Fraction(0)) / len(b)
            v = m if v is None else beta * v + (1 - beta) * m
            if not close(real[i], v):
                ctx.violation("ema-recurrence", "ExponentialBaseline does not follow v ← beta·v + (1−beta)·mean(reward) (first value: the mean)",
                              {"beta": fs(beta), "history": [[fs(x) for x in bb] for bb in hist[: i + 1]], "real": real[i], "expected": fs(v)})
                break
            if not close(real[i], gen[i]):
                ctx.disagreement("generated ExponentialBaseline.eval differs from the real one",
                                 {"beta": fs(beta), "history": [[fs(x) for x in bb] for bb in hist[: i + 1]], "real": real[i],
                                  "generated": fs(gen[i])})
                break


# ---------------------------------------------------------------------------------------------
class _Const:
    """a wrapped baseline with a fixed answer (`WarmupBaseline` only calls `eval` / `epoch_callback` on it)"""

    def __init__(self, v, l):
        self.v, self.l = v, l

    def eval(self, td, reward, env=None):
        return self.v, self.l

    def epoch_callback(self, *a, **k):
        pass


def check_warmup(ctx):
    from rl4co.models.rl.reinforce.baselines import WarmupBaseline

    for h in range(ctx.budget(60, 600)):
        n = ctx.rng.choice([1, 2, 3, 4, 5, 8, 10])
        beta = ctx.rng.choice([Fraction(4, 5), Fraction(1, 2), Fraction(0)])
        vb, lb = dy(ctx.rng), abs(dy(ctx.rng))
        wb = WarmupBaseline(_Const(torch.tensor(float(vb), dtype=torch.float64), torch.tensor(float(lb), dtype=torch.float64)),
                            n_epochs=n, warmup_exp_beta=float(beta))
        E = n + 3
        galphas = [pq(x) for x in ctx.driver.ask(f"numeric.alpha {n} {E}").split(",")]
        ema = None
        for e in range(E):
            ctx.case(("warmup", h, e))
            # evaluate during epoch e (weight set by the callbacks of epochs < e)
            alpha_before = Fraction(0) if e == 0 else min(Fraction(1), Fraction(e, n))
            if not close(float(wb.alpha), alpha_before):
                ctx.violation("warmup-alpha", "warm-up weight is not min(1, epochs_done / n_epochs)",
                              {"n_epochs": n, "epoch": e, "real": float(wb.alpha), "expected": fs(alpha_before)})
                break
            b = [dy(ctx.rng) for _ in range(ctx.rng.choice([1, 2, 4]))]
            m = sum(b, Fraction(0)) / len(b)
            v, l = wb.eval(None, t64(b))
            if alpha_before != 1:  # the warm-up moving average is evaluated (and advanced) unless alpha == 1
                ema = m if ema is None else beta * ema + (1 - beta) * m
            exp_v = vb if alpha_before == 1 else alpha_before * vb + (1 - alpha_before) * ema
            exp_l = lb if alpha_before == 1 else alpha_before * lb
            if not close(float(v), exp_v) or not close(float(l), exp_l):
                ctx.violation("warmup-convex", "WarmupBaseline.eval is not alpha·v_b + (1−alpha)·v_wb (and alpha·l_b for the loss)",
                              {"n_epochs": n, "epoch": e, "alpha": fs(alpha_before), "real": [float(v), float(l)],
                               "expected": [fs(exp_v), fs(exp_l)]})
                break
            if 0 < alpha_before < 1:
                g = ctx.driver.ask(f"numeric.mix {fs(alpha_before)} {fs(vb)} {fs(ema)} {fs(lb)} 0").split(";")
                if not close(float(v), pq(g[0])) or not close(float(l), pq(g[1])):
                    ctx.disagreement("generated warm-up mixture differs from the real one",
                                     {"alpha": fs(alpha_before), "real": [float(v), float(l)], "generated": g})
                    break
                ctx.count("warmup.mixture-compared")
            wb.epoch_callback(None, epoch=e)
            if e < n and not close(float(wb.alpha), galphas[e]):
                ctx.disagreement("generated warm-up weight differs from the real one",
                                 {"n_epochs": n, "epoch": e, "real": float(wb.alpha), "generated": fs(galphas[e])})
                break


NOTE = ("The definitions in Rl4co/Generated/Numeric.lean are produced by harness/pytrans.py from the Python AST on every run "
        "(straight-line arithmetic over scalars / flat tensors: + − × ÷, unary minus, .sum(), .mean(), len, float, .sqrt, "
        "in-place updates); the square root stays an uninterpreted function `sq`; guards (`if self.v is None`, "
        "`if epoch < n_epochs`, the `scale` mode dispatch) are selected by the translator's target table, not translated "
        "(the token probes and the `train` unit cover them); float rounding is outside the model (float64 runs compared to 1e-9).")

THEOREMS = [
    Theorem("Rl4co.Train.GenBridge.gen_update_eq", "proved", "obligation: the regenerated RewardScaler.update IS the hand-written Welford.update (rfl)"),
    Theorem("Rl4co.Train.GenBridge.genRun_eq", "proved", "folding the regenerated update over any history = the model's run"),
    Theorem("Rl4co.Train.GenBridge.gen_welford_exact", "proved",
            "C20 on the regenerated code: after ANY list of batches count = N, mean = Σx/N, M2 = Σ(x−mean)²"),
    Theorem("Rl4co.Train.GenBridge.gen_factor_eq", "proved", "obligation: regenerated `std + eps` with std = sq(M2/(count−1)) = model factor"),
    Theorem("Rl4co.Train.GenBridge.gen_norm_eq", "proved", "obligation: regenerated 'norm' branch = model output"),
    Theorem("Rl4co.Train.GenBridge.gen_scale_eq", "proved", "obligation: regenerated 'scale' branch = model output"),
    Theorem("Rl4co.Train.GenBridge.gen_scale_norm", "proved",
            "C20 on the regenerated code: 'norm' output = (x − mean)/(sq(sample variance)+eps) over everything observed, N ≥ 2"),
    Theorem("Rl4co.Train.GenBridge.gen_scale_scale", "proved", "C20 on the regenerated code: 'scale' output = x/(sq(sample variance)+eps)"),
    Theorem("Rl4co.Train.GenBridge.gen_ema_first_eq", "proved", "obligation: regenerated first evaluation = batch mean"),
    Theorem("Rl4co.Train.GenBridge.gen_ema_step_eq", "proved", "obligation: regenerated recurrence = beta·v + (1−beta)·mean"),
    Theorem("Rl4co.Train.GenBridge.genEmaRun_eq", "proved", "folding the regenerated formulas over any history of batches = the model's run on the batch means"),
    Theorem("Rl4co.Train.GenBridge.gen_ema_closed_form", "proved", "C20 on the regenerated code: closed form of the moving average after any history"),
    Theorem("Rl4co.Train.GenBridge.gen_warmup_alpha_eq", "proved", "obligation: the callback's weight is the regenerated (epoch+1)/n_epochs while epoch < n_epochs"),
    Theorem("Rl4co.Train.GenBridge.gen_warmup_alpha", "proved", "C20 on the regenerated code: weight after epoch e = (e+1)/n below n, exactly 1 from n on"),
    Theorem("Rl4co.Train.GenBridge.gen_warmup_mix_eq", "proved", "obligation: regenerated mixture = the elementwise operation of the model's eval"),
    Theorem("Rl4co.Train.GenBridge.gen_warmup_mix", "proved", "C20 on the regenerated code: α·v_b + (1−α)·v_wb, weights summing to one"),
]

register(Unit("C20", "numeric_generated", run_c20, drivers=["drv_numeric"],
              lean_modules=["Rl4co.Generated.Numeric", "Rl4co.Props.C20.TrainGenerated"], theorems=THEOREMS, assumptions=[NOTE]))


# =================================================================================================
# C16 — REINFORCE.calculate_loss / CriticBaseline.eval / SharedBaseline.eval, regenerated (Generated/Losses.lean)
# =================================================================================================
def _rand_ten(rng, shape, grad=True):
    """a tensor given as exact dyadic (value, derivative) pairs: entry(θ) = v + θ·d"""
    import itertools
    n = 1
    for s in shape:
        n *= s
    vs = [dy(rng, 2, -3, 3) for _ in range(n)]
    dsv = [(dy(rng, 2, -2, 2) if grad else Fraction(0)) for _ in range(n)]
    return shape, vs, dsv


def _ten_line(t):
    shape, vs, dsv = t
    body = " ".join(f"{fs(v)} {fs(d)}" for v, d in zip(vs, dsv))
    if len(shape) == 0:
        return f"s {body}"
    if len(shape) == 1:
        return f"v {shape[0]} {body}"
    return f"m {shape[0]} {shape[1]} {body}"


def _ten_torch(t, theta):
    shape, vs, dsv = t
    v = torch.tensor([float(x) for x in vs], dtype=torch.float64).reshape(shape)
    if all(x == 0 for x in dsv):
        return v  # gradient-free by construction (rewards come out of the environment under no_grad)
    d = torch.tensor([float(x) for x in dsv], dtype=torch.float64).reshape(shape)
    return v + theta * d


def _parse_dual(s):
    v, d = s.split(";")
    return pq(v), pq(d)


def _grad(x, theta):
    if not isinstance(x, torch.Tensor) or not x.requires_grad:
        return 0.0
    (g,) = torch.autograd.grad(x, theta, retain_graph=True, allow_unused=True)
    return 0.0 if g is None else float(g)


def run_c16(ctx):
    import types

    from rl4co.models.rl.reinforce.baselines import CriticBaseline, SharedBaseline
    from rl4co.models.rl.reinforce.reinforce import REINFORCE

    rep = pytrans.generate(write=False)
    for k, v in rep.items():
        ctx.count(f"translator.{v['status']}")
    rng = ctx.rng
    for h in range(ctx.budget(250, 3000)):
        theta = torch.zeros((), dtype=torch.float64, requires_grad=True)
        n = rng.choice([1, 2, 3, 4, 6])
        S = rng.choice([1, 2, 3])
        kind = rng.choice(["vec", "vec", "scalar", "shared", "critic", "critic-col", "mismatch", "col-baseline"])
        ctx.count(f"reinforce.kind.{kind}")
        scq = rng.choice(["off", "off", "div", "norm"])
        c, m, f = abs(dy(rng, 2, 1, 4)) + 1, dy(rng, 2), abs(dy(rng, 2, 1, 3)) + 1
        sc_line = {"off": "off", "div": f"div {fs(c)}", "norm": f"norm {fs(m)} {fs(f)}"}[scq]
        scaler = {"off": (lambda x: x), "div": (lambda x: x / float(c)), "norm": (lambda x: (x - float(m)) / float(f))}[scq]
        rshape = (n, S) if kind == "shared" else (n,)
        R = _rand_ten(rng, rshape, grad=False)
        LL = _rand_ten(rng, rshape if kind != "mismatch" else (n + 1,), grad=True)
        Rt, LLt = _ten_torch(R, theta), _ten_torch(LL, theta)
        bl_line = None
        # --- baseline: real object + generated definition ---------------------------------------------------
        try:
            if kind == "shared":
                blv, bll = SharedBaseline().eval(None, Rt)
                g = ctx.driver.ask(f"numeric.shared {_ten_line(R)}")
            elif kind in ("critic", "critic-col"):
                out = _rand_ten(rng, (n, 1) if kind == "critic" else (n,), grad=True)
                cb = CriticBaseline(critic=(lambda x, _o=out: _ten_torch(_o, theta)))
                blv, bll = cb.eval(None, Rt)
                g = ctx.driver.ask(f"numeric.critic {_ten_line(out)} {_ten_line(R)}")
            else:
                bshape = {"vec": (n,), "mismatch": (n,), "scalar": (), "col-baseline": (n, 1)}[kind]
                B = _rand_ten(rng, bshape, grad=False)
                blq = _rand_ten(rng, (), grad=True)
                blv, bll = _ten_torch(B, theta), _ten_torch(blq, theta)
                g = None
                bl_line = (_ten_line(B), f"{fs(blq[1][0])} {fs(blq[2][0])}")
        except Exception as e:
            ctx.count("reinforce.baseline-raises")
            if kind in ("critic", "critic-col") and "error=shape" not in ctx.driver.ask(f"numeric.critic {_ten_line(out)} {_ten_line(R)}"):
                ctx.disagreement("real CriticBaseline.eval raises, the generated one does not", {"kind": kind, "error": str(e)[:120]})
            continue
        if g is not None:
            if "error=shape" in g:
                ctx.disagreement("generated baseline eval fails where the real one succeeds", {"kind": kind, "reply": g})
                continue
            fields = dict(x.split("=", 1) for x in g.split())
            gshape, gvals = fields["val"].split(":")
            gv = [_parse_dual(x) for x in gvals.split(",")] if gvals else []
            gl = _parse_dual(fields["loss"])
            rv = blv.reshape(-1).tolist()
            ok = (str(list(blv.shape)).replace(" ", "") == gshape and len(rv) == len(gv)
                  and all(close(a, b[0]) for a, b in zip(rv, gv)) and close(float(bll), gl[0]) and close(_grad(bll, theta), gl[1]))
            if not ok:
                ctx.disagreement("generated baseline eval differs from the real one",
                                 {"kind": kind, "real": [list(blv.shape), rv[:6], float(bll)], "generated": g[:200]})
                continue
            # the baseline VALUE must carry no gradient (C16)
            if isinstance(blv, torch.Tensor) and blv.requires_grad and abs(_grad(blv.sum(), theta)) > 0:
                ctx.violation("baseline-value-carries-gradient", f"{kind} baseline value carries a gradient into the policy",
                              {"kind": kind, "line": g[:200]})
            bl_line = (f"{'m' if blv.dim() == 2 else 'v' if blv.dim() == 1 else 's'} "
                       + " ".join(str(x) for x in blv.shape) + (" " if blv.dim() else "") + " ".join(f"{fs(a)} 0" for a, _ in gv),
                       f"{fs(gl[0])} {fs(gl[1])}")
        # --- calculate_loss: real (unbound, on a stand-in for `self`) vs generated -----------------------------
        fake = types.SimpleNamespace(baseline=types.SimpleNamespace(eval=lambda td, r, env: (blv, bll)), env=None,
                                     advantage_scaler=scaler)
        line = f"numeric.reinforce {sc_line} {_ten_line(R)} {bl_line[0]} {_ten_line(LL)} {bl_line[1]}"
        grep = ctx.driver.ask(line)
        ctx.case(("reinforce", h))
        try:
            out = REINFORCE.calculate_loss(fake, None, {}, {}, Rt, LLt)
        except Exception as e:
            ctx.count("reinforce.real-raises")
            if "error=shape" not in grep:
                ctx.disagreement("real calculate_loss raises, the generated one does not", {"kind": kind, "error": str(e)[:120], "line": line[:200]})
            continue
        if "error=shape" in grep:
            ctx.disagreement("generated calculate_loss fails where the real one succeeds", {"kind": kind, "line": line[:200]})
            continue
        fields = dict(x.split("=", 1) for x in grep.split())
        glv, gld = _parse_dual(fields["loss"])
        loss = out["loss"]
        if not close(float(loss), glv) or not close(_grad(loss, theta), gld):
            ctx.disagreement("generated calculate_loss differs from the real one (value; derivative)",
                             {"kind": kind, "scale": scq, "real": [float(loss), _grad(loss, theta)], "generated": [fs(glv), fs(gld)],
                              "line": line[:300]})
            continue
        # --- the property on the real outcome: reference surrogate (only where shapes pair entry by entry) --------
        if kind in ("vec", "scalar", "critic", "shared"):
            Rv = [float(x) for x in R[1]]
            llv, lld = [float(x) for x in LL[1]], [float(x) for x in LL[2]]
            bflat = blv.detach().reshape(-1).tolist() if isinstance(blv, torch.Tensor) else [float(blv)]
            if kind == "shared":
                bfull = [bflat[i // S] for i in range(n * S)]
            elif len(bflat) == 1:
                bfull = bflat * len(Rv)
            else:
                bfull = bflat
            adv = [scaler(r - b) for r, b in zip(Rv, bfull)]
            N = len(Rv)
            ref_v = -sum(a * l for a, l in zip(adv, llv)) / N + float(bll)
            ref_d = -sum(a * l for a, l in zip(adv, lld)) / N + _grad(bll, theta)
            if abs(float(loss) - ref_v) > 1e-9 * (1 + abs(ref_v)) or abs(_grad(loss, theta) - ref_d) > 1e-9 * (1 + abs(ref_d)):
                ctx.violation("reinforce-loss", "REINFORCE loss / gradient differs from −mean((R − b)·ll) + bl_loss with a gradient-free advantage",
                              {"kind": kind, "scale": scq, "real": [float(loss), _grad(loss, theta)], "reference": [ref_v, ref_d],
                               "line": line[:300]})
            ctx.count("reinforce.judged")
    ctx.sample({"last-line": line[:200], "reply": grep[:200]})
    run_c16_ppo(ctx)


def _tenk_line(shape, vs):
    body = " ".join(fs(v) for v in vs)
    if len(shape) == 0:
        return f"s {body}"
    if len(shape) == 1:
        return f"v {shape[0]} {body}"
    return f"m {shape[0]} {shape[1]} {body}"


def run_c16_ppo(ctx):
    """The six statements of the PPO loss block, as they stand in ppo.py, executed in Python next to their
    regenerated Lean translation; value and directional derivative; reference surrogate on the real outcome."""
    import types

    import torch.nn.functional as F

    try:
        block = pytrans.ppo_block_callable()
    except pytrans.Untranslatable as e:
        ctx.note(f"PPO loss block not found in its translated shape ({e}); committed definition kept, nothing compared")
        ctx.count("ppo.block-pattern-miss")
        return
    rng = ctx.rng
    for h in range(ctx.budget(150, 2000)):
        theta = torch.zeros((), dtype=torch.float64, requires_grad=True)
        B, T = rng.choice([1, 2, 3, 5]), rng.choice([1, 2, 3])
        c = rng.choice([Fraction(1, 5), Fraction(1, 10), Fraction(1, 2)])
        vf, el = rng.choice([Fraction(1, 2), Fraction(1), Fraction(0)]), rng.choice([Fraction(1, 100), Fraction(0), Fraction(1, 4)])
        LL = _rand_ten(rng, (B, T))
        args = [rng.choice([Fraction(-1), Fraction(-1, 2), Fraction(-1, 8), Fraction(0), Fraction(1, 16), Fraction(1, 8), Fraction(1, 2), Fraction(1)])
                for _ in range(B)]
        rows = [sum(LL[1][i * T:(i + 1) * T], Fraction(0)) for i in range(B)]
        old = [rows[i] - args[i] for i in range(B)]
        R = [dy(rng, 2, -3, 3) for _ in range(B)]
        vkind = rng.choice(["col", "col", "col", "flat", "bad"])
        vshape = {"col": (B, 1), "flat": (B,), "bad": (B + 1, 1)}[vkind]
        VP = _rand_ten(rng, vshape)
        ENT = _rand_ten(rng, (B,))
        ctx.count(f"ppo.value-shape.{vkind}")
        table = sorted(set(args))
        wtab = {a: Fraction(math.exp(float(a))) for a in table}
        line = (f"numeric.ppo {fs(c)} {fs(vf)} {fs(el)} {_ten_line(LL)} {_tenk_line((B,), old)} {_tenk_line((B,), R)} "
                f"{_ten_line(VP)} {_ten_line(ENT)} {len(table)} " + " ".join(f"{fs(a)} {fs(wtab[a])}" for a in table))
        g = ctx.driver.ask(line)
        ctx.case(("ppo", h))
        fake = types.SimpleNamespace(ppo_cfg={"clip_range": float(c), "vf_lambda": float(vf), "entropy_lambda": float(el)})
        sub_td = {"reward": torch.tensor([float(x) for x in R], dtype=torch.float64),
                  "logprobs": torch.tensor([float(x) for x in old], dtype=torch.float64)}
        try:
            out = block(torch, F, fake, sub_td, _ten_torch(LL, theta), _ten_torch(ENT, theta), _ten_torch(VP, theta))
        except Exception as e:
            ctx.count("ppo.real-raises")
            if "error=shape" not in g:
                ctx.disagreement("the PPO loss statements raise, their translation does not", {"line": line[:300], "error": str(e)[:120]})
            continue
        if "error=shape" in g:
            ctx.disagreement("the translated PPO loss block fails where the statements succeed", {"line": line[:300]})
            continue
        fields = dict(x.split("=", 1) for x in g.split())
        ok = True
        for key, name in (("loss", "loss"), ("surrogate", "surrogate_loss"), ("value", "value_loss")):
            gv, gd = _parse_dual(fields[key])
            if not close(float(out[name]), gv, rel=1e-8) or not close(_grad(out[name], theta), gd, rel=1e-8):
                ok = False
                ctx.disagreement(f"translated PPO loss block differs from the statements ({name}: value; derivative)",
                                 {"real": [float(out[name]), _grad(out[name], theta)], "generated": [fs(gv), fs(gd)], "line": line[:400]})
                break
        if not ok:
            continue
        if str(list(out["ratio"].shape)).replace(" ", "") != fields["ratio"].split(":")[0] or \
                str(list(out["adv"].shape)).replace(" ", "") != fields["adv"].split(":")[0]:
            ctx.disagreement("translated PPO loss block: ratio / advantage shapes differ from the statements",
                             {"real": [list(out["ratio"].shape), list(out["adv"].shape)], "generated": [fields["ratio"][:20], fields["adv"][:20]]})
            continue
        # --- the property on the real outcome (proper shapes only: critic output [B,1]) -------------------------
        if vkind == "col":
            r = [math.exp(float(a)) for a in args]
            dS = [float(sum(LL[2][i * T:(i + 1) * T], Fraction(0))) for i in range(B)]
            v, dv = [float(x) for x in VP[1]], [float(x) for x in VP[2]]
            A = [float(R[i]) - v[i] for i in range(B)]
            lo, hi = 1 - float(c), 1 + float(c)
            sv = sd = hv = hd = 0.0
            for i in range(B):
                cl = min(max(r[i], lo), hi)
                a, b = r[i] * A[i], cl * A[i]
                sv += min(a, b)
                inside = lo < r[i] < hi
                da, db = A[i] * r[i] * dS[i], (A[i] * r[i] * dS[i] if inside else 0.0)
                sd += da if a < b else db if b < a else 0.5 * (da + db)
                z = v[i] - float(R[i])
                hv += 0.5 * z * z if abs(z) < 1 else abs(z) - 0.5
                hd += (z if abs(z) < 1 else math.copysign(1.0, z)) * dv[i]
            ent_v = sum(float(x) for x in ENT[1]) / B
            ent_d = sum(float(x) for x in ENT[2]) / B
            ref_v = -sv / B + float(vf) * hv / B - float(el) * ent_v
            ref_d = -sd / B + float(vf) * hd / B - float(el) * ent_d
            lv, ld = float(out["loss"]), _grad(out["loss"], theta)
            if abs(lv - ref_v) > 1e-8 * (1 + abs(ref_v)) or abs(ld - ref_d) > 1e-8 * (1 + abs(ref_d)):
                ctx.violation("ppo-loss", "PPO loss / gradient differs from the clipped-ratio surrogate with value and entropy terms",
                              {"real": [lv, ld], "reference": [ref_v, ref_d], "line": line[:400]})
            ctx.count("ppo.judged")
    ctx.sample({"ppo-last-line": line[:200], "reply": g[:200]})


NOTE16 = ("Rl4co/Generated/Losses.lean is produced by harness/pytrans.py from the Python AST on every run (tensor expressions over "
          "rank ≤ 2 tensors of dual numbers: broadcasting + − ×, unary minus, .mean(), .mean(dim, keepdims), .squeeze(-1), .detach(), "
          "F.mse_loss, the advantage scaler as an entrywise map); the real `calculate_loss` is called unbound on a stand-in for `self`; "
          "gradients are compared along one random direction θ (autograd assumed to implement dual-number semantics); "
          "Rl4co/Generated/Ppo.lean: the six assignments of the PPO loss block (normalize_adv = False) regenerated the same way; on the Python "
          "side those six source statements are compiled as they stand into a function and executed (the surrounding training loop, "
          "optimizer and data loader are not run here — unit `train` runs `PPO.shared_step` itself); `exp` is an oracle table; "
          "SymNCO losses are not regenerated (token probes + hand-written model, unit `train`).")

THEOREMS16 = [
    Theorem("Rl4co.Train.GenBridge.gen_reinforce_eq", "proved", "obligation: the regenerated calculate_loss IS the model's calcLoss (same failures, loss, reinforce_loss, advantage)"),
    Theorem("Rl4co.Train.GenBridge.gen_critic_eq", "proved", "obligation: the regenerated CriticBaseline.eval IS the model's Critic.eval"),
    Theorem("Rl4co.Train.GenBridge.gen_shared_eq", "proved", "obligation: the regenerated SharedBaseline.eval IS the model's sharedEval"),
    Theorem("Rl4co.Train.GenBridge.gen_reinforce_vec", "proved",
            "C16 on the regenerated code: per-instance baseline, any scaling: loss = −mean(sc(R−b)·ll)+bl_loss, derivative likewise with gradient-free advantage"),
    Theorem("Rl4co.Train.GenBridge.gen_reinforce_scalar", "proved", "C16 on the regenerated code: scalar baseline (exponential / mean / none)"),
    Theorem("Rl4co.Train.GenBridge.gen_reinforce_shared", "proved",
            "C16 on the regenerated code: regenerated SharedBaseline.eval fed to regenerated calculate_loss: advantage [B,S], shared surrogate, value and derivative"),
    Theorem("Rl4co.Train.GenBridge.gen_ppo_eq", "proved", "obligation: the regenerated PPO loss block IS the model's ppoLoss with clipLo = 1−clip_range, clipHi = 1+clip_range, no normalisation"),
    Theorem("Rl4co.Train.GenBridge.gen_ppo_loss", "proved",
            "C16 on the regenerated PPO code: shapes [B,1], loss = clipped-ratio surrogate + vf·Huber − ent·entropy; derivative of the reference surrogate off the clip bounds"),
    Theorem("Rl4co.Train.GenBridge.gen_ppo_loss_all", "proved", "C16 on the regenerated PPO code: derivative at ALL points (weights 0, 1/2, 1 at the kinks, PyTorch's conventions)"),
    Theorem("Rl4co.Train.GenBridge.gen_a2c_loss", "proved",
            "C16 on the regenerated code: A2C = regenerated critic eval + regenerated calculate_loss: −mean((R−o)·ll)+mse(o,R) and its derivative"),
]

register(Unit("C16", "numeric_generated", run_c16, drivers=["drv_numeric"],
              lean_modules=["Rl4co.Generated.Losses", "Rl4co.Generated.Ppo", "Rl4co.Props.C16.TrainGenerated",
                            "Rl4co.Props.C16.TrainGeneratedPpo"], theorems=THEOREMS16, assumptions=[NOTE16]))
